#!/usr/bin/env python3
"""Sensitivity runner: applies each mutant of /verif/mutants/*.json to a scratch git worktree of /repo
(never to /repo itself), rebuilds a scratch copy of the harness against it and runs the quick check.

usage: mutation_run.py [--only ID,...] [--keep]
Result lines are appended to /verif/mutants/results.jsonl.
Scratch: /tmp/mut/{repo,harness,target,root} (removed at the end unless --keep).
"""
import json, os, subprocess, sys, shutil, time, glob

# an inherited CARGO_TARGET_DIR would override the scratch target-dir and leave a stale binary in place
os.environ.pop("CARGO_TARGET_DIR", None)

SCR = "/tmp/mut"
REPO = f"{SCR}/repo"
H = f"{SCR}/harness"
ROOT = f"{SCR}/root"

def sh(cmd, **kw):
    return subprocess.run(cmd, shell=True, capture_output=True, text=True, **kw)

def setup():
    os.makedirs(SCR, exist_ok=True)
    if not os.path.isdir(REPO):
        r = sh(f"git -C /repo worktree add --detach {REPO} HEAD")
        if r.returncode != 0:
            print(r.stderr); sys.exit(2)
    else:
        sh(f"git -C {REPO} checkout -q --detach $(git -C /repo rev-parse HEAD) && git -C {REPO} checkout -- .")
    shutil.rmtree(H, ignore_errors=True)
    shutil.copytree("/verif/harness", H, ignore=shutil.ignore_patterns("target"))
    for f in ["Cargo.toml"]:
        p = f"{H}/{f}"; s = open(p).read().replace('"/repo/', f'"{REPO}/'); open(p, "w").write(s)
    cfg = f"{H}/.cargo/config.toml"
    open(cfg, "w").write(f'[net]\noffline = true\n[build]\ntarget-dir = "{SCR}/target"\n')
    os.makedirs(ROOT, exist_ok=True)
    shutil.copy("/verif/known_findings.json", f"{ROOT}/known_findings.json")

def build():
    r = sh(f"cd {H} && cargo build --release --offline 2>&1 | tail -30")
    ok = os.path.exists(f"{SCR}/target/release/vcheck") and "error" not in r.stdout.split("Finished")[0][-2000:] if "Finished" in r.stdout else False
    return ("Finished" in r.stdout), r.stdout

def main():
    only = None; keep = False
    args = sys.argv[1:]
    if "--only" in args:
        only = set(args[args.index("--only") + 1].split(","))
    keep = "--keep" in args
    muts = []
    for f in sorted(glob.glob("/verif/mutants/*.json")):
        muts += json.load(open(f))
    if only:
        muts = [m for m in muts if m["id"] in only]
    setup()
    ok, out = build()
    if not ok:
        print("baseline build failed\n", out); sys.exit(2)
    for m in muts:
        if "patch" in m:
            sh(f"git -C {REPO} checkout -- . && git -C {REPO} clean -fdq")
            r = sh(f"git -C {REPO} apply {m['patch']}")
            res = {"id": m["id"], "property": m["property"], "desc": m.get("desc", ""), "patch": m["patch"]}
            if r.returncode != 0:
                res["status"] = "patch-does-not-apply"; res["log"] = r.stderr[-400:]
            else:
                t0 = time.time(); ok, out = build(); res["build_s"] = round(time.time() - t0, 1)
                if not ok:
                    res["status"] = "does-not-compile"; res["log"] = out[-600:]
                else:
                    checks = m["property"] if isinstance(m["property"], list) else [m["property"]]
                    res["runs"] = {}
                    for c in checks:
                        for seed in m.get("seeds", [0]):
                            shutil.rmtree(f"{ROOT}/replays", ignore_errors=True)
                            r = sh(f"VERIF_ROOT={ROOT} VERIF_SEED={seed} {SCR}/target/release/vcheck {c} quick", timeout=1800)
                            first = [l for l in r.stderr.splitlines() if "FAIL" in l or l.strip().startswith("[")]
                            res["runs"][f"{c}@{seed}"] = {"exit": r.returncode, "first": (first or [""])[0][:300]}
                    res["status"] = "detected" if any(v["exit"] == 1 for v in res["runs"].values()) else "MISSED"
            sh(f"git -C {REPO} checkout -- . && git -C {REPO} clean -fdq")
            print(json.dumps(res)); sys.stdout.flush()
            open("/verif/mutants/results.jsonl", "a").write(json.dumps(res) + "\n")
            continue
        path = f"{REPO}/{m['file']}"
        src = open(path).read()
        if src.count(m["find"]) != 1:
            res = {"id": m["id"], "property": m["property"], "status": "not-applicable", "why": f"pattern occurs {src.count(m['find'])} times"}
            print(json.dumps(res)); open("/verif/mutants/results.jsonl", "a").write(json.dumps(res) + "\n"); continue
        open(path, "w").write(src.replace(m["find"], m["replace"]))
        t0 = time.time()
        ok, out = build()
        res = {"id": m["id"], "property": m["property"], "desc": m.get("desc", ""), "build_s": round(time.time() - t0, 1)}
        if not ok:
            res["status"] = "does-not-compile"; res["log"] = out[-600:]
        else:
            checks = m["property"] if isinstance(m["property"], list) else [m["property"]]
            res["runs"] = {}
            for c in checks:
                shutil.rmtree(f"{ROOT}/replays", ignore_errors=True)
                r = sh(f"VERIF_ROOT={ROOT} VERIF_SEED={m.get('seed', 0)} {SCR}/target/release/vcheck {c} quick", timeout=1200)
                viol = [l for l in r.stdout.splitlines() if l.startswith("VIOLATION")]
                res["runs"][c] = {"exit": r.returncode, "violations": len(viol), "first": (r.stderr.strip().splitlines() or [""])[0][:300]}
            res["status"] = "detected" if any(v["exit"] == 1 for v in res["runs"].values()) else "MISSED"
        open(path, "w").write(src)
        print(json.dumps(res)); sys.stdout.flush()
        open("/verif/mutants/results.jsonl", "a").write(json.dumps(res) + "\n")
    if not keep:
        sh(f"git -C /repo worktree remove --force {REPO}")
        shutil.rmtree(SCR, ignore_errors=True)

if __name__ == "__main__":
    main()
