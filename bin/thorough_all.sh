#!/bin/bash
# usage: bin/thorough_all.sh [root] [ids...] — runs every check's thorough command (bin/check <id> thorough, with
# the per-check scale table and the fuzz tier) once; evidence/replays go under <root> (default /tmp/thorough_root)
# so that /verif/evidence is not disturbed.
root=${1:-/tmp/thorough_root}; shift
ids=${@:-$(python3 -c "import json;print(' '.join(c['property_id'] for c in json.load(open('/verif/MANIFEST.json'))['checks']))")}
mkdir -p $root; cp /verif/known_findings.json $root/
for id in $ids; do
  t0=$(date +%s)
  out=$(VERIF_ROOT=$root VERIF_SEED=${VERIF_SEED:-1} nice -n 10 /verif/bin/check $id thorough 2>&1 | grep -E '^(OK|VIOLATION|INCONCLUSIVE|BUILD)|FAIL' | head -4 | cut -c1-300 | tr '\n' ' ')
  echo "$id $(( $(date +%s) - t0 ))s $out"
done
