#!/usr/bin/env python3
"""Regenerates /verif/MANIFEST.json from the table in /verif/manifest_table.json."""
import json, os, sys
root = "/verif"
table = json.load(open(f"{root}/manifest_table.json"))
props = [json.loads(l) for l in open(f"{root}/properties.jsonl") if l.strip()]
checks, na = [], []
for p in props:
    pid = p["id"]
    t = table["checks"].get(pid)
    if t is None:
        na.append({"property_id": pid, "reason": table["not_applicable"].get(pid, "check not built yet in this round; no claim is made")})
        continue
    checks.append({
        "property_id": pid,
        "quick_cmd": f"bin/check {pid} quick",
        "thorough_cmd": f"bin/check {pid} thorough",
        "evidence_file": f"/verif/evidence/{pid}.json",
        "replay_cmd_template": f"bin/check {pid} --replay {{path}}",
        "engine": t.get("engine", "vcheck"),
        "level_claimed": {"category": "exploration", "text": t["text"], "design_ref": f"DESIGN.md §3 {pid}"},
        "level_note": t["note"],
        "technique": t["technique"],
    })
m = {
    "version": 1,
    "setup_cmd": "bin/setup",
    "hooks": table["hooks"],
    "engines": table["engines"],
    "checks": checks,
    "not_applicable": na,
    "notes": table["notes"],
}
json.dump(m, open(f"{root}/MANIFEST.json", "w"), indent=1)
print(f"{len(checks)} checks, {len(na)} not_applicable")
