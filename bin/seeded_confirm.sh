#!/bin/bash
# Confirm a seeded change in a scratch worktree (never /repo):
#   seeded_confirm.sh <dir with patch.diff and demo/*.rs> <cargo package> <tests dir relative to repo>
# 1. demo passes on unchanged sources, 2. with the patch the package's existing tests pass,
# 3. with the patch the demo fails.  Prints CONFIRMED / REJECTED.
set -u
D=$1; PKG=$2; TDIR=$3
W=${SEED_WORKTREE:-/tmp/mut/repo}
export CARGO_NET_OFFLINE=true CARGO_TARGET_DIR=${SEED_TARGET:-/tmp/mut/seedtarget}
[ -d "$W" ] || git -C /repo worktree add --detach "$W" HEAD >/dev/null 2>&1
git -C "$W" checkout -q --detach "$(git -C /repo rev-parse HEAD)" && git -C "$W" checkout -- . && git -C "$W" clean -fdq
names=()
for f in "$D"/demo/*.rs; do n=$(basename "$f" .rs); names+=("$n"); mkdir -p "$W/$TDIR"; cp "$f" "$W/$TDIR/$n.rs"; done
ok=1
cd "$W"
for n in "${names[@]}"; do
  if cargo test -q -p "$PKG" --offline --test "$n" >/tmp/mut/seed_demo_clean.log 2>&1; then echo "demo $n passes on unchanged tree"; else echo "demo $n FAILS on unchanged tree"; ok=0; fi
done
git apply "$D/patch.diff" || { echo "patch does not apply"; ok=0; }
excl=(); for n in "${names[@]}"; do rm "$W/$TDIR/$n.rs"; done
if cargo test -q -p "$PKG" --offline ${SEED_TEST_ARGS:-} >/tmp/mut/seed_suite.log 2>&1; then echo "existing tests of $PKG pass with the change"; else echo "existing tests FAIL with the change"; tail -5 /tmp/mut/seed_suite.log; ok=0; fi
for f in "$D"/demo/*.rs; do n=$(basename "$f" .rs); mkdir -p "$W/$TDIR"; cp "$f" "$W/$TDIR/$n.rs"; done
for n in "${names[@]}"; do
  if cargo test -q -p "$PKG" --offline --test "$n" >/tmp/mut/seed_demo_patched.log 2>&1; then echo "demo $n still passes with the change"; ok=0; else echo "demo $n fails with the change"; fi
done
git checkout -- . && git clean -fdq
[ $ok = 1 ] && echo "CONFIRMED $D" || echo "REJECTED $D"
