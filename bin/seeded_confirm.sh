#!/bin/bash
# Confirm a seeded change in a scratch worktree (never /repo):
#   seeded_confirm.sh <dir with patch.diff and demo/*.rs> <cargo package> <dir for demo files, relative to repo>
# 1. demo passes on unchanged sources, 2. with the patch the package's existing tests pass,
# 3. with the patch the demo fails.  Prints CONFIRMED / REJECTED.
# env: SEED_TEST_ARGS   extra args for the existing-tests run (e.g. --lib)
#      SEED_FEATURES    e.g. "--features verif" for demos that use the hook feature
#      SEED_APPLY_DIFFS=1 apply demo/*.diff (e.g. a dev-dependency) although the demo is an integration test
#      SEED_FILTER      test-name filter for in-crate demos whose module name differs from the file name
#      SEED_INCRATE=1   demo is an in-crate #[cfg(test)] module: demo/include.diff is applied and the demo
#                       is run as `cargo test -p PKG --lib <module name>`
set -u
D=$1; PKG=$2; TDIR=$3
W=${SEED_WORKTREE:-/tmp/mut/repo}
F=${SEED_FEATURES:-}
export CARGO_NET_OFFLINE=true CARGO_TARGET_DIR=${SEED_TARGET:-/tmp/mut/seedtarget}
mkdir -p /tmp/mut
[ -d "$W" ] || git -C /repo worktree add --detach "$W" HEAD >/dev/null 2>&1
git -C "$W" checkout -q --detach "$(git -C /repo rev-parse HEAD)" && git -C "$W" checkout -- . && git -C "$W" clean -fdq
names=()
for f in "$D"/demo/*.rs; do names+=("$(basename "$f" .rs)"); done
put_demo() {
  mkdir -p "$W/$TDIR"
  for f in "$D"/demo/*.rs; do cp "$f" "$W/$TDIR/"; done
  if [ "${SEED_INCRATE:-0}" = 1 ] || [ "${SEED_APPLY_DIFFS:-0}" = 1 ]; then for i in "$D"/demo/*.diff; do git -C "$W" apply "$i" || echo "include diff does not apply"; done; fi
}
drop_demo() {
  for n in "${names[@]}"; do rm -f "$W/$TDIR/$n.rs"; done
  if [ "${SEED_INCRATE:-0}" = 1 ] || [ "${SEED_APPLY_DIFFS:-0}" = 1 ]; then for i in "$D"/demo/*.diff; do git -C "$W" apply -R "$i"; done; fi
}
run_demo() { # $1 = name
  if [ "${SEED_INCRATE:-0}" = 1 ]; then cargo test -q -p "$PKG" --lib --offline $F "${SEED_FILTER:-$1}"; else cargo test -q -p "$PKG" --offline $F --test "$1"; fi
}
ok=1
cd "$W"
put_demo
for n in "${names[@]}"; do
  if run_demo "$n" >/tmp/mut/seed_demo_clean.log 2>&1 && grep -q "test result: ok. [1-9]" /tmp/mut/seed_demo_clean.log; then echo "demo $n passes on unchanged tree"; else echo "demo $n FAILS on unchanged tree"; tail -5 /tmp/mut/seed_demo_clean.log; ok=0; fi
done
drop_demo
git apply "$D/patch.diff" || { echo "patch does not apply"; ok=0; }
if cargo test -q -p "$PKG" --offline ${SEED_TEST_ARGS:-} >/tmp/mut/seed_suite.log 2>&1; then echo "existing tests of $PKG pass with the change"; else echo "existing tests FAIL with the change"; tail -5 /tmp/mut/seed_suite.log; ok=0; fi
put_demo
for n in "${names[@]}"; do
  if run_demo "$n" >/tmp/mut/seed_demo_patched.log 2>&1; then echo "demo $n still passes with the change"; ok=0; else
    if grep -q "test result: FAILED" /tmp/mut/seed_demo_patched.log; then echo "demo $n fails with the change"; else echo "demo $n did not run with the change"; tail -5 /tmp/mut/seed_demo_patched.log; ok=0; fi; fi
done
git checkout -- . && git clean -fdq
[ $ok = 1 ] && echo "CONFIRMED $D" || echo "REJECTED $D"
