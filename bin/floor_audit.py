#!/usr/bin/env python3
"""Runs every check's quick tier for several seeds (binary must be built) into a scratch root and reports the
generator floors whose observed class count comes within a factor of the floor (default 1.6)."""
import json, os, subprocess, sys, shutil
seeds = [int(x) for x in (sys.argv[1] if len(sys.argv) > 1 else "0 1 2 3 4 5 6 7 8 9 10 11").split()]
factor = float(sys.argv[2]) if len(sys.argv) > 2 else 1.6
only = sys.argv[3].split() if len(sys.argv) > 3 else None
root = "/tmp/flooraudit"
shutil.rmtree(root, ignore_errors=True); os.makedirs(root)
shutil.copy("/verif/known_findings.json", root)
ids = [c["property_id"] for c in json.load(open("/verif/MANIFEST.json"))["checks"]]
worst = {}
for i in ids:
    if only and i not in only: continue
    for s in seeds:
        r = subprocess.run(f"VERIF_ROOT={root} VERIF_SEED={s} /verif/target/release/vcheck {i} quick", shell=True, capture_output=True, text=True)
        if r.returncode != 0:
            print(f"{i} seed {s}: exit {r.returncode}: {[l for l in (r.stdout+r.stderr).splitlines() if 'INCONCLUSIVE' in l or 'VIOLATION' in l][:2]}")
        try: e = json.load(open(f"{root}/evidence/{i}.json"))
        except Exception: continue
        for f in e["coverage"].get("generator_floors", []):
            k = (i, f["class"], f["floor"])
            worst[k] = min(worst.get(k, 10**18), f["count"])
for (i, c, fl), got in sorted(worst.items()):
    if fl > 0 and got < factor * fl:
        print(f"TIGHT {i} {c}: floor {fl}, min count over seeds {got} (ratio {got/fl:.2f})")
print("floors audited:", len(worst))
