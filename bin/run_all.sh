#!/bin/bash
# usage: bin/run_all.sh [tier] [seed...]   — runs every check registered in MANIFEST.json
tier=${1:-quick}; shift
seeds=${@:-0}
cd /verif
ids=$(python3 -c "import json;print(' '.join(c['property_id'] for c in json.load(open('MANIFEST.json'))['checks']))")
for seed in $seeds; do
  for id in $ids; do
    s=$(date +%s.%N)
    out=$(VERIF_SEED=$seed bin/check $id $tier 2>/dev/null | grep -v '^KNOWN-FINDING' | tail -1)
    rc=${PIPESTATUS[0]}
    e=$(date +%s.%N)
    printf "%s seed=%s %5.1fs %s\n" "$id" "$seed" "$(echo "$e - $s" | bc)" "$out"
  done
done
