#!/bin/bash
# usage: bin/seeds.sh "<seeds>" [ids...]  — runs vcheck directly (no rebuild) and prints one line per non-OK run
seeds=$1; shift
ids=${@:-$(python3 -c "import json;print(' '.join(c['property_id'] for c in json.load(open('/verif/MANIFEST.json'))['checks']))")}
bad=0
for id in $ids; do
  for seed in $seeds; do
    out=$(VERIF_SEED=$seed /verif/target/release/vcheck $id quick 2>&1 | grep -v '^KNOWN-FINDING\|^proptest:' )
    rc=$?
    last=$(echo "$out" | grep -E '^(OK|VIOLATION|INCONCLUSIVE)' | head -1)
    case "$last" in OK*) ;; *) bad=$((bad+1)); echo "$id seed=$seed: $(echo "$out" | grep -E 'FAIL|VIOLATION|INCONCLUSIVE' | head -2 | cut -c1-260)";; esac
  done
done
echo "non-OK runs: $bad"
