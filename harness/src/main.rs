//! vcheck <ID> [quick|thorough] [--replay FILE]
#![allow(clippy::too_many_arguments, clippy::type_complexity, dead_code, unused_imports, unused_variables, unused_macros)]

mod engine;
mod vmarket;
mod gens;
mod mgen;
mod props;
mod refmath;
mod svm;
mod world1;
mod world2;
mod world2x;
mod world2n;

use engine::{Ctx, Tier};

fn main() {
    let args: Vec<String> = std::env::args().skip(1).collect();
    if args.is_empty() {
        eprintln!("usage: vcheck <ID> [quick|thorough] [--replay FILE]");
        std::process::exit(64);
    }
    let id_arg = args[0].clone();
    let mut tier = match std::env::var("VERIF_TIER").ok().as_deref() {
        Some("thorough") => Tier::Thorough,
        _ => Tier::Quick,
    };
    let mut replay = None;
    let mut i = 1;
    while i < args.len() {
        match args[i].as_str() {
            "quick" | "--quick" => tier = Tier::Quick,
            "thorough" | "--thorough" => tier = Tier::Thorough,
            "--tier" => {
                i += 1;
                tier = if args.get(i).map(|s| s.as_str()) == Some("thorough") { Tier::Thorough } else { Tier::Quick };
            }
            "--replay" => {
                i += 1;
                replay = args.get(i).map(std::path::PathBuf::from);
            }
            other => {
                eprintln!("unknown argument {other}");
                std::process::exit(64);
            }
        }
        i += 1;
    }
    let seed: u64 = std::env::var("VERIF_SEED")
        .ok()
        .and_then(|s| s.trim().parse::<i128>().ok())
        .map(|v| v as u64)
        .unwrap_or(0);
    // Silence panic backtraces from code under test; panics are converted into check results.
    if std::env::var("VERIF_SHOW_PANICS").is_err() {
        std::panic::set_hook(Box::new(|_| {}));
    }
    let Some((id, run)) = props::REGISTRY.iter().find(|(id, _)| *id == id_arg) else {
        eprintln!("unknown property {id_arg}");
        std::process::exit(64);
    };
    engine::capture_stdout();
    let mut ctx = Ctx::new(id, tier, seed, replay);
    run(&mut ctx);
    std::process::exit(ctx.finish());
}
