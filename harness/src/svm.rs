//! svm-lite: an in-process runtime that executes the real program entrypoints of /repo.
//!
//! Not the Solana runtime: no compute limits, no stack-depth limits, signatures are flags. It does
//! emulate transaction revert (state is committed only on `Ok`), CPI privilege rules (signer must be
//! a caller signer or a PDA of the caller, no writable escalation), lamport conservation, read-only
//! account immutability and "only the owner may change data".

use std::{
    cell::RefCell,
    collections::BTreeMap,
    rc::Rc,
    sync::Once,
};

use anchor_lang::solana_program::{
    self,
    account_info::AccountInfo,
    clock::Clock,
    entrypoint::ProgramResult,
    instruction::{AccountMeta, Instruction},
    program_error::ProgramError,
    program_stubs::{set_syscall_stubs, SyscallStubs},
    pubkey::Pubkey,
    rent::Rent,
    system_program,
};

#[derive(Clone, Debug, Default, PartialEq, Eq)]
pub struct Acct {
    pub lamports: u64,
    pub data: Vec<u8>,
    pub owner: Pubkey,
    pub executable: bool,
}

#[derive(Clone, Copy, Debug)]
pub struct Sysvars {
    pub slot: u64,
    pub unix_timestamp: i64,
    pub last_restart_slot: u64,
}

impl Default for Sysvars {
    fn default() -> Self {
        Sysvars {
            slot: 1000,
            unix_timestamp: 1_700_000_000,
            last_restart_slot: 0,
        }
    }
}

/// A CPI observed by the harness-defined probe program.
#[derive(Clone, Debug, PartialEq, Eq)]
pub struct ProbeCall {
    pub program_id: Pubkey,
    pub metas: Vec<(Pubkey, bool, bool)>,
    pub data: Vec<u8>,
}

pub type Processor = fn(&Pubkey, &[AccountInfo<'static>], &[u8]) -> ProgramResult;

thread_local! {
    static STACK: RefCell<Vec<Pubkey>> = const { RefCell::new(vec![]) };
    static SYSVARS: RefCell<Sysvars> = RefCell::new(Sysvars::default());
    static LOGS: RefCell<Vec<String>> = const { RefCell::new(vec![]) };
    static EVENTS: RefCell<Vec<(Pubkey, Vec<u8>)>> = const { RefCell::new(vec![]) };
    static RETURN_DATA: RefCell<Option<(Pubkey, Vec<u8>)>> = const { RefCell::new(None) };
    static PROBE: RefCell<Vec<ProbeCall>> = const { RefCell::new(vec![]) };
    static EXTRA: RefCell<BTreeMap<Pubkey, Processor>> = RefCell::new(BTreeMap::new());
    static KEEP_LOGS: RefCell<bool> = const { RefCell::new(false) };
    static BASELINES: RefCell<Vec<BTreeMap<Pubkey, Acct>>> = const { RefCell::new(vec![]) };
}

/// "Only the owner may change data / spend lamports", relative to a baseline that already contains
/// the effects of completed inner invocations.
fn verify_owner_rule(
    program: &Pubkey,
    baseline: &BTreeMap<Pubkey, Acct>,
    current: &BTreeMap<Pubkey, Acct>,
) -> ProgramResult {
    for (k, a) in current {
        let Some(b) = baseline.get(k) else { continue };
        if a.data != b.data && b.owner != *program && !(b.owner == system_program::ID && b.data.is_empty()) {
            return Err(ProgramError::Custom(0xdead_0003)); // data modified by non-owner
        }
        if a.lamports < b.lamports && b.owner != *program {
            return Err(ProgramError::Custom(0xdead_0004)); // lamports spent by non-owner
        }
        if a.owner != b.owner && b.owner != *program {
            return Err(ProgramError::Custom(0xdead_0007)); // owner changed by non-owner
        }
    }
    Ok(())
}

pub fn set_sysvars(s: Sysvars) {
    SYSVARS.with(|c| *c.borrow_mut() = s);
}
pub fn sysvars() -> Sysvars {
    SYSVARS.with(|c| *c.borrow())
}
pub fn keep_logs(b: bool) {
    KEEP_LOGS.with(|c| *c.borrow_mut() = b);
}
pub fn take_logs() -> Vec<String> {
    LOGS.with(|l| std::mem::take(&mut *l.borrow_mut()))
}
pub fn take_events() -> Vec<(Pubkey, Vec<u8>)> {
    EVENTS.with(|l| std::mem::take(&mut *l.borrow_mut()))
}
pub fn take_probe_calls() -> Vec<ProbeCall> {
    PROBE.with(|l| std::mem::take(&mut *l.borrow_mut()))
}
pub fn register_processor(id: Pubkey, p: Processor) {
    EXTRA.with(|e| {
        e.borrow_mut().insert(id, p);
    });
}

/// The probe program id (records whatever invokes it).
pub fn probe_program_id() -> Pubkey {
    key_of("svm-lite-probe-program")
}

/// Deterministic key derivation (no global counters).
pub fn key_of(label: &str) -> Pubkey {
    let h = solana_program::hash::hashv(&[b"svm-lite-key", label.as_bytes()]);
    Pubkey::new_from_array(h.to_bytes())
}

pub const ANCHOR_EVENT_IX_TAG_LE: [u8; 8] = [0xe4, 0x45, 0xa5, 0x2e, 0x51, 0xcb, 0x9a, 0x1d];

const PAD: usize = 10240;
const HDR: usize = 88;

struct Block {
    key: Pubkey,
    buf: Vec<u128>,
    signer: bool,
    writable: bool,
}

fn build_blocks(accts: &BTreeMap<Pubkey, Acct>, metas: &[AccountMeta]) -> Vec<Block> {
    let mut out: Vec<Block> = vec![];
    for m in metas {
        if out.iter().any(|b| b.key == m.pubkey) {
            continue;
        }
        let a = accts.get(&m.pubkey).cloned().unwrap_or_else(|| Acct {
            owner: system_program::ID,
            ..Default::default()
        });
        let s = metas.iter().any(|x| x.pubkey == m.pubkey && x.is_signer);
        let w = metas.iter().any(|x| x.pubkey == m.pubkey && x.is_writable);
        let total = HDR + a.data.len() + PAD + 16;
        let mut v = vec![0u128; total.div_ceil(16)];
        let p = v.as_mut_ptr() as *mut u8;
        // SAFETY: the buffer is large enough for header + data + padding and is 16-byte aligned.
        unsafe {
            *p = 0xff;
            *p.add(1) = s as u8;
            *p.add(2) = w as u8;
            *p.add(3) = a.executable as u8;
            *(p.add(4) as *mut u32) = a.data.len() as u32;
            std::ptr::copy_nonoverlapping(m.pubkey.as_ref().as_ptr(), p.add(8), 32);
            std::ptr::copy_nonoverlapping(a.owner.as_ref().as_ptr(), p.add(40), 32);
            *(p.add(72) as *mut u64) = a.lamports;
            *(p.add(80) as *mut u64) = a.data.len() as u64;
            std::ptr::copy_nonoverlapping(a.data.as_ptr(), p.add(HDR), a.data.len());
        }
        out.push(Block {
            key: m.pubkey,
            buf: v,
            signer: s,
            writable: w,
        });
    }
    out
}

fn infos_of(blocks: &mut [Block], metas: &[AccountMeta]) -> Vec<AccountInfo<'static>> {
    let mut uniq: Vec<AccountInfo<'static>> = vec![];
    for b in blocks.iter_mut() {
        let p = b.buf.as_mut_ptr() as *mut u8;
        // SAFETY: pointers stay valid while `blocks` is alive; callers drop the infos before the blocks.
        unsafe {
            let key: &'static Pubkey = &*(p.add(8) as *const Pubkey);
            let owner: &'static Pubkey = &*(p.add(40) as *const Pubkey);
            let lamports: &'static mut u64 = &mut *(p.add(72) as *mut u64);
            let len = *(p.add(80) as *const u64) as usize;
            let data: &'static mut [u8] = std::slice::from_raw_parts_mut(p.add(HDR), len);
            uniq.push(AccountInfo {
                key,
                lamports: Rc::new(RefCell::new(lamports)),
                data: Rc::new(RefCell::new(data)),
                owner,
                rent_epoch: 0,
                is_signer: b.signer,
                is_writable: b.writable,
                executable: *p.add(3) != 0,
            });
        }
    }
    metas
        .iter()
        .map(|m| uniq.iter().find(|i| *i.key == m.pubkey).unwrap().clone())
        .collect()
}

fn probe_processor(pid: &Pubkey, accounts: &[AccountInfo<'static>], data: &[u8]) -> ProgramResult {
    PROBE.with(|p| {
        p.borrow_mut().push(ProbeCall {
            program_id: *pid,
            metas: accounts
                .iter()
                .map(|a| (*a.key, a.is_signer, a.is_writable))
                .collect(),
            data: data.to_vec(),
        })
    });
    Ok(())
}

fn dispatch(pid: &Pubkey, accounts: &[AccountInfo<'static>], data: &[u8]) -> ProgramResult {
    // SAFETY: Anchor entrypoints want `&'info [AccountInfo<'info>]`; the slice outlives the call.
    let accounts: &'static [AccountInfo<'static>] = unsafe { std::mem::transmute(accounts) };
    if *pid == gmsol_store::ID {
        gmsol_store::entry(pid, accounts, data)
    } else if *pid == gmsol_treasury::ID {
        gmsol_treasury::entry(pid, accounts, data)
    } else if *pid == gmsol_timelock::ID {
        gmsol_timelock::entry(pid, accounts, data)
    } else if *pid == gmsol_competition::ID {
        gmsol_competition::entry(pid, accounts, data)
    } else if *pid == gmsol_liquidity_provider::ID {
        gmsol_liquidity_provider::entry(pid, accounts, data)
    } else if *pid == gmsol_callback::ID {
        gmsol_callback::entry(pid, accounts, data)
    } else if *pid == gmsol_mock_chainlink_verifier::ID {
        gmsol_mock_chainlink_verifier::entry(pid, accounts, data)
    } else if *pid == spl_token::ID {
        spl_token::processor::Processor::process(pid, accounts, data)
    } else if *pid == spl_token_2022::ID {
        spl_token_2022::processor::Processor::process(pid, accounts, data)
    } else if *pid == spl_associated_token_account::ID {
        spl_associated_token_account::processor::process_instruction(pid, accounts, data)
    } else if *pid == system_program::ID {
        system_processor(accounts, data)
    } else if *pid == probe_program_id() {
        probe_processor(pid, accounts, data)
    } else if let Some(p) = EXTRA.with(|e| e.borrow().get(pid).copied()) {
        p(pid, accounts, data)
    } else {
        Err(ProgramError::IncorrectProgramId)
    }
}

fn rd_u32(d: &[u8], o: usize) -> Option<u32> {
    Some(u32::from_le_bytes(d.get(o..o + 4)?.try_into().ok()?))
}
fn rd_u64(d: &[u8], o: usize) -> Option<u64> {
    Some(u64::from_le_bytes(d.get(o..o + 8)?.try_into().ok()?))
}
fn rd_key(d: &[u8], o: usize) -> Option<Pubkey> {
    Some(Pubkey::new_from_array(d.get(o..o + 32)?.try_into().ok()?))
}

/// Emulated system program (the subset Anchor / SPL emit): CreateAccount, Assign, Transfer, Allocate.
fn system_processor(infos: &[AccountInfo<'static>], data: &[u8]) -> ProgramResult {
    let tag = rd_u32(data, 0).ok_or(ProgramError::InvalidInstructionData)?;
    let acc = |i: usize| infos.get(i).ok_or(ProgramError::NotEnoughAccountKeys);
    match tag {
        0 => {
            let lamports = rd_u64(data, 4).ok_or(ProgramError::InvalidInstructionData)?;
            let space = rd_u64(data, 12).ok_or(ProgramError::InvalidInstructionData)?;
            let owner = rd_key(data, 20).ok_or(ProgramError::InvalidInstructionData)?;
            let (from, to) = (acc(0)?, acc(1)?);
            if !from.is_signer || !to.is_signer {
                return Err(ProgramError::MissingRequiredSignature);
            }
            if to.lamports() != 0 || !to.data_is_empty() || *to.owner != system_program::ID {
                return Err(ProgramError::AccountAlreadyInitialized);
            }
            if *from.owner != system_program::ID {
                return Err(ProgramError::InvalidAccountData);
            }
            let nf = from
                .lamports()
                .checked_sub(lamports)
                .ok_or(ProgramError::InsufficientFunds)?;
            **from.try_borrow_mut_lamports()? = nf;
            **to.try_borrow_mut_lamports()? += lamports;
            if space as usize > 10 * 1024 * 1024 {
                return Err(ProgramError::InvalidRealloc);
            }
            realloc_any(to, space as usize)?;
            to.assign(&owner);
            Ok(())
        }
        1 => {
            let owner = rd_key(data, 4).ok_or(ProgramError::InvalidInstructionData)?;
            let a = acc(0)?;
            if !a.is_signer {
                return Err(ProgramError::MissingRequiredSignature);
            }
            if *a.owner != system_program::ID {
                return Err(ProgramError::InvalidAccountData);
            }
            a.assign(&owner);
            Ok(())
        }
        2 => {
            let lamports = rd_u64(data, 4).ok_or(ProgramError::InvalidInstructionData)?;
            let (from, to) = (acc(0)?, acc(1)?);
            if !from.is_signer {
                return Err(ProgramError::MissingRequiredSignature);
            }
            if *from.owner != system_program::ID || !from.data_is_empty() {
                return Err(ProgramError::InvalidArgument);
            }
            let nf = from
                .lamports()
                .checked_sub(lamports)
                .ok_or(ProgramError::InsufficientFunds)?;
            if from.key == to.key {
                return Ok(());
            }
            **from.try_borrow_mut_lamports()? = nf;
            let nt = to.lamports().checked_add(lamports).ok_or(ProgramError::ArithmeticOverflow)?;
            **to.try_borrow_mut_lamports()? = nt;
            Ok(())
        }
        8 => {
            let space = rd_u64(data, 4).ok_or(ProgramError::InvalidInstructionData)?;
            let a = acc(0)?;
            if !a.is_signer {
                return Err(ProgramError::MissingRequiredSignature);
            }
            if *a.owner != system_program::ID || !a.data_is_empty() {
                return Err(ProgramError::AccountAlreadyInitialized);
            }
            realloc_any(a, space as usize)
        }
        _ => Err(ProgramError::InvalidInstructionData),
    }
}

/// Grow an account (system program is not bound by the 10 KiB CPI growth limit at top level; our
/// blocks have exactly 10 KiB of padding, so larger top-level allocations are handled by `Svm`).
fn realloc_any(info: &AccountInfo<'static>, new_len: usize) -> ProgramResult {
    info.realloc(new_len, true)
}

fn snapshot(infos: &[AccountInfo<'static>]) -> Result<BTreeMap<Pubkey, Acct>, ProgramError> {
    let mut tmp = BTreeMap::new();
    for i in infos {
        tmp.insert(
            *i.key,
            Acct {
                lamports: i.lamports(),
                data: i.try_borrow_data()?.to_vec(),
                owner: *i.owner,
                executable: i.executable,
            },
        );
    }
    Ok(tmp)
}

/// Execute one instruction against an account map; on `Ok` the changed accounts are written back.
fn run(accts: &mut BTreeMap<Pubkey, Acct>, ix: &Instruction) -> ProgramResult {
    // Large top-level system allocations (e.g. the oracle's price map) bypass the block padding.
    if ix.program_id == system_program::ID && STACK.with(|s| s.borrow().is_empty()) {
        if let (Some(0), Some(space)) = (rd_u32(&ix.data, 0), rd_u64(&ix.data, 12)) {
            if space as usize > PAD {
                return big_create_account(accts, ix);
            }
        }
    }
    let before: BTreeMap<Pubkey, Acct> = ix
        .accounts
        .iter()
        .map(|m| {
            (
                m.pubkey,
                accts.get(&m.pubkey).cloned().unwrap_or_else(|| Acct {
                    owner: system_program::ID,
                    ..Default::default()
                }),
            )
        })
        .collect();
    let mut blocks = build_blocks(accts, &ix.accounts);
    let infos = infos_of(&mut blocks, &ix.accounts);
    STACK.with(|s| s.borrow_mut().push(ix.program_id));
    BASELINES.with(|b| b.borrow_mut().push(before.clone()));
    let res = dispatch(&ix.program_id, &infos, &ix.data);
    STACK.with(|s| s.borrow_mut().pop());
    let baseline = BASELINES.with(|b| b.borrow_mut().pop()).unwrap_or_default();
    let out = match res {
        Ok(()) => {
            let after = snapshot(&infos)?;
            // Runtime rules.
            let sum = |m: &BTreeMap<Pubkey, Acct>| m.values().map(|a| a.lamports as u128).sum::<u128>();
            if sum(&before) != sum(&after) {
                return Err(ProgramError::Custom(0xdead_0001)); // unbalanced instruction
            }
            for (k, a) in &after {
                let b = &before[k];
                let writable = ix.accounts.iter().any(|m| m.pubkey == *k && m.is_writable);
                if !writable && a != b {
                    return Err(ProgramError::Custom(0xdead_0002)); // read-only account modified
                }
            }
            verify_owner_rule(&ix.program_id, &baseline, &after)?;
            for (k, a) in after {
                accts.insert(k, a);
            }
            Ok(())
        }
        Err(e) => Err(e),
    };
    drop(infos);
    drop(blocks);
    out
}

fn big_create_account(accts: &mut BTreeMap<Pubkey, Acct>, ix: &Instruction) -> ProgramResult {
    let lamports = rd_u64(&ix.data, 4).ok_or(ProgramError::InvalidInstructionData)?;
    let space = rd_u64(&ix.data, 12).ok_or(ProgramError::InvalidInstructionData)? as usize;
    let owner = rd_key(&ix.data, 20).ok_or(ProgramError::InvalidInstructionData)?;
    let (from, to) = (
        ix.accounts.first().ok_or(ProgramError::NotEnoughAccountKeys)?,
        ix.accounts.get(1).ok_or(ProgramError::NotEnoughAccountKeys)?,
    );
    if !from.is_signer || !to.is_signer {
        return Err(ProgramError::MissingRequiredSignature);
    }
    if accts.get(&to.pubkey).map(|a| a.lamports != 0 || !a.data.is_empty()).unwrap_or(false) {
        return Err(ProgramError::AccountAlreadyInitialized);
    }
    let f = accts.get_mut(&from.pubkey).ok_or(ProgramError::InsufficientFunds)?;
    f.lamports = f.lamports.checked_sub(lamports).ok_or(ProgramError::InsufficientFunds)?;
    accts.insert(
        to.pubkey,
        Acct {
            lamports,
            data: vec![0; space],
            owner,
            executable: false,
        },
    );
    Ok(())
}

struct Stubs;

impl SyscallStubs for Stubs {
    fn sol_log(&self, m: &str) {
        if KEEP_LOGS.with(|k| *k.borrow()) {
            LOGS.with(|l| l.borrow_mut().push(m.to_string()));
        }
    }
    fn sol_log_compute_units(&self) {}
    fn sol_remaining_compute_units(&self) -> u64 {
        1_400_000
    }
    fn sol_log_data(&self, fields: &[&[u8]]) {
        if KEEP_LOGS.with(|k| *k.borrow()) {
            LOGS.with(|l| l.borrow_mut().push(format!("data: {} fields", fields.len())));
        }
        let pid = STACK.with(|s| s.borrow().last().copied()).unwrap_or_default();
        for f in fields {
            EVENTS.with(|e| e.borrow_mut().push((pid, f.to_vec())));
        }
    }
    fn sol_get_clock_sysvar(&self, var_addr: *mut u8) -> u64 {
        let s = sysvars();
        let clock = Clock {
            slot: s.slot,
            epoch_start_timestamp: 0,
            epoch: 0,
            leader_schedule_epoch: 0,
            unix_timestamp: s.unix_timestamp,
        };
        // SAFETY: the caller passes a pointer to a Clock.
        unsafe { std::ptr::write_unaligned(var_addr as *mut Clock, clock) };
        0
    }
    fn sol_get_rent_sysvar(&self, var_addr: *mut u8) -> u64 {
        // SAFETY: the caller passes a pointer to a Rent.
        unsafe { std::ptr::write_unaligned(var_addr as *mut Rent, Rent::default()) };
        0
    }
    fn sol_get_last_restart_slot(&self, var_addr: *mut u8) -> u64 {
        let s = sysvars();
        // SAFETY: the caller passes a pointer to a LastRestartSlot.
        unsafe {
            std::ptr::write_unaligned(
                var_addr as *mut solana_program::last_restart_slot::LastRestartSlot,
                solana_program::last_restart_slot::LastRestartSlot {
                    last_restart_slot: s.last_restart_slot,
                },
            )
        };
        0
    }
    fn sol_get_stack_height(&self) -> u64 {
        STACK.with(|s| s.borrow().len() as u64)
    }
    fn sol_set_return_data(&self, data: &[u8]) {
        let pid = STACK.with(|s| s.borrow().last().copied()).unwrap_or_default();
        RETURN_DATA.with(|r| *r.borrow_mut() = Some((pid, data.to_vec())));
    }
    fn sol_get_return_data(&self) -> Option<(Pubkey, Vec<u8>)> {
        RETURN_DATA.with(|r| r.borrow().clone())
    }
    fn sol_invoke_signed(
        &self,
        ix: &Instruction,
        infos: &[AccountInfo],
        seeds: &[&[&[u8]]],
    ) -> ProgramResult {
        // SAFETY: lifetimes are erased; all infos point into blocks that outlive this call.
        let infos: &[AccountInfo<'static>] = unsafe { std::mem::transmute(infos) };
        let caller = STACK.with(|s| s.borrow().last().copied()).ok_or(ProgramError::InvalidArgument)?;
        if STACK.with(|s| s.borrow().len()) >= 5 {
            return Err(ProgramError::Custom(0xdead_0005)); // call depth
        }
        let pdas: Vec<Pubkey> = seeds
            .iter()
            .filter_map(|s| Pubkey::create_program_address(s, &caller).ok())
            .collect();
        let mut metas = ix.accounts.clone();
        for m in metas.iter_mut() {
            let info = infos
                .iter()
                .find(|i| *i.key == m.pubkey)
                .ok_or(ProgramError::NotEnoughAccountKeys)?;
            if m.is_signer && !(info.is_signer || pdas.contains(&m.pubkey)) {
                return Err(ProgramError::MissingRequiredSignature);
            }
            if m.is_writable && !info.is_writable {
                return Err(ProgramError::Custom(0xdead_0006)); // writable privilege escalation
            }
        }
        // Anchor `emit_cpi!` self-invocations carry the event payload.
        if ix.program_id == caller && ix.data.len() >= 8 && ix.data[..8] == ANCHOR_EVENT_IX_TAG_LE {
            EVENTS.with(|e| e.borrow_mut().push((caller, ix.data[8..].to_vec())));
        }
        let mut tmp = snapshot(infos)?;
        BASELINES.with(|b| match b.borrow().last() {
            Some(base) => verify_owner_rule(&caller, base, &tmp),
            None => Ok(()),
        })?;
        let sub = Instruction {
            program_id: ix.program_id,
            accounts: metas,
            data: ix.data.clone(),
        };
        run(&mut tmp, &sub)?;
        BASELINES.with(|b| {
            if let Some(base) = b.borrow_mut().last_mut() {
                for m in &ix.accounts {
                    if let Some(a) = tmp.get(&m.pubkey) {
                        base.insert(m.pubkey, a.clone());
                    }
                }
            }
        });
        for m in &ix.accounts {
            let i = infos.iter().find(|i| *i.key == m.pubkey).unwrap();
            let a = &tmp[&m.pubkey];
            if i.lamports() != a.lamports {
                **i.try_borrow_mut_lamports()? = a.lamports;
            }
            if i.data_len() != a.data.len() {
                i.realloc(a.data.len(), false)?;
            }
            if **i.try_borrow_data()? != a.data[..] {
                i.try_borrow_mut_data()?.copy_from_slice(&a.data);
            }
            if *i.owner != a.owner {
                i.assign(&a.owner);
            }
        }
        Ok(())
    }
}

static INIT: Once = Once::new();

/// Install the syscall stubs (idempotent, process-wide; state is thread-local).
pub fn init() {
    INIT.call_once(|| {
        set_syscall_stubs(Box::new(Stubs));
    });
}

/// The world: an account map plus helpers.
#[derive(Clone, Default)]
pub struct Svm {
    pub accounts: BTreeMap<Pubkey, Acct>,
}

impl Svm {
    pub fn new() -> Self {
        init();
        STACK.with(|s| s.borrow_mut().clear());
        set_sysvars(Sysvars::default());
        take_events();
        take_logs();
        take_probe_calls();
        let mut accounts = BTreeMap::new();
        for pid in [
            system_program::ID,
            gmsol_store::ID,
            gmsol_treasury::ID,
            gmsol_timelock::ID,
            gmsol_competition::ID,
            gmsol_liquidity_provider::ID,
            gmsol_callback::ID,
            gmsol_mock_chainlink_verifier::ID,
            spl_token::ID,
            spl_token_2022::ID,
            spl_associated_token_account::ID,
            probe_program_id(),
        ] {
            accounts.insert(
                pid,
                Acct {
                    lamports: 1,
                    data: vec![],
                    owner: key_of("native-loader"),
                    executable: true,
                },
            );
        }
        Svm { accounts }
    }

    /// Add a system-owned wallet with lamports.
    pub fn fund(&mut self, key: Pubkey, lamports: u64) {
        self.accounts.insert(
            key,
            Acct {
                lamports,
                data: vec![],
                owner: system_program::ID,
                executable: false,
            },
        );
    }

    pub fn set_account(&mut self, key: Pubkey, acct: Acct) {
        self.accounts.insert(key, acct);
    }

    pub fn get(&self, key: &Pubkey) -> Option<&Acct> {
        self.accounts.get(key)
    }

    pub fn data(&self, key: &Pubkey) -> &[u8] {
        self.accounts.get(key).map(|a| a.data.as_slice()).unwrap_or(&[])
    }

    /// Execute one top-level instruction (a one-instruction transaction: all or nothing).
    pub fn process(&mut self, ix: &Instruction) -> ProgramResult {
        STACK.with(|s| s.borrow_mut().clear());
        BASELINES.with(|b| b.borrow_mut().clear());
        RETURN_DATA.with(|r| *r.borrow_mut() = None);
        let mut staged = self.accounts.clone();
        let r = no_unwind(|| run(&mut staged, ix));
        STACK.with(|s| s.borrow_mut().clear());
        match r {
            Ok(Ok(())) => {
                // garbage-collect closed accounts like the runtime does
                staged.retain(|_, a| a.lamports > 0 || a.executable);
                self.accounts = staged;
                Ok(())
            }
            Ok(Err(e)) => Err(e),
            Err(msg) => {
                LOGS.with(|l| l.borrow_mut().push(format!("PANIC: {msg}")));
                Err(ProgramError::Custom(0xdead_ffff))
            }
        }
    }

    /// Execute several instructions atomically (one transaction).
    pub fn process_tx(&mut self, ixs: &[Instruction]) -> ProgramResult {
        let saved = self.accounts.clone();
        for ix in ixs {
            if let Err(e) = self.process(ix) {
                self.accounts = saved;
                return Err(e);
            }
        }
        Ok(())
    }
}

fn no_unwind<R>(f: impl FnOnce() -> R) -> Result<R, String> {
    std::panic::catch_unwind(std::panic::AssertUnwindSafe(f)).map_err(|p| {
        if let Some(s) = p.downcast_ref::<&str>() {
            s.to_string()
        } else if let Some(s) = p.downcast_ref::<String>() {
            s.clone()
        } else {
            "non-string panic".to_string()
        }
    })
}

/// Was the error a panic inside a program (reported by `Svm::process`)?
pub fn is_panic(e: &ProgramError) -> bool {
    matches!(e, ProgramError::Custom(0xdead_ffff))
}

/// Read a zero-copy account (skipping the 8-byte discriminator) without alignment requirements.
pub fn read_zero_copy<T: bytemuck::Pod>(data: &[u8]) -> Option<T> {
    let sz = std::mem::size_of::<T>();
    let body = data.get(8..8 + sz)?;
    Some(bytemuck::pod_read_unaligned(body))
}
