//! Generators and interpreter for market histories on `VMarket<u128, 20>`.
//!
//! Units: USD values have 20 decimals. The long token has 9 decimals (unit price ~1e13 per base unit
//! at $100), the short token 6 decimals (unit price 1e14 per base unit at $1). Market tokens have 9
//! decimals (`value_to_amount_divisor = 1e11`).

use gmsol_model::{
    action::{
        decrease_position::{DecreasePositionFlags, DecreasePositionReport, DecreasePositionSwapType},
        deposit::DepositReport,
        increase_position::IncreasePositionReport,
        swap::SwapReport,
        withdraw::WithdrawReport,
    },
    params::{
        fee::{
            BorrowingFeeKinkModelParamsForOneSide, BorrowingFeeParams, FundingFeeParams,
            LiquidationFeeParams,
        },
        position::PositionImpactDistributionParams,
        FeeParams, PositionParams, PriceImpactParams,
    },
    price::{Price, Prices},
    BorrowingFeeMarketMutExt, LiquidityMarketMutExt, MarketAction, PerpMarketMutExt,
    PositionImpactMarketMutExt, PositionMutExt, SwapMarketMutExt,
};
use proptest::prelude::*;
use serde::{Deserialize, Serialize};

use crate::vmarket::{VConfig, VMarket, VPool, VPosition, VPositionOps};

pub const UNIT: u128 = 100_000_000_000_000_000_000;
pub const D: u8 = 20;
pub type M = VMarket<u128, 20>;
pub type Pos = VPosition<u128>;

/// Basis points of UNIT.
pub const fn bp(x: u128) -> u128 {
    UNIT / 10_000 * x
}

#[derive(Debug, Clone, Serialize, Deserialize)]
pub struct CfgSpec {
    pub swap_impact: (u128, u128, u128),
    pub swap_fee: (u128, u128, u128),
    pub min_position_size_usd: u128,
    pub min_collateral_value: u128,
    pub min_collateral_factor: u128,
    pub min_collateral_factor_for_liquidation: Option<u128>,
    pub max_positive_position_impact_factor: u128,
    pub max_negative_position_impact_factor: u128,
    pub max_position_impact_factor_for_liquidations: u128,
    pub position_impact: (u128, u128, u128),
    pub order_fee: (u128, u128, u128),
    pub distribution: (u128, u128),
    pub borrowing_receiver: u128,
    pub borrowing_factor: (u128, u128),
    pub borrowing_exponent: (u128, u128),
    pub skip_borrowing_for_smaller_side: bool,
    pub kink_long: (u128, u128, u128),
    pub kink_short: (u128, u128, u128),
    pub funding: FundingSpec,
    pub reserve_factor: u128,
    pub open_interest_reserve_factor: u128,
    pub max_pnl_deposit: u128,
    pub max_pnl_withdrawal: u128,
    pub max_pnl_trader: u128,
    pub max_pnl_adl: u128,
    pub min_pnl_after_adl: u128,
    pub max_pool_amount: (u128, u128),
    pub max_pool_value_for_deposit: (u128, u128),
    pub max_open_interest: (u128, u128),
    pub min_collateral_factor_for_oi: (u128, u128),
    pub ignore_oi_for_usage: bool,
    pub liquidation_fee: (u128, u128),
    pub vi_swaps: Option<(u128, u128)>,
    pub vi_positions: Option<(u128, u128)>,
}

#[derive(Debug, Clone, Serialize, Deserialize)]
pub struct FundingSpec {
    pub exponent: u128,
    pub factor: u128,
    pub increase: u128,
    pub decrease: u128,
    pub max: u128,
    pub min: u128,
    pub threshold_stable: u128,
    pub threshold_decrease: u128,
}

impl Default for CfgSpec {
    fn default() -> Self {
        const YEAR: u128 = 365 * 24 * 3600;
        CfgSpec {
            swap_impact: (2 * UNIT, 400_000_000_000, 800_000_000_000),
            swap_fee: (bp(3700), bp(5), bp(7)),
            min_position_size_usd: UNIT,
            min_collateral_value: UNIT,
            min_collateral_factor: bp(100),
            min_collateral_factor_for_liquidation: Some(bp(50)),
            max_positive_position_impact_factor: bp(50),
            max_negative_position_impact_factor: bp(50),
            max_position_impact_factor_for_liquidations: bp(25),
            position_impact: (2 * UNIT, 100_000_000_000, 200_000_000_000),
            order_fee: (bp(3700), bp(5), bp(7)),
            distribution: (UNIT, 1_000_000_000),
            borrowing_receiver: bp(3700),
            borrowing_factor: (2_820_000_000_000, 2_820_000_000_000),
            borrowing_exponent: (UNIT, UNIT),
            skip_borrowing_for_smaller_side: true,
            kink_long: (0, 0, 0),
            kink_short: (0, 0, 0),
            funding: FundingSpec {
                exponent: UNIT,
                factor: 2_000_000_000_000,
                increase: 790_000_000,
                decrease: 0,
                max: 1_000_000_000_000,
                min: 30_000_000_000,
                threshold_stable: bp(500),
                threshold_decrease: 0,
            },
            reserve_factor: UNIT,
            open_interest_reserve_factor: UNIT,
            max_pnl_deposit: bp(6000),
            max_pnl_withdrawal: bp(3000),
            max_pnl_trader: bp(5000),
            max_pnl_adl: bp(5000),
            min_pnl_after_adl: 0,
            max_pool_amount: (1_000_000_000 * 1_000_000_000, 1_000_000_000_000 * 1_000_000),
            max_pool_value_for_deposit: (u128::MAX / 4, u128::MAX / 4),
            max_open_interest: (1_000_000_000 * UNIT, 1_000_000_000 * UNIT),
            min_collateral_factor_for_oi: (5 * 10u128.pow(17) / 83_000_000, 5 * 10u128.pow(17) / 83_000_000),
            ignore_oi_for_usage: false,
            liquidation_fee: (bp(20), bp(3700)),
            vi_swaps: None,
            vi_positions: None,
        }
        .with_kink(YEAR)
    }
}

impl CfgSpec {
    fn with_kink(mut self, year: u128) -> Self {
        let k = (bp(7500), bp(6000) / year, bp(15000) / year);
        self.kink_long = k;
        self.kink_short = k;
        self
    }

    pub fn build(&self) -> VConfig<u128> {
        let kink = |k: &(u128, u128, u128)| {
            BorrowingFeeKinkModelParamsForOneSide::builder()
                .optimal_usage_factor(k.0)
                .base_borrowing_factor(k.1)
                .above_optimal_usage_borrowing_factor(k.2)
                .build()
        };
        let fee = |f: &(u128, u128, u128)| {
            FeeParams::builder()
                .fee_receiver_factor(f.0)
                .positive_impact_fee_factor(f.1)
                .negative_impact_fee_factor(f.2)
                .build()
        };
        let impact = |p: &(u128, u128, u128)| {
            PriceImpactParams::builder()
                .exponent(p.0)
                .positive_factor(p.1)
                .negative_factor(p.2)
                .build()
        };
        let mut position_params = PositionParams::builder()
            .min_position_size_usd(self.min_position_size_usd)
            .min_collateral_value(self.min_collateral_value)
            .min_collateral_factor(self.min_collateral_factor)
            .max_positive_position_impact_factor(self.max_positive_position_impact_factor)
            .max_negative_position_impact_factor(self.max_negative_position_impact_factor)
            .max_position_impact_factor_for_liquidations(self.max_position_impact_factor_for_liquidations)
            .min_collateral_factor_for_liquidation(self.min_collateral_factor_for_liquidation)
            .build();
        let _ = &mut position_params;
        VConfig {
            swap_impact_params: impact(&self.swap_impact),
            swap_fee_params: fee(&self.swap_fee),
            position_params,
            position_impact_params: impact(&self.position_impact),
            order_fee_params: fee(&self.order_fee),
            position_impact_distribution_params: PositionImpactDistributionParams::builder()
                .distribute_factor(self.distribution.0)
                .min_position_impact_pool_amount(self.distribution.1)
                .build(),
            borrowing_fee_params: BorrowingFeeParams::builder()
                .receiver_factor(self.borrowing_receiver)
                .factor_for_long(self.borrowing_factor.0)
                .factor_for_short(self.borrowing_factor.1)
                .exponent_for_long(self.borrowing_exponent.0)
                .exponent_for_short(self.borrowing_exponent.1)
                .skip_borrowing_fee_for_smaller_side(self.skip_borrowing_for_smaller_side)
                .build(),
            borrowing_fee_kink_model_params: (kink(&self.kink_long), kink(&self.kink_short)),
            funding_fee_params: FundingFeeParams::builder()
                .exponent(self.funding.exponent)
                .funding_factor(self.funding.factor)
                .increase_factor_per_second(self.funding.increase)
                .decrease_factor_per_second(self.funding.decrease)
                .max_factor_per_second(self.funding.max)
                .min_factor_per_second(self.funding.min)
                .threshold_for_stable_funding(self.funding.threshold_stable)
                .threshold_for_decrease_funding(self.funding.threshold_decrease)
                .build(),
            reserve_factor: self.reserve_factor,
            open_interest_reserve_factor: self.open_interest_reserve_factor,
            max_pnl_factor_deposit: (self.max_pnl_deposit, self.max_pnl_deposit),
            max_pnl_factor_withdrawal: (self.max_pnl_withdrawal, self.max_pnl_withdrawal),
            max_pnl_factor_trader: (self.max_pnl_trader, self.max_pnl_trader),
            max_pnl_factor_adl: (self.max_pnl_adl, self.max_pnl_adl),
            min_pnl_factor_after_adl: (self.min_pnl_after_adl, self.min_pnl_after_adl),
            max_pool_amount: self.max_pool_amount,
            max_pool_value_for_deposit: self.max_pool_value_for_deposit,
            max_open_interest: self.max_open_interest,
            min_collateral_factor_for_oi: self.min_collateral_factor_for_oi,
            ignore_open_interest_for_usage_factor: self.ignore_oi_for_usage,
            liquidation_fee_params: LiquidationFeeParams::builder()
                .factor(self.liquidation_fee.0)
                .receiver_factor(self.liquidation_fee.1)
                .build(),
            value_to_amount_divisor: 10u128.pow(11),
            funding_amount_per_size_adjustment: 10u128.pow(10),
        }
    }

    pub fn market(&self) -> M {
        let mut m = M::new(self.build());
        m.vi_swaps = self.vi_swaps.map(|(l, s)| VPool { long_amount: l, short_amount: s });
        m.vi_positions = self.vi_positions.map(|(l, s)| VPool { long_amount: l, short_amount: s });
        m
    }
}

fn pick_of(choices: &'static [u128]) -> impl Strategy<Value = u128> {
    (0..choices.len()).prop_map(move |i| choices[i])
}

fn fee_strategy() -> impl Strategy<Value = (u128, u128, u128)> {
    (
        prop_oneof![Just(bp(3700)), Just(0u128), Just(UNIT), 0..=UNIT],
        prop_oneof![3 => Just(bp(5)), 1 => Just(0u128), 2 => 0..=bp(100), 1 => 0..=bp(2000)],
        prop_oneof![3 => Just(bp(7)), 1 => Just(0u128), 2 => 0..=bp(100), 1 => 0..=bp(2000)],
    )
}

fn impact_strategy(base_pos: u128, base_neg: u128) -> impl Strategy<Value = (u128, u128, u128)> {
    (
        prop_oneof![2 => Just(2 * UNIT), 2 => Just(UNIT), 1 => Just(3 * UNIT)],
        prop_oneof![3 => Just(base_pos), 1 => Just(0u128), 2 => 0..=base_neg * 4, 1 => Just(base_neg * 2)],
        prop_oneof![3 => Just(base_neg), 1 => Just(0u128), 2 => 0..=base_neg * 4],
    )
}

/// Market configuration strategy: the default GMX-like configuration with independently perturbed
/// groups (fees, impacts, caps, reserve/pnl factors, funding/borrowing modes, virtual inventories).
pub fn cfg_strategy() -> impl Strategy<Value = CfgSpec> {
    let a = (
        impact_strategy(400_000_000_000, 800_000_000_000),
        fee_strategy(),
        impact_strategy(100_000_000_000, 200_000_000_000),
        fee_strategy(),
        prop_oneof![2 => Just(bp(50)), 1 => Just(0u128), 1 => 0..=bp(300), 1 => Just(UNIT)],
        prop_oneof![2 => Just(bp(50)), 1 => Just(0u128), 1 => 0..=bp(300), 1 => Just(UNIT)],
        prop_oneof![Just(bp(25)), Just(0u128), 0..=bp(100)],
    );
    let b = (
        prop_oneof![3 => Just(UNIT), 1 => bp(1000)..=UNIT, 1 => Just(bp(2000))],
        prop_oneof![3 => Just(UNIT), 1 => bp(1000)..=UNIT, 1 => Just(bp(2000))],
        prop_oneof![Just(bp(6000)), Just(bp(100)), Just(UNIT), 0..=UNIT],
        prop_oneof![Just(bp(3000)), Just(bp(100)), Just(UNIT), 0..=UNIT],
        prop_oneof![Just(bp(5000)), Just(0u128), Just(bp(10)), 0..=UNIT],
        any::<bool>(),
        any::<bool>(),
        prop_oneof![3 => Just(None), 1 => (0u128..=10u128.pow(13), 0u128..=10u128.pow(12)).prop_map(Some)],
        prop_oneof![3 => Just(None), 1 => (0u128..=1_000_000 * UNIT, 0u128..=1_000_000 * UNIT).prop_map(Some)],
    );
    let c = (
        // funding
        prop_oneof![2 => Just(790_000_000u128), 2 => Just(0u128), 1 => 0u128..=10_000_000_000],
        prop_oneof![2 => Just(0u128), 1 => 0u128..=10_000_000_000],
        prop_oneof![Just(1_000_000_000_000u128), 0u128..=2_000_000_000_000],
        prop_oneof![Just(30_000_000_000u128), Just(0u128), 0u128..=1_000_000_000_000],
        prop_oneof![Just(bp(500)), Just(0u128), 0..=bp(5000)],
        prop_oneof![Just(0u128), 0..=bp(500)],
        prop_oneof![2 => Just(2_000_000_000_000u128), 1 => Just(0u128), 1 => 0u128..=200_000_000_000_000],
        // borrowing
        prop_oneof![2 => Just(2_820_000_000_000u128), 1 => Just(0u128), 1 => 0u128..=1_000_000_000_000_000],
        prop_oneof![Just(true), Just(false)],
        // kink model: off, typical optimum, arbitrary, and an optimum of exactly / above 100 % (no kink inside the usable range)
        prop_oneof![4 => Just(bp(7500)), 4 => Just(0u128), 2 => 0..=UNIT, 1 => Just(UNIT), 1 => (UNIT + 1)..=(2 * UNIT)],
    );
    let d = (
        prop_oneof![3 => Just((1_000_000_000u128 * 1_000_000_000, 1_000_000_000_000u128 * 1_000_000)),
                    1 => (10u128.pow(9)..=10u128.pow(13), 10u128.pow(6)..=10u128.pow(12))],
        prop_oneof![3 => Just(1_000_000_000 * UNIT), 1 => (100 * UNIT)..=(1_000_000 * UNIT)],
        prop_oneof![2 => Just(UNIT), 1 => Just(0u128), 1 => 0..=(100 * UNIT)],
        prop_oneof![2 => Just(UNIT), 1 => Just(0u128), 1 => 0..=(100 * UNIT)],
        prop_oneof![2 => Just(bp(100)), 1 => Just(bp(10)), 1 => 0..=bp(1000)],
        prop_oneof![2 => Just(Some(bp(50))), 1 => Just(None), 1 => (0..=bp(500)).prop_map(Some)],
        prop_oneof![2 => Just(bp(20)), 1 => Just(0u128), 1 => 0..=bp(500)],
        prop_oneof![2 => Just((UNIT, 1_000_000_000u128)), 1 => Just((0u128, 0u128)), 1 => (0..=10 * UNIT, 0u128..=10u128.pow(12))],
        prop_oneof![3 => Just(0u128), 1 => 0..=bp(4000)],
    );
    (a, b, c, d).prop_map(|(a, b, c, d)| {
        let mut s = CfgSpec::default();
        s.swap_impact = a.0;
        s.swap_fee = a.1;
        s.position_impact = a.2;
        s.order_fee = a.3;
        s.max_positive_position_impact_factor = a.4;
        s.max_negative_position_impact_factor = a.5;
        s.max_position_impact_factor_for_liquidations = a.6;
        s.reserve_factor = b.0;
        s.open_interest_reserve_factor = b.1;
        s.max_pnl_deposit = b.2;
        s.max_pnl_withdrawal = b.3;
        s.max_pnl_trader = b.4;
        s.max_pnl_adl = b.2.min(UNIT);
        s.ignore_oi_for_usage = b.5;
        let _ = b.6;
        s.vi_swaps = b.7;
        s.vi_positions = b.8;
        s.funding.increase = c.0;
        s.funding.decrease = c.1;
        s.funding.max = c.2;
        s.funding.min = c.3.min(c.2);
        s.funding.threshold_stable = c.4;
        s.funding.threshold_decrease = c.5.min(c.4);
        s.funding.factor = c.6;
        s.borrowing_factor = (c.7, c.7);
        s.skip_borrowing_for_smaller_side = c.8;
        if c.9 == 0 {
            s.kink_long.0 = 0;
            s.kink_short.0 = 0;
        } else {
            s.kink_long.0 = c.9;
            s.kink_short.0 = c.9;
        }
        s.max_pool_amount = d.0;
        s.max_open_interest = (d.1, d.1);
        s.min_position_size_usd = d.2;
        s.min_collateral_value = d.3;
        s.min_collateral_factor = d.4;
        s.min_collateral_factor_for_liquidation = d.5;
        s.liquidation_fee.0 = d.6;
        s.distribution = d.7;
        s.min_pnl_after_adl = d.8.min(s.max_pnl_adl);
        s
    })
}

#[derive(Debug, Clone, Copy, Serialize, Deserialize, PartialEq, Eq)]
pub struct PricesSpec {
    pub index: (u128, u128),
    pub long: (u128, u128),
    pub short: (u128, u128),
}

impl PricesSpec {
    pub fn to_prices(&self) -> Prices<u128> {
        Prices {
            index_token_price: Price { min: self.index.0, max: self.index.1 },
            long_token_price: Price { min: self.long.0, max: self.long.1 },
            short_token_price: Price { min: self.short.0, max: self.short.1 },
        }
    }
    pub fn flat(index: u128, long: u128, short: u128) -> Self {
        PricesSpec { index: (index, index), long: (long, long), short: (short, short) }
    }
}

fn spread(mid: u128, spread_bp: u128) -> (u128, u128) {
    let half = mid / 20_000 * spread_bp;
    ((mid - half).max(1), mid + half)
}

/// Prices: long token (9 decimals) $20..$500, short token (6 decimals) $0.98..$1.02, index = long
/// token (or an independent synthetic), spreads 0..1 %.
pub fn prices_strategy() -> impl Strategy<Value = PricesSpec> {
    (
        2_000_000_000_000u128..=50_000_000_000_000,
        98_000_000_000_000u128..=102_000_000_000_000,
        prop_oneof![3 => Just(0u128), 2 => 1u128..=100],
        prop_oneof![3 => Just(0u128), 2 => 1u128..=20],
        // synthetic index tokens: same magnitude as the pool tokens, or a much larger unit price (few-decimals
        // index such as BTC against a 6-decimals stable: one index unit is worth 10..1000 collateral units)
        prop_oneof![6 => Just(None), 2 => (1_000_000_000_000u128..=100_000_000_000_000).prop_map(Some), 1 => (1_000_000_000_000_000u128..=100_000_000_000_000_000).prop_map(Some)],
    )
        .prop_map(|(long_mid, short_mid, ls, ss, synthetic)| {
            let long = spread(long_mid, ls);
            let short = spread(short_mid, ss);
            let index = match synthetic {
                None => long,
                Some(mid) => spread(mid, ls),
            };
            PricesSpec { index, long, short }
        })
}

#[derive(Debug, Clone, Serialize, Deserialize)]
pub enum Op {
    Deposit { long: u128, short: u128 },
    /// Withdraw `bp`/10000 of the total supply.
    Withdraw { bp: u16 },
    Swap { long_in: bool, amount: u128 },
    Increase { pos: u8, collateral: u128, size_usd: u128 },
    Decrease { pos: u8, size_bp: u16, withdraw_bp: u16, cap: bool, swap: u8, insolvent_ok: bool },
    Liquidate { pos: u8 },
    /// Multiply index/long price by (10000 + bp)/10000 (bp in -3000..3000).
    MovePrice { bp: i16, index_only: bool },
    SetPrices(PricesSpec),
    Advance { secs: u32 },
    UpdateFees,
}

pub const NUM_POSITIONS: usize = 6;

fn amount_long() -> impl Strategy<Value = u128> {
    prop_oneof![4 => 1_000_000u128..=10u128.pow(12), 1 => 1u128..=1000, 1 => 10u128.pow(12)..=10u128.pow(14), 1 => Just(0u128)]
}
fn amount_short() -> impl Strategy<Value = u128> {
    prop_oneof![4 => 1_000u128..=10u128.pow(11), 1 => 1u128..=1000, 1 => 10u128.pow(11)..=10u128.pow(13), 1 => Just(0u128)]
}

pub fn op_strategy() -> impl Strategy<Value = Op> {
    prop_oneof![
        3 => (amount_long(), amount_short(), 0u8..3).prop_map(|(l, s, which)| match which {
            0 => Op::Deposit { long: l, short: 0 },
            1 => Op::Deposit { long: 0, short: s },
            _ => Op::Deposit { long: l, short: s },
        }),
        2 => prop_oneof![3 => 1u16..=3000, 1 => Just(10_000u16), 1 => 3000u16..=10_000].prop_map(|bp| Op::Withdraw { bp }),
        3 => (any::<bool>(), amount_long(), amount_short()).prop_map(|(long_in, l, s)| Op::Swap { long_in, amount: if long_in { l / 10 } else { s / 10 } }),
        5 => (0u8..NUM_POSITIONS as u8, amount_long(), amount_short(), 1u128..=100, any::<bool>()).prop_map(|(pos, l, s, lev, _)| {
            // size in USD derived from collateral and leverage below in the interpreter
            Op::Increase { pos, collateral: if (pos / 2) % 2 == 0 { l / 100 } else { s / 100 }, size_usd: lev }
        }),
        5 => (0u8..NUM_POSITIONS as u8, prop_oneof![3 => 1u16..=9999, 3 => Just(10_000u16), 1 => 10_001u16..=20_000, 1 => Just(0u16), 1 => 1u16..=3],
              prop_oneof![3 => Just(0u16), 1 => 1u16..=10_000], any::<bool>(), 0u8..3, any::<bool>())
            .prop_map(|(pos, size_bp, withdraw_bp, cap, swap, insolvent_ok)| Op::Decrease { pos, size_bp, withdraw_bp, cap, swap, insolvent_ok }),
        2 => (0u8..NUM_POSITIONS as u8).prop_map(|pos| Op::Liquidate { pos }),
        3 => (prop_oneof![3 => -500i16..=500, 1 => -3000i16..=3000], any::<bool>()).prop_map(|(bp, index_only)| Op::MovePrice { bp, index_only }),
        1 => prices_strategy().prop_map(Op::SetPrices),
        3 => prop_oneof![3 => 1u32..=3600, 2 => 3600u32..=86_400 * 7, 1 => Just(0u32)].prop_map(|secs| Op::Advance { secs }),
        1 => Just(Op::UpdateFees),
    ]
}

#[derive(Debug, Clone, Serialize, Deserialize)]
pub struct History {
    pub cfg: CfgSpec,
    pub prices: PricesSpec,
    /// Initial liquidity (long, short) deposited before the generated operations.
    pub seed_liquidity: (u128, u128),
    pub ops: Vec<Op>,
}

pub fn history_strategy(max_ops: usize) -> impl Strategy<Value = History> {
    (
        cfg_strategy(),
        prices_strategy(),
        prop_oneof![3 => (10u128.pow(11)..=10u128.pow(13), 10u128.pow(10)..=10u128.pow(12)), 1 => Just((0u128, 0u128)), 1 => (10u128.pow(11)..=10u128.pow(13), Just(0u128))],
        proptest::collection::vec(op_strategy(), 0..=max_ops),
    )
        .prop_map(|(cfg, prices, seed_liquidity, ops)| History { cfg, prices, seed_liquidity, ops })
}

pub type SReport = SwapReport<u128, i128>;
pub type DReport = DepositReport<u128, i128>;
pub type WReport = WithdrawReport<u128>;
pub type IReport = IncreasePositionReport<u128, i128>;
pub type DecReport = DecreasePositionReport<u128, i128>;

/// What an operation did.
pub enum Outcome {
    Deposit(Box<DReport>),
    Withdraw(Box<WReport>),
    Swap(Box<SReport>),
    Increase { pos: usize, report: Box<IReport> },
    Decrease { pos: usize, report: Box<DecReport>, liquidation: bool, before: Pos },
    /// Environment change (prices, clock, fee-state update).
    Env,
    /// The action returned an error; `raw` is the market right after the failed call and before the
    /// interpreter restored the pre-operation snapshot (the transaction revert).
    Failed { error: String, raw: Box<M>, raw_positions: Vec<Pos>, stage: &'static str },
    /// The operation was not applicable (e.g. decrease of an empty position).
    Skipped,
}

#[derive(Clone)]
pub struct World {
    pub market: M,
    pub positions: Vec<Pos>,
    pub prices: PricesSpec,
}

pub fn position_sides(i: usize) -> (bool, bool) {
    (i % 2 == 0, (i / 2) % 2 == 0)
}

impl World {
    pub fn new(cfg: &CfgSpec, prices: PricesSpec) -> Self {
        let positions = (0..NUM_POSITIONS)
            .map(|i| {
                let (is_long, coll_long) = position_sides(i);
                Pos::new(is_long, coll_long)
            })
            .collect();
        World { market: cfg.market(), positions, prices }
    }

    pub fn prices(&self) -> Prices<u128> {
        self.prices.to_prices()
    }

    /// What the program does before every deposit / withdrawal / order: distribute the position
    /// impact pool, update borrowing and funding state.
    pub fn update_fees_state(&mut self) -> Result<(), String> {
        let prices = self.prices();
        self.market.distribute_position_impact().map_err(|e| e.to_string())?.execute().map_err(|e| e.to_string())?;
        self.market.update_borrowing(&prices).map_err(|e| e.to_string())?.execute().map_err(|e| e.to_string())?;
        self.market.update_funding(&prices).map_err(|e| e.to_string())?.execute().map_err(|e| e.to_string())?;
        Ok(())
    }

    fn fail(&mut self, saved: World, error: String, stage: &'static str) -> Outcome {
        let raw = Box::new(self.market.clone());
        let raw_positions = self.positions.clone();
        *self = saved;
        Outcome::Failed { error, raw, raw_positions, stage }
    }

    /// Apply one operation. On error the world is restored to the snapshot taken before it.
    pub fn apply(&mut self, op: &Op) -> Outcome {
        let saved = self.clone();
        let prices = self.prices();
        match op {
            Op::Deposit { long, short } => {
                if let Err(e) = self.update_fees_state() {
                    return self.fail(saved, e, "pre");
                }
                let r = self.market.deposit(*long, *short, prices).and_then(|a| a.execute());
                match r {
                    Ok(r) => Outcome::Deposit(Box::new(r)),
                    Err(e) => self.fail(saved, e.to_string(), "action"),
                }
            }
            Op::Withdraw { bp } => {
                let amount = self.market.total_supply / 10_000 * (*bp as u128)
                    + self.market.total_supply % 10_000 * (*bp as u128) / 10_000;
                if let Err(e) = self.update_fees_state() {
                    return self.fail(saved, e, "pre");
                }
                let r = self.market.withdraw(amount, prices).and_then(|a| a.execute());
                match r {
                    Ok(r) => Outcome::Withdraw(Box::new(r)),
                    Err(e) => self.fail(saved, e.to_string(), "action"),
                }
            }
            Op::Swap { long_in, amount } => {
                let r = self.market.swap(*long_in, *amount, prices).and_then(|a| a.execute());
                match r {
                    Ok(r) => Outcome::Swap(Box::new(r)),
                    Err(e) => self.fail(saved, e.to_string(), "action"),
                }
            }
            Op::Increase { pos, collateral, size_usd } => {
                let i = *pos as usize % NUM_POSITIONS;
                if let Err(e) = self.update_fees_state() {
                    return self.fail(saved, e, "pre");
                }
                let (_, coll_long) = position_sides(i);
                let price = if coll_long { self.prices.long.0 } else { self.prices.short.0 };
                // `size_usd` carries the leverage (1..=100); size = collateral value * leverage.
                let size = collateral.saturating_mul(price).saturating_mul(*size_usd);
                let r = {
                    let mut ops = VPositionOps::new(&mut self.market, &mut self.positions[i]);
                    ops.increase(prices, *collateral, size, None).and_then(|a| a.execute())
                };
                match r {
                    Ok(r) => Outcome::Increase { pos: i, report: Box::new(r) },
                    Err(e) => self.fail(saved, e.to_string(), "action"),
                }
            }
            Op::Decrease { pos, size_bp, withdraw_bp, cap, swap, insolvent_ok } => {
                let i = *pos as usize % NUM_POSITIONS;
                let before = self.positions[i];
                if before.size_in_usd == 0 && before.collateral_token_amount == 0 {
                    return Outcome::Skipped;
                }
                if let Err(e) = self.update_fees_state() {
                    return self.fail(saved, e, "pre");
                }
                let size_delta = if *size_bp == 10_000 {
                    before.size_in_usd
                } else {
                    before.size_in_usd / 10_000 * (*size_bp as u128)
                };
                let withdraw = before.collateral_token_amount / 10_000 * (*withdraw_bp as u128);
                let flags = DecreasePositionFlags {
                    is_insolvent_close_allowed: *insolvent_ok,
                    is_liquidation_order: false,
                    is_cap_size_delta_usd_allowed: *cap,
                };
                let swap_ty = match swap % 3 {
                    0 => DecreasePositionSwapType::NoSwap,
                    1 => DecreasePositionSwapType::PnlTokenToCollateralToken,
                    _ => DecreasePositionSwapType::CollateralToPnlToken,
                };
                let r = {
                    let mut ops = VPositionOps::new(&mut self.market, &mut self.positions[i]);
                    ops.decrease(prices, size_delta, None, withdraw, flags)
                        .map(|a| a.set_swap(swap_ty))
                        .and_then(|a| a.execute())
                };
                match r {
                    Ok(r) => Outcome::Decrease { pos: i, report: r, liquidation: false, before },
                    Err(e) => self.fail(saved, e.to_string(), "action"),
                }
            }
            Op::Liquidate { pos } => {
                let i = *pos as usize % NUM_POSITIONS;
                let before = self.positions[i];
                if before.size_in_usd == 0 && before.collateral_token_amount == 0 {
                    return Outcome::Skipped;
                }
                if let Err(e) = self.update_fees_state() {
                    return self.fail(saved, e, "pre");
                }
                let flags = DecreasePositionFlags {
                    is_insolvent_close_allowed: true,
                    is_liquidation_order: true,
                    is_cap_size_delta_usd_allowed: false,
                };
                let r = {
                    let mut ops = VPositionOps::new(&mut self.market, &mut self.positions[i]);
                    ops.decrease(prices, before.size_in_usd, None, 0, flags).and_then(|a| a.execute())
                };
                match r {
                    Ok(r) => Outcome::Decrease { pos: i, report: r, liquidation: true, before },
                    Err(e) => self.fail(saved, e.to_string(), "action"),
                }
            }
            Op::MovePrice { bp, index_only } => {
                let mv = |p: (u128, u128)| -> (u128, u128) {
                    let f = (10_000i64 + *bp as i64) as u128;
                    ((p.0 / 10_000 * f).max(1), (p.1 / 10_000 * f).max(1))
                };
                if !*index_only && self.prices.index == self.prices.long {
                    self.prices.long = mv(self.prices.long);
                    self.prices.index = self.prices.long;
                } else {
                    self.prices.index = mv(self.prices.index);
                }
                Outcome::Env
            }
            Op::SetPrices(p) => {
                self.prices = *p;
                Outcome::Env
            }
            Op::Advance { secs } => {
                self.market.advance(*secs as u64);
                Outcome::Env
            }
            Op::UpdateFees => match self.update_fees_state() {
                Ok(()) => Outcome::Env,
                Err(e) => self.fail(saved, e, "pre"),
            },
        }
    }

    /// Start a history: seed liquidity, then return the world.
    pub fn start(h: &History) -> World {
        let mut w = World::new(&h.cfg, h.prices);
        if h.seed_liquidity != (0, 0) {
            let _ = w.apply(&Op::Deposit { long: h.seed_liquidity.0, short: h.seed_liquidity.1 });
        }
        w
    }
}
