//! Exact reference arithmetic on arbitrary-precision integers. Shares no code with gmsol-model.

use num_bigint::BigInt;
use num_traits::{One, Signed, ToPrimitive, Zero};

pub type B = BigInt;

pub fn b<T: Into<BigInt>>(x: T) -> BigInt {
    x.into()
}

pub fn pow10(n: u32) -> BigInt {
    BigInt::from(10u8).pow(n)
}

/// floor(a / d) for d > 0, any sign of a (mathematical floor).
pub fn floor_div(a: &BigInt, d: &BigInt) -> BigInt {
    assert!(d.is_positive());
    let (q, r) = (a / d, a % d);
    if r.is_negative() {
        q - 1
    } else {
        q
    }
}

/// ceil(a / d) for d > 0, any sign of a.
pub fn ceil_div(a: &BigInt, d: &BigInt) -> BigInt {
    assert!(d.is_positive());
    let (q, r) = (a / d, a % d);
    if r.is_positive() {
        q + 1
    } else {
        q
    }
}

/// Truncation toward zero.
pub fn trunc_div(a: &BigInt, d: &BigInt) -> BigInt {
    a / d
}

/// Round the magnitude up (away from zero).
pub fn away_div(a: &BigInt, d: &BigInt) -> BigInt {
    assert!(d.is_positive());
    if a.is_negative() {
        -ceil_div(&-a, d)
    } else {
        ceil_div(a, d)
    }
}

pub fn to_u64(x: &BigInt) -> Option<u64> {
    x.to_u64()
}
pub fn to_u128(x: &BigInt) -> Option<u128> {
    x.to_u128()
}
pub fn to_i64(x: &BigInt) -> Option<i64> {
    x.to_i64()
}
pub fn to_i128(x: &BigInt) -> Option<i128> {
    x.to_i128()
}

pub fn mul_div_floor(a: &BigInt, n: &BigInt, d: &BigInt) -> Option<BigInt> {
    if d.is_zero() {
        None
    } else {
        Some(floor_div(&(a * n), d))
    }
}

pub fn mul_div_ceil(a: &BigInt, n: &BigInt, d: &BigInt) -> Option<BigInt> {
    if d.is_zero() {
        None
    } else {
        Some(ceil_div(&(a * n), d))
    }
}

pub fn one() -> BigInt {
    BigInt::one()
}
pub fn zero() -> BigInt {
    BigInt::zero()
}

pub fn min(a: BigInt, b: BigInt) -> BigInt {
    if a <= b {
        a
    } else {
        b
    }
}
pub fn max(a: BigInt, b: BigInt) -> BigInt {
    if a >= b {
        a
    } else {
        b
    }
}
