//! Deterministic in-memory market implementing the gmsol-model traits (explicit integer clock,
//! optional virtual inventories, recorded callbacks). Used instead of the crate's `TestMarket`,
//! which reads `Instant::now()`.
#![allow(dead_code)]

use std::{
    collections::BTreeMap,
    fmt,
    ops::{Deref, DerefMut},
};

use gmsol_model::{
    action::{decrease_position::DecreasePositionSwapType, swap::SwapReport},
    fixed::FixedPointOps,
    num::{MulDiv, Num, Unsigned, UnsignedAbs},
    params::{
        fee::{
            BorrowingFeeKinkModelParams, BorrowingFeeKinkModelParamsForOneSide, BorrowingFeeParams,
            FundingFeeParams, LiquidationFeeParams,
        },
        position::PositionImpactDistributionParams,
        FeeParams, PositionParams, PriceImpactParams,
    },
    pool::{Balance, Delta, Pool},
    BaseMarket, BaseMarketMut, BorrowingFeeMarket, BorrowingFeeMarketMut, ClockKind,
    LiquidityMarket, LiquidityMarketMut, PerpMarket, PerpMarketMut, PnlFactorKind, Position,
    PositionImpactMarket, PositionImpactMarketMut, PositionMut, PositionState, PositionStateMut,
    SwapMarket, SwapMarketMut,
};
use num_traits::{CheckedSub, Signed};

/// Plain two-sided pool.
#[derive(Debug, Default, Clone, Copy, PartialEq, Eq)]
pub struct VPool<T> {
    pub long_amount: T,
    pub short_amount: T,
}

impl<T> Balance for VPool<T>
where
    T: MulDiv + Num + CheckedSub,
{
    type Num = T;
    type Signed = T::Signed;

    fn long_amount(&self) -> gmsol_model::Result<Self::Num> {
        Ok(self.long_amount.clone())
    }

    fn short_amount(&self) -> gmsol_model::Result<Self::Num> {
        Ok(self.short_amount.clone())
    }
}

impl<T> Pool for VPool<T>
where
    T: MulDiv + Num + CheckedSub,
{
    fn checked_apply_delta(&self, delta: Delta<&Self::Signed>) -> gmsol_model::Result<Self> {
        let mut ans = self.clone();
        if let Some(amount) = delta.long() {
            ans.apply_delta_to_long_amount(amount)?;
        }
        if let Some(amount) = delta.short() {
            ans.apply_delta_to_short_amount(amount)?;
        }
        Ok(ans)
    }

    fn apply_delta_to_long_amount(&mut self, delta: &Self::Signed) -> gmsol_model::Result<()> {
        if delta.is_positive() {
            self.long_amount = self
                .long_amount
                .checked_add(&delta.unsigned_abs())
                .ok_or(gmsol_model::Error::Overflow)?;
        } else {
            self.long_amount = self
                .long_amount
                .checked_sub(&delta.unsigned_abs())
                .ok_or(gmsol_model::Error::Computation("decreasing long amount"))?;
        }
        Ok(())
    }

    fn apply_delta_to_short_amount(&mut self, delta: &Self::Signed) -> gmsol_model::Result<()> {
        if delta.is_positive() {
            self.short_amount = self
                .short_amount
                .checked_add(&delta.unsigned_abs())
                .ok_or(gmsol_model::Error::Overflow)?;
        } else {
            self.short_amount = self
                .short_amount
                .checked_sub(&delta.unsigned_abs())
                .ok_or(gmsol_model::Error::Computation("decreasing short amount"))?;
        }
        Ok(())
    }
}

/// Market configuration (all fields public so generators can build it).
#[derive(Debug, Clone)]
pub struct VConfig<T> {
    pub swap_impact_params: PriceImpactParams<T>,
    pub swap_fee_params: FeeParams<T>,
    pub position_params: PositionParams<T>,
    pub position_impact_params: PriceImpactParams<T>,
    pub order_fee_params: FeeParams<T>,
    pub position_impact_distribution_params: PositionImpactDistributionParams<T>,
    pub borrowing_fee_params: BorrowingFeeParams<T>,
    pub borrowing_fee_kink_model_params: (
        BorrowingFeeKinkModelParamsForOneSide<T>,
        BorrowingFeeKinkModelParamsForOneSide<T>,
    ),
    pub funding_fee_params: FundingFeeParams<T>,
    pub reserve_factor: T,
    pub open_interest_reserve_factor: T,
    pub max_pnl_factor_deposit: (T, T),
    pub max_pnl_factor_withdrawal: (T, T),
    pub max_pnl_factor_trader: (T, T),
    pub max_pnl_factor_adl: (T, T),
    pub min_pnl_factor_after_adl: (T, T),
    pub max_pool_amount: (T, T),
    pub max_pool_value_for_deposit: (T, T),
    pub max_open_interest: (T, T),
    pub min_collateral_factor_for_oi: (T, T),
    pub ignore_open_interest_for_usage_factor: bool,
    pub liquidation_fee_params: LiquidationFeeParams<T>,
    pub value_to_amount_divisor: T,
    pub funding_amount_per_size_adjustment: T,
}

/// Recorded insufficient funding fee payment.
#[derive(Debug, Clone, PartialEq, Eq)]
pub struct Shortfall<T> {
    pub cost_amount: T,
    pub paid_in_collateral_amount: T,
    pub paid_in_secondary_output_amount: T,
    pub is_collateral_token_long: bool,
}

/// Deterministic market.
#[derive(Debug, Clone)]
pub struct VMarket<T: Unsigned, const DECIMALS: u8> {
    pub config: VConfig<T>,
    pub total_supply: T,
    pub primary: VPool<T>,
    pub swap_impact: VPool<T>,
    pub fee: VPool<T>,
    pub open_interest: (VPool<T>, VPool<T>),
    pub open_interest_in_tokens: (VPool<T>, VPool<T>),
    pub position_impact: VPool<T>,
    pub borrowing_factor: VPool<T>,
    pub funding_factor_per_second: T::Signed,
    pub funding_amount_per_size: (VPool<T>, VPool<T>),
    pub claimable_funding_amount_per_size: (VPool<T>, VPool<T>),
    pub collateral_sum: (VPool<T>, VPool<T>),
    pub total_borrowing: VPool<T>,
    pub vi_swaps: Option<VPool<T>>,
    pub vi_positions: Option<VPool<T>>,
    /// Current time in seconds.
    pub now: u64,
    pub clocks: BTreeMap<u8, u64>,
    pub shortfalls: Vec<Shortfall<T>>,
}

fn clock_id(kind: ClockKind) -> u8 {
    kind as u8
}

impl<T: Unsigned + Default, const DECIMALS: u8> VMarket<T, DECIMALS>
where
    T::Signed: Default,
{
    pub fn new(config: VConfig<T>) -> Self {
        Self {
            config,
            total_supply: Default::default(),
            primary: Default::default(),
            swap_impact: Default::default(),
            fee: Default::default(),
            open_interest: Default::default(),
            open_interest_in_tokens: Default::default(),
            position_impact: Default::default(),
            borrowing_factor: Default::default(),
            funding_factor_per_second: Default::default(),
            funding_amount_per_size: Default::default(),
            claimable_funding_amount_per_size: Default::default(),
            collateral_sum: Default::default(),
            total_borrowing: Default::default(),
            vi_swaps: None,
            vi_positions: None,
            now: 1_000_000,
            // like `Market::init`: the accrual clocks start at the creation time
            clocks: [ClockKind::PriceImpactDistribution, ClockKind::Borrowing, ClockKind::Funding]
                .into_iter()
                .map(|k| (clock_id(k), 1_000_000u64))
                .collect(),
            shortfalls: Vec::new(),
        }
    }
}

impl<T: Unsigned, const DECIMALS: u8> VMarket<T, DECIMALS> {
    pub fn advance(&mut self, secs: u64) {
        self.now = self.now.saturating_add(secs);
    }

    fn just_passed(&mut self, clock: ClockKind) -> u64 {
        let now = self.now;
        let c = self.clocks.entry(clock_id(clock)).or_insert(now);
        let d = now.saturating_sub(*c);
        *c = now;
        d
    }

    fn passed(&self, clock: ClockKind) -> u64 {
        let c = self.clocks.get(&clock_id(clock)).copied().unwrap_or(self.now);
        self.now.saturating_sub(c)
    }
}

macro_rules! side {
    ($pair:expr, $is_long:expr) => {
        if $is_long {
            &$pair.0
        } else {
            &$pair.1
        }
    };
}
macro_rules! side_mut {
    ($pair:expr, $is_long:expr) => {
        if $is_long {
            &mut $pair.0
        } else {
            &mut $pair.1
        }
    };
}

impl<T, const DECIMALS: u8> BaseMarket<DECIMALS> for VMarket<T, DECIMALS>
where
    T: CheckedSub + fmt::Display + FixedPointOps<DECIMALS>,
    T::Signed: Num + std::fmt::Debug,
{
    type Num = T;
    type Signed = T::Signed;
    type Pool = VPool<T>;

    fn liquidity_pool(&self) -> gmsol_model::Result<&Self::Pool> {
        Ok(&self.primary)
    }
    fn claimable_fee_pool(&self) -> gmsol_model::Result<&Self::Pool> {
        Ok(&self.fee)
    }
    fn swap_impact_pool(&self) -> gmsol_model::Result<&Self::Pool> {
        Ok(&self.swap_impact)
    }
    fn open_interest_pool(&self, is_long: bool) -> gmsol_model::Result<&Self::Pool> {
        Ok(side!(self.open_interest, is_long))
    }
    fn open_interest_in_tokens_pool(&self, is_long: bool) -> gmsol_model::Result<&Self::Pool> {
        Ok(side!(self.open_interest_in_tokens, is_long))
    }
    fn collateral_sum_pool(&self, is_long: bool) -> gmsol_model::Result<&Self::Pool> {
        Ok(side!(self.collateral_sum, is_long))
    }
    fn virtual_inventory_for_swaps_pool(
        &self,
    ) -> gmsol_model::Result<Option<impl Deref<Target = Self::Pool>>> {
        Ok(self.vi_swaps.as_ref())
    }
    fn virtual_inventory_for_positions_pool(
        &self,
    ) -> gmsol_model::Result<Option<impl Deref<Target = Self::Pool>>> {
        Ok(self.vi_positions.as_ref())
    }
    fn usd_to_amount_divisor(&self) -> Self::Num {
        self.config.value_to_amount_divisor.clone()
    }
    fn max_pool_amount(&self, is_long_token: bool) -> gmsol_model::Result<Self::Num> {
        Ok(side!(self.config.max_pool_amount, is_long_token).clone())
    }
    fn pnl_factor_config(&self, kind: PnlFactorKind, is_long: bool) -> gmsol_model::Result<Self::Num> {
        let pair = match kind {
            PnlFactorKind::MaxAfterDeposit => &self.config.max_pnl_factor_deposit,
            PnlFactorKind::MaxAfterWithdrawal => &self.config.max_pnl_factor_withdrawal,
            PnlFactorKind::MaxForTrader => &self.config.max_pnl_factor_trader,
            PnlFactorKind::ForAdl => &self.config.max_pnl_factor_adl,
            PnlFactorKind::MinAfterAdl => &self.config.min_pnl_factor_after_adl,
            _ => return Err(gmsol_model::Error::InvalidArgument("unknown pnl factor kind")),
        };
        Ok(side!(pair, is_long).clone())
    }
    fn reserve_factor(&self) -> gmsol_model::Result<Self::Num> {
        Ok(self.config.reserve_factor.clone())
    }
    fn open_interest_reserve_factor(&self) -> gmsol_model::Result<Self::Num> {
        Ok(self.config.open_interest_reserve_factor.clone())
    }
    fn max_open_interest(&self, is_long: bool) -> gmsol_model::Result<Self::Num> {
        Ok(side!(self.config.max_open_interest, is_long).clone())
    }
    fn ignore_open_interest_for_usage_factor(&self) -> gmsol_model::Result<bool> {
        Ok(self.config.ignore_open_interest_for_usage_factor)
    }
}

impl<T, const DECIMALS: u8> BaseMarketMut<DECIMALS> for VMarket<T, DECIMALS>
where
    T: CheckedSub + fmt::Display + FixedPointOps<DECIMALS>,
    T::Signed: Num + std::fmt::Debug,
{
    fn liquidity_pool_mut(&mut self) -> gmsol_model::Result<&mut Self::Pool> {
        Ok(&mut self.primary)
    }
    fn claimable_fee_pool_mut(&mut self) -> gmsol_model::Result<&mut Self::Pool> {
        Ok(&mut self.fee)
    }
    fn virtual_inventory_for_swaps_pool_mut(
        &mut self,
    ) -> gmsol_model::Result<Option<impl DerefMut<Target = Self::Pool>>> {
        Ok(self.vi_swaps.as_mut())
    }
}

impl<T, const DECIMALS: u8> SwapMarket<DECIMALS> for VMarket<T, DECIMALS>
where
    T: CheckedSub + fmt::Display + FixedPointOps<DECIMALS>,
    T::Signed: Num + std::fmt::Debug,
{
    fn swap_impact_params(&self) -> gmsol_model::Result<PriceImpactParams<Self::Num>> {
        Ok(self.config.swap_impact_params.clone())
    }
    fn swap_fee_params(&self) -> gmsol_model::Result<FeeParams<Self::Num>> {
        Ok(self.config.swap_fee_params.clone())
    }
}

impl<T, const DECIMALS: u8> SwapMarketMut<DECIMALS> for VMarket<T, DECIMALS>
where
    T: CheckedSub + fmt::Display + FixedPointOps<DECIMALS>,
    T::Signed: Num + std::fmt::Debug,
{
    fn swap_impact_pool_mut(&mut self) -> gmsol_model::Result<&mut Self::Pool> {
        Ok(&mut self.swap_impact)
    }
}

impl<T, const DECIMALS: u8> LiquidityMarket<DECIMALS> for VMarket<T, DECIMALS>
where
    T: CheckedSub + fmt::Display + FixedPointOps<DECIMALS>,
    T::Signed: Num + std::fmt::Debug,
{
    fn total_supply(&self) -> Self::Num {
        self.total_supply.clone()
    }
    fn max_pool_value_for_deposit(&self, is_long_token: bool) -> gmsol_model::Result<Self::Num> {
        Ok(side!(self.config.max_pool_value_for_deposit, is_long_token).clone())
    }
}

impl<T, const DECIMALS: u8> LiquidityMarketMut<DECIMALS> for VMarket<T, DECIMALS>
where
    T: CheckedSub + fmt::Display + FixedPointOps<DECIMALS>,
    T::Signed: Num + std::fmt::Debug,
{
    fn mint(&mut self, amount: &Self::Num) -> Result<(), gmsol_model::Error> {
        self.total_supply = self
            .total_supply
            .checked_add(amount)
            .ok_or(gmsol_model::Error::Overflow)?;
        Ok(())
    }
    fn burn(&mut self, amount: &Self::Num) -> gmsol_model::Result<()> {
        self.total_supply = self
            .total_supply
            .checked_sub(amount)
            .ok_or(gmsol_model::Error::Computation("burning market tokens"))?;
        Ok(())
    }
}

impl<T, const DECIMALS: u8> PositionImpactMarket<DECIMALS> for VMarket<T, DECIMALS>
where
    T: CheckedSub + fmt::Display + FixedPointOps<DECIMALS>,
    T::Signed: Num + std::fmt::Debug,
{
    fn position_impact_pool(&self) -> gmsol_model::Result<&Self::Pool> {
        Ok(&self.position_impact)
    }
    fn position_impact_params(&self) -> gmsol_model::Result<PriceImpactParams<Self::Num>> {
        Ok(self.config.position_impact_params.clone())
    }
    fn position_impact_distribution_params(
        &self,
    ) -> gmsol_model::Result<PositionImpactDistributionParams<Self::Num>> {
        Ok(self.config.position_impact_distribution_params.clone())
    }
    fn passed_in_seconds_for_position_impact_distribution(&self) -> gmsol_model::Result<u64> {
        Ok(self.passed(ClockKind::PriceImpactDistribution))
    }
}

impl<T, const DECIMALS: u8> PositionImpactMarketMut<DECIMALS> for VMarket<T, DECIMALS>
where
    T: CheckedSub + fmt::Display + FixedPointOps<DECIMALS>,
    T::Signed: Num + std::fmt::Debug,
{
    fn position_impact_pool_mut(&mut self) -> gmsol_model::Result<&mut Self::Pool> {
        Ok(&mut self.position_impact)
    }
    fn just_passed_in_seconds_for_position_impact_distribution(&mut self) -> gmsol_model::Result<u64> {
        Ok(self.just_passed(ClockKind::PriceImpactDistribution))
    }
}

impl<T, const DECIMALS: u8> BorrowingFeeMarket<DECIMALS> for VMarket<T, DECIMALS>
where
    T: CheckedSub + fmt::Display + FixedPointOps<DECIMALS>,
    T::Signed: Num + std::fmt::Debug,
{
    fn borrowing_fee_params(&self) -> gmsol_model::Result<BorrowingFeeParams<Self::Num>> {
        Ok(self.config.borrowing_fee_params.clone())
    }
    fn borrowing_factor_pool(&self) -> gmsol_model::Result<&Self::Pool> {
        Ok(&self.borrowing_factor)
    }
    fn total_borrowing_pool(&self) -> gmsol_model::Result<&Self::Pool> {
        Ok(&self.total_borrowing)
    }
    fn passed_in_seconds_for_borrowing(&self) -> gmsol_model::Result<u64> {
        Ok(self.passed(ClockKind::Borrowing))
    }
    fn borrowing_fee_kink_model_params(
        &self,
    ) -> gmsol_model::Result<BorrowingFeeKinkModelParams<Self::Num>> {
        Ok(BorrowingFeeKinkModelParams::builder()
            .long(self.config.borrowing_fee_kink_model_params.0.clone())
            .short(self.config.borrowing_fee_kink_model_params.1.clone())
            .build())
    }
}

impl<T, const DECIMALS: u8> BorrowingFeeMarketMut<DECIMALS> for VMarket<T, DECIMALS>
where
    T: CheckedSub + fmt::Display + FixedPointOps<DECIMALS>,
    T::Signed: Num + std::fmt::Debug,
{
    fn borrowing_factor_pool_mut(&mut self) -> gmsol_model::Result<&mut Self::Pool> {
        Ok(&mut self.borrowing_factor)
    }
    fn just_passed_in_seconds_for_borrowing(&mut self) -> gmsol_model::Result<u64> {
        Ok(self.just_passed(ClockKind::Borrowing))
    }
}

impl<T, const DECIMALS: u8> PerpMarket<DECIMALS> for VMarket<T, DECIMALS>
where
    T: CheckedSub + fmt::Display + FixedPointOps<DECIMALS>,
    T::Signed: Num + std::fmt::Debug,
{
    fn funding_factor_per_second(&self) -> &Self::Signed {
        &self.funding_factor_per_second
    }
    fn funding_amount_per_size_adjustment(&self) -> Self::Num {
        self.config.funding_amount_per_size_adjustment.clone()
    }
    fn funding_fee_params(&self) -> gmsol_model::Result<FundingFeeParams<Self::Num>> {
        Ok(self.config.funding_fee_params.clone())
    }
    fn funding_amount_per_size_pool(&self, is_long: bool) -> gmsol_model::Result<&Self::Pool> {
        Ok(side!(self.funding_amount_per_size, is_long))
    }
    fn claimable_funding_amount_per_size_pool(&self, is_long: bool) -> gmsol_model::Result<&Self::Pool> {
        Ok(side!(self.claimable_funding_amount_per_size, is_long))
    }
    fn position_params(&self) -> gmsol_model::Result<PositionParams<Self::Num>> {
        Ok(self.config.position_params.clone())
    }
    fn order_fee_params(&self) -> gmsol_model::Result<FeeParams<Self::Num>> {
        Ok(self.config.order_fee_params.clone())
    }
    fn min_collateral_factor_for_open_interest_multiplier(
        &self,
        is_long: bool,
    ) -> gmsol_model::Result<Self::Num> {
        Ok(side!(self.config.min_collateral_factor_for_oi, is_long).clone())
    }
    fn liquidation_fee_params(&self) -> gmsol_model::Result<LiquidationFeeParams<Self::Num>> {
        Ok(self.config.liquidation_fee_params.clone())
    }
}

impl<T, const DECIMALS: u8> PerpMarketMut<DECIMALS> for VMarket<T, DECIMALS>
where
    T: CheckedSub + fmt::Display + FixedPointOps<DECIMALS>,
    T::Signed: Num + std::fmt::Debug,
{
    fn funding_factor_per_second_mut(&mut self) -> &mut Self::Signed {
        &mut self.funding_factor_per_second
    }
    fn open_interest_pool_mut(&mut self, is_long: bool) -> gmsol_model::Result<&mut Self::Pool> {
        Ok(side_mut!(self.open_interest, is_long))
    }
    fn open_interest_in_tokens_pool_mut(&mut self, is_long: bool) -> gmsol_model::Result<&mut Self::Pool> {
        Ok(side_mut!(self.open_interest_in_tokens, is_long))
    }
    fn funding_amount_per_size_pool_mut(&mut self, is_long: bool) -> gmsol_model::Result<&mut Self::Pool> {
        Ok(side_mut!(self.funding_amount_per_size, is_long))
    }
    fn claimable_funding_amount_per_size_pool_mut(
        &mut self,
        is_long: bool,
    ) -> gmsol_model::Result<&mut Self::Pool> {
        Ok(side_mut!(self.claimable_funding_amount_per_size, is_long))
    }
    fn collateral_sum_pool_mut(&mut self, is_long: bool) -> gmsol_model::Result<&mut Self::Pool> {
        Ok(side_mut!(self.collateral_sum, is_long))
    }
    fn total_borrowing_pool_mut(&mut self) -> gmsol_model::Result<&mut Self::Pool> {
        Ok(&mut self.total_borrowing)
    }
    fn virtual_inventory_for_positions_pool_mut(
        &mut self,
    ) -> gmsol_model::Result<Option<impl DerefMut<Target = Self::Pool>>> {
        Ok(self.vi_positions.as_mut())
    }
    fn just_passed_in_seconds_for_funding(&mut self) -> gmsol_model::Result<u64> {
        Ok(self.just_passed(ClockKind::Funding))
    }
    fn on_insufficient_funding_fee_payment(
        &mut self,
        cost_amount: &Self::Num,
        paid_in_collateral_amount: &Self::Num,
        paid_in_secondary_output_amount: &Self::Num,
        is_collateral_token_long: bool,
    ) -> gmsol_model::Result<()> {
        self.shortfalls.push(Shortfall {
            cost_amount: cost_amount.clone(),
            paid_in_collateral_amount: paid_in_collateral_amount.clone(),
            paid_in_secondary_output_amount: paid_in_secondary_output_amount.clone(),
            is_collateral_token_long,
        });
        Ok(())
    }
}

/// Position state.
#[derive(Debug, Clone, Copy, Default, PartialEq, Eq)]
pub struct VPosition<T> {
    pub is_long: bool,
    pub is_collateral_token_long: bool,
    pub collateral_token_amount: T,
    pub size_in_usd: T,
    pub size_in_tokens: T,
    pub borrowing_factor: T,
    pub funding_fee_amount_per_size: T,
    pub claimable_funding_fee_amount_per_size: (T, T),
}

impl<T: Default> VPosition<T> {
    pub fn new(is_long: bool, is_collateral_token_long: bool) -> Self {
        Self {
            is_long,
            is_collateral_token_long,
            ..Default::default()
        }
    }
}

/// Recorded secondary swap inside a decrease.
#[derive(Debug, Clone)]
pub struct SwapEvent {
    pub ty: String,
    pub ok: bool,
    pub detail: String,
}

/// Binding of a position to its market for running actions.
pub struct VPositionOps<'a, T: Unsigned, const DECIMALS: u8> {
    pub market: &'a mut VMarket<T, DECIMALS>,
    pub position: &'a mut VPosition<T>,
    pub swaps: Vec<SwapEvent>,
}

impl<'a, T: Unsigned, const DECIMALS: u8> VPositionOps<'a, T, DECIMALS> {
    pub fn new(market: &'a mut VMarket<T, DECIMALS>, position: &'a mut VPosition<T>) -> Self {
        Self {
            market,
            position,
            swaps: Vec::new(),
        }
    }
}

impl<T, const DECIMALS: u8> PositionState<DECIMALS> for VPositionOps<'_, T, DECIMALS>
where
    T: CheckedSub + fmt::Display + FixedPointOps<DECIMALS>,
    T::Signed: Num + std::fmt::Debug,
{
    type Num = T;
    type Signed = T::Signed;

    fn collateral_amount(&self) -> &Self::Num {
        &self.position.collateral_token_amount
    }
    fn size_in_usd(&self) -> &Self::Num {
        &self.position.size_in_usd
    }
    fn size_in_tokens(&self) -> &Self::Num {
        &self.position.size_in_tokens
    }
    fn borrowing_factor(&self) -> &Self::Num {
        &self.position.borrowing_factor
    }
    fn funding_fee_amount_per_size(&self) -> &Self::Num {
        &self.position.funding_fee_amount_per_size
    }
    fn claimable_funding_fee_amount_per_size(&self, is_long_collateral: bool) -> &Self::Num {
        if is_long_collateral {
            &self.position.claimable_funding_fee_amount_per_size.0
        } else {
            &self.position.claimable_funding_fee_amount_per_size.1
        }
    }
}

impl<T, const DECIMALS: u8> Position<DECIMALS> for VPositionOps<'_, T, DECIMALS>
where
    T: CheckedSub + fmt::Display + FixedPointOps<DECIMALS>,
    T::Signed: Num + std::fmt::Debug,
{
    type Market = VMarket<T, DECIMALS>;

    fn market(&self) -> &Self::Market {
        self.market
    }
    fn is_long(&self) -> bool {
        self.position.is_long
    }
    fn is_collateral_token_long(&self) -> bool {
        self.position.is_collateral_token_long
    }
    fn are_pnl_and_collateral_tokens_the_same(&self) -> bool {
        self.position.is_long == self.position.is_collateral_token_long
    }
    fn on_validate(&self) -> gmsol_model::Result<()> {
        Ok(())
    }
}

impl<T, const DECIMALS: u8> PositionMut<DECIMALS> for VPositionOps<'_, T, DECIMALS>
where
    T: CheckedSub + fmt::Display + FixedPointOps<DECIMALS>,
    T::Signed: Num + std::fmt::Debug,
{
    fn market_mut(&mut self) -> &mut Self::Market {
        self.market
    }
    fn on_increased(&mut self) -> gmsol_model::Result<()> {
        Ok(())
    }
    fn on_decreased(&mut self) -> gmsol_model::Result<()> {
        Ok(())
    }
    fn on_swapped(
        &mut self,
        ty: DecreasePositionSwapType,
        report: &SwapReport<Self::Num, <Self::Num as Unsigned>::Signed>,
    ) -> gmsol_model::Result<()> {
        self.swaps.push(SwapEvent {
            ty: format!("{ty:?}"),
            ok: true,
            detail: format!("{report:?}"),
        });
        Ok(())
    }
    fn on_swap_error(
        &mut self,
        ty: DecreasePositionSwapType,
        error: gmsol_model::Error,
    ) -> gmsol_model::Result<()> {
        self.swaps.push(SwapEvent {
            ty: format!("{ty:?}"),
            ok: false,
            detail: format!("{error}"),
        });
        Ok(())
    }
}

impl<T, const DECIMALS: u8> PositionStateMut<DECIMALS> for VPositionOps<'_, T, DECIMALS>
where
    T: CheckedSub + fmt::Display + FixedPointOps<DECIMALS>,
    T::Signed: Num + std::fmt::Debug,
{
    fn collateral_amount_mut(&mut self) -> &mut Self::Num {
        &mut self.position.collateral_token_amount
    }
    fn size_in_usd_mut(&mut self) -> &mut Self::Num {
        &mut self.position.size_in_usd
    }
    fn size_in_tokens_mut(&mut self) -> &mut Self::Num {
        &mut self.position.size_in_tokens
    }
    fn borrowing_factor_mut(&mut self) -> &mut Self::Num {
        &mut self.position.borrowing_factor
    }
    fn funding_fee_amount_per_size_mut(&mut self) -> &mut Self::Num {
        &mut self.position.funding_fee_amount_per_size
    }
    fn claimable_funding_fee_amount_per_size_mut(&mut self, is_long_collateral: bool) -> &mut Self::Num {
        if is_long_collateral {
            &mut self.position.claimable_funding_fee_amount_per_size.0
        } else {
            &mut self.position.claimable_funding_fee_amount_per_size.1
        }
    }
}
