//! Extensions of the exchange world W2 (`world2`) for the GLV / ADL / closed-market histories of
//! `props/exchange2.rs`: a cached seeded world with one GLV over the four long/short markets, and
//! `ix_*` builders for the GLV instructions in their general form (initial long/short tokens with
//! swap paths, swapped-out withdrawals, keeper-created GLV shifts, fee arguments), `update_closed_state`,
//! `toggle_market`, `update_glv_config`. Nothing here changes `world2`; everything is built from the
//! Anchor-generated account/instruction types and executed by the real program entrypoint.

use crate::svm::{self, Acct};
use crate::world2::{self as w2, ata, ata2022, ix, vault_of, GlvInfo, World, FEED_DECIMALS, PID};
use anchor_lang::solana_program::{
    instruction::{AccountMeta, Instruction},
    pubkey::Pubkey,
    system_program,
};
use anchor_lang::Discriminator;
use gmsol_store::states::{PriceFeed, PriceFeedPrice};
use gmsol_store::{accounts as acc, instruction as ixd};
use std::collections::BTreeSet;

/// The four long/short markets of W2 (the members of the GLV).
pub const MEMBERS: [usize; 4] = [0, 1, 2, 3];

// =============================================================================================
// The GLV world
// =============================================================================================

#[derive(Clone)]
pub struct GlvWorld {
    pub w: World,
    pub g: GlvInfo,
    /// Member markets in the order the program keeps them (the order of the remaining accounts).
    pub members: Vec<usize>,
}

/// (The instruction comes first so that it is built before the world is borrowed mutably.)
fn must(i: &Instruction, what: &str, w: &mut World) -> Result<(), String> {
    w.vm.process(i).map_err(|e| format!("glv world setup: {what} failed: {e:?} {:?}", svm::take_logs().last()))
}

impl GlvWorld {
    /// `World::seeded()` plus: GLV 0 over markets 0..3 with deposits allowed everywhere, GLV-token
    /// and market-token ATAs for every user, and a first GLV deposit of market tokens by the
    /// liquidity provider (user 2) into every member, who then hands part of the GLV tokens and of
    /// the market tokens to users 0 and 1 (plain SPL transfers) so that every user can create GLV
    /// deposits of market tokens and GLV withdrawals.
    pub fn build() -> Result<GlvWorld, String> {
        let mut w = World::seeded()?;
        let keeper = w.keeper;
        let g = w.glv_info(0);
        must(&w.ix_initialize_glv(keeper, &g, &MEMBERS), "initialize_glv", &mut w)?;
        let members = w.glv_markets(&g);
        if members.len() != MEMBERS.len() {
            return Err(format!("GLV has {} members", members.len()));
        }
        for k in members.clone() {
            must(&w.ix_toggle_glv_deposit_allowed(keeper, &g, k, true), "toggle is_deposit_allowed", &mut w)?;
        }
        // ATAs
        for u in 0..w.users.len() {
            let user = w.user(u);
            must(&w.ix_prepare_ata_2022(user, user, g.glv_token), "glv token ATA", &mut w)?;
            for k in 0..w.markets.len() {
                let t = w.markets[k].token;
                must(&w.ix_prepare_ata(user, user, t), "market token ATA", &mut w)?;
            }
        }
        // first deposits: a tenth of the provider's market tokens of each member
        let lp = w.user(2);
        for k in members.clone() {
            let bal = w2::token_amount(&w.vm, &ata(&lp, &w.markets[k].token));
            let mut r = glv_deposit_ref(&mut w, lp, k);
            r.market_token_amount = bal / 10;
            for i in ixs_prepare_glv_deposit(&w, &g, &r) {
                must(&i, "prepare glv deposit", &mut w)?;
            }
            must(&ix_create_glv_deposit(&w, &g, &r), "create_glv_deposit", &mut w)?;
            w.advance(1);
            w.refresh_prices()?;
            must(&ix_execute_glv_deposit(&w, &g, &members, &r, keeper, 0, true), "execute_glv_deposit", &mut w)?;
            must(&ix_close_glv_deposit(&w, &g, &r, lp), "close_glv_deposit", &mut w)?;
        }
        // share the wealth
        let glv_bal = w2::token_amount(&w.vm, &ata2022(&lp, &g.glv_token));
        if glv_bal == 0 {
            return Err("the seeding GLV deposits minted nothing".into());
        }
        let glv_decimals = w.vm.data(&g.glv_token).get(44).copied().ok_or("glv mint unreadable")?;
        for u in 0..2 {
            let user = w.user(u);
            let i = spl_token_2022::instruction::transfer_checked(&spl_token_2022::ID, &ata2022(&lp, &g.glv_token), &g.glv_token, &ata2022(&user, &g.glv_token), &lp, &[], glv_bal / 4, glv_decimals).map_err(|e| e.to_string())?;
            must(&i, "transfer GLV tokens", &mut w)?;
            for k in 0..w.markets.len() {
                let t = w.markets[k].token;
                let bal = w2::token_amount(&w.vm, &ata(&lp, &t));
                let i = spl_token::instruction::transfer(&spl_token::ID, &ata(&lp, &t), &ata(&user, &t), &lp, &[], bal / 5).map_err(|e| e.to_string())?;
                must(&i, "transfer market tokens", &mut w)?;
            }
        }
        svm::take_events();
        Ok(GlvWorld { w, g, members })
    }

    /// A clone of the cached GLV world (built once per process; deterministic).
    pub fn seeded() -> Result<GlvWorld, String> {
        static CACHE: std::sync::OnceLock<Result<GlvWorld, String>> = std::sync::OnceLock::new();
        let gw = CACHE.get_or_init(GlvWorld::build).clone()?;
        gw.w.activate();
        Ok(gw)
    }

    /// (recorded balance, vault token amount) per member, in member order.
    pub fn glv_balances(&self) -> Vec<(u64, u64)> {
        let s = self.w.glv_state(&self.g);
        self.members
            .iter()
            .map(|k| {
                let t = self.w.markets[*k].token;
                let rec = s.as_ref().and_then(|s| s.market_config(&t).map(|c| c.balance())).unwrap_or(0);
                (rec, w2::token_amount(&self.w.vm, &ata(&self.g.glv, &t)))
            })
            .collect()
    }

    pub fn glv_supply(&self) -> u64 {
        w2::mint_supply(&self.w.vm, &self.g.glv_token)
    }

    /// GLV clause of C22: the balance the GLV records per member equals its vault's token amount.
    pub fn check_glv_balances(&self) -> Result<(), String> {
        for (k, (rec, actual)) in self.members.iter().zip(self.glv_balances()) {
            if rec != actual {
                return Err(format!("GLV records a balance of {rec} market tokens of market {k} but its vault holds {actual}"));
            }
        }
        Ok(())
    }
}

// =============================================================================================
// Feeds with a market-status flag, closed state, toggles
// =============================================================================================

/// Like `World::write_feed`, with an explicit `Open` flag (a closed index feed is what
/// `update_closed_state` reacts to).
pub fn write_feed_with_status(w: &mut World, token: &Pubkey, ts: i64, open: bool) -> Result<(), String> {
    let feed_key = w.feeds[token];
    let (mid, spread_bps) = w.prices[token];
    let d = mid * spread_bps / 10_000;
    let (min, max) = (mid - d, mid + d);
    let a = w.vm.get(&feed_key).cloned().ok_or("feed account missing")?;
    let mut feed: PriceFeed = svm::read_zero_copy(&a.data).ok_or("feed account too small")?;
    let mut p = PriceFeedPrice::new(FEED_DECIMALS, ts, mid, min, max, 0);
    p.set_flag(gmsol_utils::price::PriceFlag::Open, open);
    gmsol_store::verif::price_feed_update(&mut feed, &p, 0, false).map_err(|e| format!("price_feed_update: {e}"))?;
    let mut data = PriceFeed::DISCRIMINATOR.to_vec();
    data.extend_from_slice(bytemuck::bytes_of(&feed));
    w.vm.set_account(feed_key, Acct { data, ..a });
    Ok(())
}

fn feed_metas(w: &World, tokens: &BTreeSet<Pubkey>) -> Vec<AccountMeta> {
    tokens.iter().map(|t| AccountMeta { pubkey: w.feeds[t], is_signer: false, is_writable: false }).collect()
}

fn market_tokens_set(w: &World, markets: &[usize]) -> BTreeSet<Pubkey> {
    let mut s = BTreeSet::new();
    for m in markets {
        let mi = &w.markets[*m];
        s.extend([mi.index, mi.long, mi.short]);
    }
    s
}

pub fn ix_update_closed_state(w: &World, authority: Pubkey, market: usize) -> Instruction {
    ix(
        acc::UpdateClosedState { authority, store: w.store, token_map: w.token_map, oracle: w.oracle, market: w.markets[market].market },
        ixd::UpdateClosedState {},
        feed_metas(w, &market_tokens_set(w, &[market])),
    )
}

pub fn ix_toggle_market(w: &World, authority: Pubkey, market: usize, enable: bool) -> Instruction {
    ix(acc::ToggleMarket { authority, store: w.store, market: w.markets[market].market }, ixd::ToggleMarket { enable }, vec![])
}

pub fn ix_update_glv_config(w: &World, authority: Pubkey, g: &GlvInfo, params: gmsol_store::states::glv::UpdateGlvParams) -> Instruction {
    ix(acc::UpdateGlvConfig { authority, store: w.store, glv: g.glv }, ixd::UpdateGlvConfig { params }, vec![])
}

// =============================================================================================
// GLV deposits (general form)
// =============================================================================================

#[derive(Clone, Debug)]
pub struct GlvDepositRef {
    pub owner: Pubkey,
    pub market: usize,
    pub action: Pubkey,
    pub nonce: [u8; 32],
    pub market_token_amount: u64,
    pub long_token: Option<Pubkey>,
    pub short_token: Option<Pubkey>,
    pub long_amount: u64,
    pub short_amount: u64,
    pub long_path: Vec<usize>,
    pub short_path: Vec<usize>,
    pub min_market_tokens: u64,
    pub min_glv: u64,
    pub execution_lamports: u64,
}

pub fn glv_deposit_ref(w: &mut World, owner: Pubkey, market: usize) -> GlvDepositRef {
    let nonce = w.next_nonce();
    let (action, _) = Pubkey::find_program_address(&[b"glv_deposit", w.store.as_ref(), owner.as_ref(), &nonce], &PID);
    GlvDepositRef {
        owner,
        market,
        action,
        nonce,
        market_token_amount: 0,
        long_token: None,
        short_token: None,
        long_amount: 0,
        short_amount: 0,
        long_path: vec![],
        short_path: vec![],
        min_market_tokens: 0,
        min_glv: 0,
        execution_lamports: w2::EXEC_LAMPORTS,
    }
}

impl GlvDepositRef {
    /// Mints of the escrow accounts held by the action (GLV token escrow excluded: token-2022).
    pub fn escrow_mints(&self, w: &World) -> Vec<Pubkey> {
        let mut mints = vec![w.markets[self.market].token];
        for t in [self.long_token, self.short_token].into_iter().flatten() {
            if !mints.contains(&t) {
                mints.push(t);
            }
        }
        mints
    }
}

pub fn ixs_prepare_glv_deposit(w: &World, g: &GlvInfo, r: &GlvDepositRef) -> Vec<Instruction> {
    let mut out = vec![w.ix_prepare_ata_2022(r.owner, r.action, g.glv_token)];
    for m in r.escrow_mints(w) {
        out.push(w.ix_prepare_ata(r.owner, r.action, m));
    }
    out
}

/// Metas of the swap-path markets (readonly), long path then short path: `create_*` instructions.
fn path_metas(w: &World, long_path: &[usize], short_path: &[usize]) -> Vec<AccountMeta> {
    long_path.iter().chain(short_path.iter()).map(|m| AccountMeta { pubkey: w.markets[*m].market, is_signer: false, is_writable: false }).collect()
}

pub fn ix_create_glv_deposit(w: &World, g: &GlvInfo, r: &GlvDepositRef) -> Instruction {
    let m = &w.markets[r.market];
    ix(
        acc::CreateGlvDeposit {
            owner: r.owner,
            receiver: r.owner,
            store: w.store,
            market: m.market,
            glv: g.glv,
            glv_deposit: r.action,
            glv_token: g.glv_token,
            market_token: m.token,
            initial_long_token: r.long_token,
            initial_short_token: r.short_token,
            market_token_source: (r.market_token_amount != 0).then(|| ata(&r.owner, &m.token)),
            initial_long_token_source: r.long_token.map(|t| ata(&r.owner, &t)),
            initial_short_token_source: r.short_token.map(|t| ata(&r.owner, &t)),
            glv_token_escrow: ata2022(&r.action, &g.glv_token),
            market_token_escrow: ata(&r.action, &m.token),
            initial_long_token_escrow: r.long_token.map(|t| ata(&r.action, &t)),
            initial_short_token_escrow: r.short_token.map(|t| ata(&r.action, &t)),
            system_program: system_program::ID,
            token_program: spl_token::ID,
            glv_token_program: spl_token_2022::ID,
            associated_token_program: spl_associated_token_account::ID,
        },
        ixd::CreateGlvDeposit {
            nonce: r.nonce,
            params: gmsol_store::ops::glv::CreateGlvDepositParams {
                execution_lamports: r.execution_lamports,
                long_token_swap_length: r.long_path.len() as u8,
                short_token_swap_length: r.short_path.len() as u8,
                initial_long_token_amount: r.long_amount,
                initial_short_token_amount: r.short_amount,
                market_token_amount: r.market_token_amount,
                min_market_token_amount: r.min_market_tokens,
                min_glv_token_amount: r.min_glv,
                should_unwrap_native_token: false,
            },
        },
        path_metas(w, &r.long_path, &r.short_path),
    )
}

/// Remaining accounts of a GLV deposit / withdrawal execution: the N member markets, their N market
/// tokens, the feeds of the sorted token set (current market + path markets + index tokens of all
/// members), then the unique path markets other than the current one (writable).
pub fn glv_execute_remaining(w: &World, members: &[usize], current: usize, paths: &[&[usize]]) -> Vec<AccountMeta> {
    let mut out: Vec<AccountMeta> = members.iter().map(|m| AccountMeta { pubkey: w.markets[*m].market, is_signer: false, is_writable: false }).collect();
    out.extend(members.iter().map(|m| AccountMeta { pubkey: w.markets[*m].token, is_signer: false, is_writable: false }));
    let mut tokens = market_tokens_set(w, &[current]);
    let mut uniq: Vec<usize> = vec![];
    for p in paths {
        for m in p.iter() {
            tokens.extend(market_tokens_set(w, &[*m]));
            if *m != current && !uniq.contains(m) {
                uniq.push(*m);
            }
        }
    }
    for m in members {
        tokens.insert(w.markets[*m].index);
    }
    out.extend(feed_metas(w, &tokens));
    out.extend(uniq.iter().map(|m| AccountMeta { pubkey: w.markets[*m].market, is_signer: false, is_writable: true }));
    out
}

pub fn ix_execute_glv_deposit(w: &World, g: &GlvInfo, members: &[usize], r: &GlvDepositRef, authority: Pubkey, execution_lamports: u64, throw_on_execution_error: bool) -> Instruction {
    let m = &w.markets[r.market];
    ix(
        acc::ExecuteGlvDeposit {
            authority,
            store: w.store,
            token_map: w.token_map,
            oracle: w.oracle,
            glv: g.glv,
            market: m.market,
            glv_deposit: r.action,
            glv_token: g.glv_token,
            market_token: m.token,
            initial_long_token: r.long_token,
            initial_short_token: r.short_token,
            glv_token_escrow: ata2022(&r.action, &g.glv_token),
            market_token_escrow: ata(&r.action, &m.token),
            initial_long_token_escrow: r.long_token.map(|t| ata(&r.action, &t)),
            initial_short_token_escrow: r.short_token.map(|t| ata(&r.action, &t)),
            initial_long_token_vault: r.long_token.map(|t| vault_of(&w.store, &t)),
            initial_short_token_vault: r.short_token.map(|t| vault_of(&w.store, &t)),
            market_token_vault: ata(&g.glv, &m.token),
            token_program: spl_token::ID,
            glv_token_program: spl_token_2022::ID,
            system_program: system_program::ID,
            chainlink_program: None,
            event_authority: w.event_authority,
            program: PID,
        },
        ixd::ExecuteGlvDeposit { execution_lamports, throw_on_execution_error },
        glv_execute_remaining(w, members, r.market, &[&r.long_path, &r.short_path]),
    )
}

pub fn ix_close_glv_deposit(w: &World, g: &GlvInfo, r: &GlvDepositRef, executor: Pubkey) -> Instruction {
    let m = &w.markets[r.market];
    ix(
        acc::CloseGlvDeposit {
            executor,
            store: w.store,
            store_wallet: w.store_wallet,
            owner: r.owner,
            receiver: r.owner,
            glv_deposit: r.action,
            market_token: m.token,
            initial_long_token: r.long_token,
            initial_short_token: r.short_token,
            glv_token: g.glv_token,
            market_token_escrow: ata(&r.action, &m.token),
            initial_long_token_escrow: r.long_token.map(|t| ata(&r.action, &t)),
            initial_short_token_escrow: r.short_token.map(|t| ata(&r.action, &t)),
            glv_token_escrow: ata2022(&r.action, &g.glv_token),
            market_token_ata: ata(&r.owner, &m.token),
            initial_long_token_ata: r.long_token.map(|t| ata(&r.owner, &t)),
            initial_short_token_ata: r.short_token.map(|t| ata(&r.owner, &t)),
            glv_token_ata: ata2022(&r.owner, &g.glv_token),
            system_program: system_program::ID,
            token_program: spl_token::ID,
            glv_token_program: spl_token_2022::ID,
            associated_token_program: spl_associated_token_account::ID,
            event_authority: w.event_authority,
            program: PID,
        },
        ixd::CloseGlvDeposit { reason: "test".into() },
        vec![],
    )
}

// =============================================================================================
// GLV withdrawals (general form)
// =============================================================================================

#[derive(Clone, Debug)]
pub struct GlvWithdrawalRef {
    pub owner: Pubkey,
    pub market: usize,
    pub action: Pubkey,
    pub nonce: [u8; 32],
    /// GLV tokens to burn.
    pub amount: u64,
    pub final_long_token: Pubkey,
    pub final_short_token: Pubkey,
    pub long_path: Vec<usize>,
    pub short_path: Vec<usize>,
    pub min_long: u64,
    pub min_short: u64,
    pub execution_lamports: u64,
}

pub fn glv_withdrawal_ref(w: &mut World, owner: Pubkey, market: usize, amount: u64) -> GlvWithdrawalRef {
    let nonce = w.next_nonce();
    let (action, _) = Pubkey::find_program_address(&[b"glv_withdrawal", w.store.as_ref(), owner.as_ref(), &nonce], &PID);
    let m = &w.markets[market];
    GlvWithdrawalRef { owner, market, action, nonce, amount, final_long_token: m.long, final_short_token: m.short, long_path: vec![], short_path: vec![], min_long: 0, min_short: 0, execution_lamports: w2::EXEC_LAMPORTS }
}

impl GlvWithdrawalRef {
    pub fn escrow_mints(&self, w: &World) -> Vec<Pubkey> {
        let mut mints = vec![w.markets[self.market].token];
        for t in [self.final_long_token, self.final_short_token] {
            if !mints.contains(&t) {
                mints.push(t);
            }
        }
        mints
    }
}

pub fn ixs_prepare_glv_withdrawal(w: &World, g: &GlvInfo, r: &GlvWithdrawalRef) -> Vec<Instruction> {
    let mut out = vec![w.ix_prepare_ata_2022(r.owner, r.action, g.glv_token)];
    for m in r.escrow_mints(w) {
        out.push(w.ix_prepare_ata(r.owner, r.action, m));
    }
    out
}

pub fn ix_create_glv_withdrawal(w: &World, g: &GlvInfo, r: &GlvWithdrawalRef) -> Instruction {
    let m = &w.markets[r.market];
    ix(
        acc::CreateGlvWithdrawal {
            owner: r.owner,
            receiver: r.owner,
            store: w.store,
            market: m.market,
            glv: g.glv,
            glv_withdrawal: r.action,
            glv_token: g.glv_token,
            market_token: m.token,
            final_long_token: r.final_long_token,
            final_short_token: r.final_short_token,
            glv_token_source: ata2022(&r.owner, &g.glv_token),
            glv_token_escrow: ata2022(&r.action, &g.glv_token),
            market_token_escrow: ata(&r.action, &m.token),
            final_long_token_escrow: ata(&r.action, &r.final_long_token),
            final_short_token_escrow: ata(&r.action, &r.final_short_token),
            system_program: system_program::ID,
            token_program: spl_token::ID,
            glv_token_program: spl_token_2022::ID,
            associated_token_program: spl_associated_token_account::ID,
        },
        ixd::CreateGlvWithdrawal {
            nonce: r.nonce,
            params: gmsol_store::ops::glv::CreateGlvWithdrawalParams {
                execution_lamports: r.execution_lamports,
                long_token_swap_length: r.long_path.len() as u8,
                short_token_swap_length: r.short_path.len() as u8,
                glv_token_amount: r.amount,
                min_final_long_token_amount: r.min_long,
                min_final_short_token_amount: r.min_short,
                should_unwrap_native_token: false,
            },
        },
        path_metas(w, &r.long_path, &r.short_path),
    )
}

pub fn ix_execute_glv_withdrawal(w: &World, g: &GlvInfo, members: &[usize], r: &GlvWithdrawalRef, authority: Pubkey, execution_lamports: u64, throw_on_execution_error: bool) -> Instruction {
    let m = &w.markets[r.market];
    ix(
        acc::ExecuteGlvWithdrawal {
            authority,
            store: w.store,
            token_map: w.token_map,
            oracle: w.oracle,
            glv: g.glv,
            market: m.market,
            glv_withdrawal: r.action,
            glv_token: g.glv_token,
            market_token: m.token,
            final_long_token: r.final_long_token,
            final_short_token: r.final_short_token,
            glv_token_escrow: ata2022(&r.action, &g.glv_token),
            market_token_escrow: ata(&r.action, &m.token),
            final_long_token_escrow: ata(&r.action, &r.final_long_token),
            final_short_token_escrow: ata(&r.action, &r.final_short_token),
            market_token_withdrawal_vault: vault_of(&w.store, &m.token),
            final_long_token_vault: vault_of(&w.store, &r.final_long_token),
            final_short_token_vault: vault_of(&w.store, &r.final_short_token),
            market_token_vault: ata(&g.glv, &m.token),
            token_program: spl_token::ID,
            glv_token_program: spl_token_2022::ID,
            system_program: system_program::ID,
            chainlink_program: None,
            event_authority: w.event_authority,
            program: PID,
        },
        ixd::ExecuteGlvWithdrawal { execution_lamports, throw_on_execution_error },
        glv_execute_remaining(w, members, r.market, &[&r.long_path, &r.short_path]),
    )
}

pub fn ix_close_glv_withdrawal(w: &World, g: &GlvInfo, r: &GlvWithdrawalRef, executor: Pubkey) -> Instruction {
    let m = &w.markets[r.market];
    ix(
        acc::CloseGlvWithdrawal {
            executor,
            store: w.store,
            store_wallet: w.store_wallet,
            owner: r.owner,
            receiver: r.owner,
            glv_withdrawal: r.action,
            market_token: m.token,
            final_long_token: r.final_long_token,
            final_short_token: r.final_short_token,
            glv_token: g.glv_token,
            market_token_escrow: ata(&r.action, &m.token),
            final_long_token_escrow: ata(&r.action, &r.final_long_token),
            final_short_token_escrow: ata(&r.action, &r.final_short_token),
            market_token_ata: ata(&r.owner, &m.token),
            final_long_token_ata: ata(&r.owner, &r.final_long_token),
            final_short_token_ata: ata(&r.owner, &r.final_short_token),
            glv_token_escrow: ata2022(&r.action, &g.glv_token),
            glv_token_ata: ata2022(&r.owner, &g.glv_token),
            system_program: system_program::ID,
            token_program: spl_token::ID,
            glv_token_program: spl_token_2022::ID,
            associated_token_program: spl_associated_token_account::ID,
            event_authority: w.event_authority,
            program: PID,
        },
        ixd::CloseGlvWithdrawal { reason: "test".into() },
        vec![],
    )
}

// =============================================================================================
// GLV shifts (created, executed and closed by keepers; the GLV is the owner)
// =============================================================================================

#[derive(Clone, Debug)]
pub struct GlvShiftRef {
    /// The ORDER_KEEPER that creates (and funds) the shift.
    pub funder: Pubkey,
    pub from: usize,
    pub to: usize,
    pub action: Pubkey,
    pub nonce: [u8; 32],
    pub amount: u64,
    pub min_out: u64,
    pub execution_lamports: u64,
}

pub fn glv_shift_ref(w: &mut World, funder: Pubkey, from: usize, to: usize, amount: u64) -> GlvShiftRef {
    let nonce = w.next_nonce();
    let (action, _) = Pubkey::find_program_address(&[b"shift", w.store.as_ref(), funder.as_ref(), &nonce], &PID);
    GlvShiftRef { funder, from, to, action, nonce, amount, min_out: 0, execution_lamports: w2::EXEC_LAMPORTS }
}

pub fn ix_create_glv_shift(w: &World, g: &GlvInfo, r: &GlvShiftRef) -> Instruction {
    ix_create_glv_shift_by(w, g, r, r.funder)
}

/// `create_glv_shift` signed by `authority` (the PDA is derived from the authority, so any
/// authority other than `r.funder` is a malformed call).
pub fn ix_create_glv_shift_by(w: &World, g: &GlvInfo, r: &GlvShiftRef, authority: Pubkey) -> Instruction {
    let (f, t) = (&w.markets[r.from], &w.markets[r.to]);
    ix(
        acc::CreateGlvShift {
            authority,
            store: w.store,
            glv: g.glv,
            from_market: f.market,
            to_market: t.market,
            glv_shift: r.action,
            from_market_token: f.token,
            to_market_token: t.token,
            from_market_token_vault: ata(&g.glv, &f.token),
            to_market_token_vault: ata(&g.glv, &t.token),
            system_program: system_program::ID,
            token_program: spl_token::ID,
            associated_token_program: spl_associated_token_account::ID,
        },
        ixd::CreateGlvShift {
            nonce: r.nonce,
            params: gmsol_store::ops::shift::CreateShiftParams { execution_lamports: r.execution_lamports, from_market_token_amount: r.amount, min_to_market_token_amount: r.min_out },
        },
        vec![],
    )
}

pub fn ix_execute_glv_shift(w: &World, g: &GlvInfo, r: &GlvShiftRef, authority: Pubkey, execution_lamports: u64, throw_on_execution_error: bool) -> Instruction {
    let (f, t) = (&w.markets[r.from], &w.markets[r.to]);
    ix(
        acc::ExecuteGlvShift {
            authority,
            store: w.store,
            token_map: w.token_map,
            oracle: w.oracle,
            glv: g.glv,
            from_market: f.market,
            to_market: t.market,
            glv_shift: r.action,
            from_market_token: f.token,
            to_market_token: t.token,
            from_market_token_glv_vault: ata(&g.glv, &f.token),
            to_market_token_glv_vault: ata(&g.glv, &t.token),
            from_market_token_vault: vault_of(&w.store, &f.token),
            token_program: spl_token::ID,
            chainlink_program: None,
            event_authority: w.event_authority,
            program: PID,
        },
        ixd::ExecuteGlvShift { execution_lamports, throw_on_execution_error },
        feed_metas(w, &market_tokens_set(w, &[r.from, r.to])),
    )
}

pub fn ix_close_glv_shift(w: &World, g: &GlvInfo, r: &GlvShiftRef, authority: Pubkey) -> Instruction {
    let (f, t) = (&w.markets[r.from], &w.markets[r.to]);
    ix(
        acc::CloseGlvShift {
            authority,
            funder: r.funder,
            store: w.store,
            store_wallet: w.store_wallet,
            glv: g.glv,
            glv_shift: r.action,
            from_market_token: f.token,
            to_market_token: t.token,
            system_program: system_program::ID,
            token_program: spl_token::ID,
            associated_token_program: spl_associated_token_account::ID,
            event_authority: w.event_authority,
            program: PID,
        },
        ixd::CloseGlvShift { reason: "test".into() },
        vec![],
    )
}
