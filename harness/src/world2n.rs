//! W2N "native world": the seeded exchange world W2 (`world2::World::seeded()`) extended, through the
//! real instructions, with the wrapped-SOL mint (`spl_token::native_mint::ID`): token-map entry,
//! custom price feed, market vault, two markets that hold it as a pool token (N0: synthetic index,
//! long = WSOL, short = SHORT; N1: index = WSOL, long = LONG, short = WSOL), wrapped-SOL accounts for
//! every user (system transfer + `sync_native`), seed liquidity, and a distinct `receiver` wallet.
//! Plus `ix_*` variants of the create / close instructions with the `should_unwrap_native_token`
//! flag and the client convention for unwrapped closes (the "ATA" passed for the native mint is the
//! recipient wallet itself, as `gmsol_sdk::builders::utils::get_ata_or_owner` does).
//!
//! Nothing here changes `world2`. The only account written directly is the native mint itself (on a
//! cluster it is a genesis account of the token program).

use crate::svm::{self, Acct};
use crate::world2::{self as w2, ata, ix, vault_of, DepositRef, MarketInfo, OrderRef, WithdrawalRef, World, HEARTBEAT, PID, USD};
use anchor_lang::solana_program::{
    instruction::Instruction,
    program_option::COption,
    program_pack::Pack,
    pubkey::Pubkey,
    system_instruction, system_program,
};
use anchor_lang::InstructionData;
use gmsol_store::states::{PriceProviderKind, UpdateTokenConfigParams};
use gmsol_store::{accounts as acc, instruction as ixd};

pub const WSOL: Pubkey = spl_token::native_mint::ID;
pub const WSOL_DECIMALS: u8 = 9;
/// Rent-exempt minimum of an SPL token account (165 bytes) under `Rent::default()`.
pub const TOKEN_ACCOUNT_RENT: u64 = 2_039_280;

#[derive(Clone)]
pub struct NativeWorld {
    pub w: World,
    /// index = synthetic INDEX, long = WSOL, short = SHORT.
    pub n0: usize,
    /// index = WSOL, long = LONG, short = WSOL.
    pub n1: usize,
    /// A wallet that is neither a user nor a keeper (funded, no token accounts).
    pub receiver: Pubkey,
}

fn must(i: &Instruction, what: &str, w: &mut World) -> Result<(), String> {
    w.vm.process(i).map_err(|e| format!("native world setup: {what} failed: {e:?} {:?}", svm::take_logs().last()))
}

/// `system transfer` + `sync_native`: what a client does to wrap SOL into an existing WSOL account.
pub fn ixs_wrap(owner: &Pubkey, lamports: u64) -> Result<Vec<Instruction>, String> {
    let account = ata(owner, &WSOL);
    Ok(vec![system_instruction::transfer(owner, &account, lamports), spl_token::instruction::sync_native(&spl_token::ID, &account).map_err(|e| e.to_string())?])
}

fn create_market(w: &mut World, name: &str, index: Pubkey, long: Pubkey, short: Pubkey) -> Result<usize, String> {
    let store = w.store;
    let (market_token, _) = Pubkey::find_program_address(&[b"market_token_mint", store.as_ref(), index.as_ref(), long.as_ref(), short.as_ref()], &PID);
    let (market, _) = Pubkey::find_program_address(&[b"market", store.as_ref(), market_token.as_ref()], &PID);
    must(
        &ix(
            acc::InitializeMarket {
                authority: w.keeper,
                store,
                market_token_mint: market_token,
                long_token_mint: long,
                short_token_mint: short,
                market,
                token_map: w.token_map,
                long_token_vault: vault_of(&store, &long),
                short_token_vault: vault_of(&store, &short),
                system_program: system_program::ID,
                token_program: spl_token::ID,
            },
            ixd::InitializeMarket { index_token_mint: index, name: name.to_string(), enable: true },
            vec![],
        ),
        "initialize_market",
        w,
    )?;
    must(
        &ix(
            acc::InitializeMarketVault { authority: w.keeper, store, mint: market_token, vault: vault_of(&store, &market_token), system_program: system_program::ID, token_program: spl_token::ID },
            ixd::InitializeMarketVault {},
            vec![],
        ),
        "initialize_market_vault (market token)",
        w,
    )?;
    let big_amount: u128 = 1_000_000_000_000_000_000;
    for (key, value) in [
        ("max_pool_amount_for_long_token", big_amount),
        ("max_pool_amount_for_short_token", big_amount),
        ("max_pool_value_for_deposit_for_long_token", 1_000_000_000 * USD),
        ("max_pool_value_for_deposit_for_short_token", 1_000_000_000 * USD),
        ("max_open_interest_for_long", 1_000_000_000 * USD),
        ("max_open_interest_for_short", 1_000_000_000 * USD),
        ("swap_fee_factor_for_positive_impact", USD / 2000),
        ("swap_fee_factor_for_negative_impact", USD / 1000),
        ("swap_impact_positive_factor", USD / 100_000_000_000),
        ("swap_impact_negative_factor", USD / 50_000_000_000),
        ("swap_impact_exponent", 2 * USD),
    ] {
        w.set_market_config(&market, key, value)?;
    }
    w.markets.push(MarketInfo { token: market_token, market, index, long, short });
    Ok(w.markets.len() - 1)
}

impl NativeWorld {
    pub fn build() -> Result<NativeWorld, String> {
        let mut w = World::seeded()?;
        let (store, keeper) = (w.store, w.keeper);
        // ---- the native mint (a genesis account of the token program on a cluster)
        let mut data = vec![0u8; spl_token::state::Mint::LEN];
        spl_token::state::Mint { mint_authority: COption::None, supply: 0, decimals: WSOL_DECIMALS, is_initialized: true, freeze_authority: COption::None }.pack_into_slice(&mut data);
        w.vm.set_account(WSOL, Acct { lamports: 1_461_600, data, owner: spl_token::ID, executable: false });
        // ---- token map entry, feed, vault
        let feed_id = svm::key_of(&format!("w2-feed-id-{WSOL}"));
        let mut p = UpdateTokenConfigParams::default();
        p.heartbeat_duration = HEARTBEAT;
        p.precision = 4;
        p.feeds[PriceProviderKind::ChainlinkDataStreams as usize] = feed_id;
        p.expected_provider = Some(PriceProviderKind::ChainlinkDataStreams as u8);
        must(
            &ix(
                acc::PushToTokenMap { authority: keeper, store, token_map: w.token_map, token: WSOL, system_program: system_program::ID },
                ixd::PushToTokenMap { name: "WSOL".into(), builder: p, enable: true, new: true },
                vec![],
            ),
            "push_to_token_map WSOL",
            &mut w,
        )?;
        let provider = PriceProviderKind::ChainlinkDataStreams as u8;
        let index = 0u16;
        let (price_feed, _) = Pubkey::find_program_address(&[b"price_feed", store.as_ref(), keeper.as_ref(), &index.to_le_bytes(), &[provider], WSOL.as_ref()], &PID);
        must(
            &ix(acc::InitializePriceFeed { authority: keeper, store, price_feed, system_program: system_program::ID }, ixd::InitializePriceFeed { index, provider, token: WSOL, feed_id }, vec![]),
            "initialize_price_feed WSOL",
            &mut w,
        )?;
        w.feeds.insert(WSOL, price_feed);
        w.prices.insert(WSOL, (100 * 10u128.pow(w2::FEED_DECIMALS as u32), 0));
        must(
            &ix(
                acc::InitializeMarketVault { authority: keeper, store, mint: WSOL, vault: vault_of(&store, &WSOL), system_program: system_program::ID, token_program: spl_token::ID },
                ixd::InitializeMarketVault {},
                vec![],
            ),
            "initialize_market_vault WSOL",
            &mut w,
        )?;
        // ---- markets
        let (index_token, long_mint, short_mint) = (w.index_token, w.long_mint, w.short_mint);
        let n0 = create_market(&mut w, "N0", index_token, WSOL, short_mint)?;
        let n1 = create_market(&mut w, "N1", WSOL, long_mint, WSOL)?;
        // ADL of longs in N0 is allowed once their pending profit exceeds 0.5 % of the pool value
        let market = w.markets[n0].market;
        w.set_market_config(&market, "max_pnl_factor_for_long_adl", USD / 200)?;
        w.set_market_config(&market, "min_pnl_factor_after_long_adl", 0)?;
        w.refresh_prices()?;
        // ---- wrapped SOL for every user and the first keeper: 50000 SOL more in the wallet, 50000 wrapped
        let sol: u64 = 1_000_000_000;
        let mut holders = w.users.clone();
        holders.push(keeper);
        for u in holders {
            let a = w.vm.get(&u).cloned().ok_or("wallet missing")?;
            w.vm.set_account(u, Acct { lamports: a.lamports + 100_000 * sol, ..a });
            must(&w.ix_prepare_ata(u, u, WSOL), "WSOL ATA", &mut w)?;
            for i in ixs_wrap(&u, 50_000 * sol)? {
                must(&i, "wrap", &mut w)?;
            }
            if w2::token_amount(&w.vm, &ata(&u, &WSOL)) != 50_000 * sol {
                return Err("sync_native did not credit the wrapped lamports".into());
            }
        }
        // ---- seed liquidity by the liquidity provider (user 2): $500k per side
        let lp = w.user(2);
        for (m, a, b) in [(n0, 5_000 * sol, 500_000u64 * 10u64.pow(w2::SHORT_DECIMALS as u32)), (n1, 5_000u64 * 10u64.pow(w2::LONG_DECIMALS as u32), 5_000 * sol)] {
            let (l, s) = (w.markets[m].long, w.markets[m].short);
            let r = w.deposit_ref(lp, m, Some(l), Some(s), a, b);
            for i in w.ixs_prepare_deposit(&r) {
                must(&i, "seed: prepare escrow", &mut w)?;
            }
            must(&w.ix_create_deposit(&r), "seed: create_deposit", &mut w)?;
            w.advance(1);
            w.refresh_prices()?;
            must(&w.ix_execute_deposit(&r, keeper, 0, true), "seed: execute_deposit", &mut w)?;
            must(&w.ix_close_deposit(&r, lp), "seed: close_deposit", &mut w)?;
        }
        // market-token ATAs of every user for the two new markets
        for u in w.users.clone() {
            for m in [n0, n1] {
                let t = w.markets[m].token;
                must(&w.ix_prepare_ata(u, u, t), "market token ATA", &mut w)?;
            }
        }
        let receiver = svm::key_of("w2n-receiver");
        w.vm.fund(receiver, 100 * sol);
        w.check_solvency().map_err(|e| format!("native world: {e}"))?;
        svm::take_events();
        Ok(NativeWorld { w, n0, n1, receiver })
    }

    /// A clone of the cached native world (built once per process; deterministic).
    pub fn seeded() -> Result<NativeWorld, String> {
        static CACHE: std::sync::OnceLock<Result<NativeWorld, String>> = std::sync::OnceLock::new();
        let nw = CACHE.get_or_init(NativeWorld::build).clone()?;
        nw.w.activate();
        Ok(nw)
    }
}

// =============================================================================================
// Instruction variants with the unwrap flag
// =============================================================================================

/// `create_deposit` with `should_unwrap_native_token` (accounts as in `World::ix_create_deposit`).
pub fn ix_create_deposit(w: &World, r: &DepositRef, should_unwrap_native_token: bool) -> Instruction {
    let mut i = w.ix_create_deposit(r);
    i.data = ixd::CreateDeposit {
        nonce: r.nonce,
        params: gmsol_store::ops::deposit::CreateDepositParams {
            execution_lamports: r.execution_lamports,
            long_token_swap_length: r.long_path.len() as u8,
            short_token_swap_length: r.short_path.len() as u8,
            initial_long_token_amount: r.long_amount,
            initial_short_token_amount: r.short_amount,
            min_market_token_amount: r.min_out,
            should_unwrap_native_token,
        },
    }
    .data();
    i
}

pub fn ix_create_withdrawal(w: &World, r: &WithdrawalRef, should_unwrap_native_token: bool) -> Instruction {
    let mut i = w.ix_create_withdrawal(r);
    i.data = ixd::CreateWithdrawal {
        nonce: r.nonce,
        params: gmsol_store::ops::withdrawal::CreateWithdrawalParams {
            execution_lamports: r.execution_lamports,
            long_token_swap_path_length: r.long_path.len() as u8,
            short_token_swap_path_length: r.short_path.len() as u8,
            market_token_amount: r.amount,
            min_long_token_amount: r.min_long,
            min_short_token_amount: r.min_short,
            should_unwrap_native_token,
        },
    }
    .data();
    i
}

pub fn ix_create_order(w: &World, r: &OrderRef, should_unwrap_native_token: bool) -> Instruction {
    let mut i = w.ix_create_order(r);
    let mut params = w.order_params(r);
    params.should_unwrap_native_token = should_unwrap_native_token;
    i.data = ixd::CreateOrderV2 { nonce: r.nonce, params, callback_version: None }.data();
    i
}

/// The client convention for closing an action whose header has the unwrap flag: wherever the
/// instruction takes "the ATA of `party` for the native mint", pass the wallet of `party` itself.
pub fn unwrap_convention(mut i: Instruction, parties: &[Pubkey]) -> Instruction {
    for p in parties {
        let a = ata(p, &WSOL);
        for m in i.accounts.iter_mut() {
            if m.pubkey == a {
                m.pubkey = *p;
                m.is_writable = true;
            }
        }
    }
    i
}
