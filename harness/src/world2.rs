//! W2 "exchange world" for svm-lite: a store with roles, a token map (two real SPL mints + one
//! synthetic index token), custom price feeds, an oracle buffer, market vaults and three markets,
//! funded users, and `ix_*` helpers for the exchange instructions (deposit / withdrawal / shift /
//! orders / liquidation / fee claims / keeper transfers). Everything except the *price written into
//! the custom `PriceFeed` accounts* is created by executing the real instructions; the feed update
//! goes through `gmsol_store::verif::price_feed_update` on the deserialised account (the instruction
//! path needs a Chainlink report signed by the oracle network).

use crate::svm::{self, Acct, Svm, Sysvars};
use anchor_lang::solana_program::{
    instruction::{AccountMeta, Instruction},
    program_error::ProgramError,
    program_pack::Pack,
    pubkey::Pubkey,
    system_instruction, system_program,
};
use anchor_lang::{Discriminator, InstructionData, ToAccountMetas};
use gmsol_model::PoolKind;
use gmsol_store::states::{
    common::action::ActionHeader, Market, Oracle, Position, PriceFeed, PriceFeedPrice,
    PriceProviderKind, Store, UpdateTokenConfigParams,
};
use gmsol_store::{accounts as acc, instruction as ixd};
use std::collections::BTreeMap;

pub const PID: Pubkey = gmsol_store::ID;
pub const LONG_DECIMALS: u8 = 9;
pub const SHORT_DECIMALS: u8 = 6;
pub const INDEX_DECIMALS: u8 = 8;
/// Decimals of the prices written into the custom feeds.
pub const FEED_DECIMALS: u8 = 8;
pub const HEARTBEAT: u32 = 120;
pub const USD: u128 = 100_000_000_000_000_000_000;
pub const EXEC_LAMPORTS: u64 = 1_000_000;
pub const N_USERS: usize = 3;

pub const ROLES: &[&str] = &[
    "MARKET_KEEPER",
    "ORDER_KEEPER",
    "ORACLE_CONTROLLER",
    "PRICE_KEEPER",
    "CONFIG_KEEPER",
    "FEATURE_KEEPER",
    "GT_CONTROLLER",
    "MARKET_CONFIG_KEEPER",
];

#[derive(Clone, Debug)]
pub struct MarketInfo {
    pub token: Pubkey,
    pub market: Pubkey,
    pub index: Pubkey,
    pub long: Pubkey,
    pub short: Pubkey,
}

impl MarketInfo {
    pub fn is_pure(&self) -> bool {
        self.long == self.short
    }
}

/// Recorded balances and pool amounts of one market (per token side; for a pure market the two
/// sides are summed into `long`).
#[derive(Clone, Debug, Default, PartialEq, Eq)]
pub struct MarketBalances {
    pub recorded_long: u128,
    pub recorded_short: u128,
    pub min_long: u128,
    pub min_short: u128,
    pub collateral_long: u128,
    pub collateral_short: u128,
    pub liquidity_long: u128,
    pub liquidity_short: u128,
    pub claimable_fee_long: u128,
    pub claimable_fee_short: u128,
    pub swap_impact_long: u128,
    pub swap_impact_short: u128,
}

#[derive(Clone)]
pub struct World {
    pub vm: Svm,
    pub sys: Sysvars,
    pub admin: Pubkey,
    pub keeper: Pubkey,
    pub keeper2: Pubkey,
    pub stranger: Pubkey,
    pub store: Pubkey,
    pub store_wallet: Pubkey,
    pub event_authority: Pubkey,
    pub token_map: Pubkey,
    pub oracle: Pubkey,
    pub long_mint: Pubkey,
    pub short_mint: Pubkey,
    pub index_token: Pubkey,
    pub index_token2: Pubkey,
    /// token -> (feed account, price in FEED_DECIMALS, spread in 1/10000)
    pub feeds: BTreeMap<Pubkey, Pubkey>,
    pub prices: BTreeMap<Pubkey, (u128, u128)>,
    pub markets: Vec<MarketInfo>,
    pub users: Vec<Pubkey>,
    pub trade_event: Pubkey,
    pub nonce: u64,
}

pub fn ix(accounts: impl ToAccountMetas, data: impl InstructionData, remaining: Vec<AccountMeta>) -> Instruction {
    let mut metas = accounts.to_account_metas(None);
    metas.extend(remaining);
    // The first signer of an instruction is the transaction fee payer in our one-instruction
    // transactions, and the runtime always loads the fee payer writable (several keeper
    // instructions pay the execution fee to an `authority` that is not declared `mut`).
    if let Some(m) = metas.iter_mut().find(|m| m.is_signer) {
        m.is_writable = true;
    }
    Instruction { program_id: PID, accounts: metas, data: data.data() }
}

pub fn ata(owner: &Pubkey, mint: &Pubkey) -> Pubkey {
    spl_associated_token_account::get_associated_token_address(owner, mint)
}

pub fn vault_of(store: &Pubkey, mint: &Pubkey) -> Pubkey {
    Pubkey::find_program_address(&[b"market_vault", store.as_ref(), mint.as_ref()], &PID).0
}

pub fn token_amount(vm: &Svm, account: &Pubkey) -> u64 {
    let d = vm.data(account);
    if d.len() < 72 {
        return 0;
    }
    u64::from_le_bytes(d[64..72].try_into().unwrap())
}

pub fn mint_supply(vm: &Svm, mint: &Pubkey) -> u64 {
    let d = vm.data(mint);
    if d.len() < 44 {
        return 0;
    }
    u64::from_le_bytes(d[36..44].try_into().unwrap())
}

pub fn lamports(vm: &Svm, key: &Pubkey) -> u64 {
    vm.get(key).map(|a| a.lamports).unwrap_or(0)
}

pub fn code(e: &ProgramError) -> u32 {
    match e {
        ProgramError::Custom(c) => *c,
        _ => u32::MAX,
    }
}

pub fn nonce_bytes(n: u64) -> [u8; 32] {
    let mut out = [0u8; 32];
    out[..8].copy_from_slice(&n.to_le_bytes());
    out[8] = 0x77;
    out
}

/// Action state byte of any action account (Deposit/Withdrawal/Shift/Order): 0 pending, 1 completed,
/// 2 cancelled; `None` if the account does not exist.
pub fn action_state(vm: &Svm, action: &Pubkey) -> Option<u8> {
    let d = vm.data(action);
    if d.len() < 10 {
        None
    } else {
        Some(d[9])
    }
}

pub fn action_header(vm: &Svm, action: &Pubkey) -> Option<ActionHeader> {
    svm::read_zero_copy::<ActionHeader>(vm.data(action))
}

fn must(vm: &mut Svm, what: &str, i: &Instruction) -> Result<(), String> {
    vm.process(i).map_err(|e| {
        let logs = svm::take_logs();
        format!("world setup: {what} failed: {e:?} {}", logs.iter().rev().take(6).cloned().collect::<Vec<_>>().join(" | "))
    })
}

impl World {
    pub fn user(&self, i: usize) -> Pubkey {
        self.users[i % self.users.len()]
    }

    pub fn next_nonce(&mut self) -> [u8; 32] {
        self.nonce += 1;
        nonce_bytes(self.nonce)
    }

    pub fn set_clock(&mut self, slot: u64, ts: i64) {
        self.sys.slot = slot;
        self.sys.unix_timestamp = ts;
        svm::set_sysvars(self.sys);
    }

    pub fn advance(&mut self, secs: i64) {
        self.sys.slot += (secs.max(0) as u64) * 2 + 1;
        self.sys.unix_timestamp += secs;
        svm::set_sysvars(self.sys);
    }

    /// Make the thread-local sysvars agree with this world (needed after cloning a cached world).
    pub fn activate(&self) {
        svm::init();
        svm::set_sysvars(self.sys);
        svm::take_events();
    }

    /// Build the whole world by executing the real instructions.
    pub fn build() -> Result<World, String> {
        let mut vm = Svm::new();
        let sys = Sysvars { slot: 1000, unix_timestamp: 1_700_000_000, last_restart_slot: 0 };
        svm::set_sysvars(sys);
        let admin = svm::key_of("w2-admin");
        let keeper = svm::key_of("w2-keeper");
        let keeper2 = svm::key_of("w2-keeper2");
        let stranger = svm::key_of("w2-stranger");
        for k in [admin, keeper, keeper2, stranger] {
            vm.fund(k, 1_000_000_000_000_000);
        }
        let (store, _) = Pubkey::find_program_address(&[b"data_store", &gmsol_utils::to_seed("")], &PID);
        let (store_wallet, _) = Pubkey::find_program_address(&[b"store_wallet", store.as_ref()], &PID);
        let (event_authority, _) = Pubkey::find_program_address(&[b"__event_authority"], &PID);
        must(
            &mut vm,
            "initialize",
            &ix(acc::Initialize { payer: admin, authority: None, receiver: None, holding: None, store, system_program: system_program::ID }, ixd::Initialize { key: String::new() }, vec![]),
        )?;
        for role in ROLES {
            must(&mut vm, "enable_role", &ix(acc::EnableRole { authority: admin, store }, ixd::EnableRole { role: role.to_string() }, vec![]))?;
            for k in [keeper, keeper2] {
                must(&mut vm, "grant_role", &ix(acc::GrantRole { authority: admin, store }, ixd::GrantRole { user: k, role: role.to_string() }, vec![]))?;
            }
        }
        // mints
        let long_mint = svm::key_of("w2-long-mint");
        let short_mint = svm::key_of("w2-short-mint");
        let index_token = svm::key_of("w2-index-token");
        let index_token2 = svm::key_of("w2-index-token-2");
        for (mint, dec) in [(long_mint, LONG_DECIMALS), (short_mint, SHORT_DECIMALS)] {
            let rent = 1_461_600;
            must(&mut vm, "create mint account", &system_instruction::create_account(&admin, &mint, rent, spl_token::state::Mint::LEN as u64, &spl_token::ID))?;
            let i = spl_token::instruction::initialize_mint2(&spl_token::ID, &mint, &admin, None, dec).map_err(|e| e.to_string())?;
            must(&mut vm, "initialize_mint2", &i)?;
        }
        // token map
        let token_map = svm::key_of("w2-token-map");
        let mut i = ix(acc::InitializeTokenMap { payer: keeper, store, token_map, system_program: system_program::ID }, ixd::InitializeTokenMap {}, vec![]);
        for m in i.accounts.iter_mut() {
            if m.pubkey == token_map {
                m.is_signer = true;
            }
        }
        must(&mut vm, "initialize_token_map", &i)?;
        must(&mut vm, "set_token_map", &ix(acc::SetTokenMap { authority: keeper, store, token_map }, ixd::SetTokenMap {}, vec![]))?;
        let feed_id = |token: &Pubkey| svm::key_of(&format!("w2-feed-id-{token}"));
        let params = |token: &Pubkey, precision: u8| -> UpdateTokenConfigParams {
            let mut p = UpdateTokenConfigParams::default();
            p.heartbeat_duration = HEARTBEAT;
            p.precision = precision;
            p.feeds[PriceProviderKind::ChainlinkDataStreams as usize] = feed_id(token);
            p.expected_provider = Some(PriceProviderKind::ChainlinkDataStreams as u8);
            p
        };
        must(
            &mut vm,
            "push_to_token_map long",
            &ix(
                acc::PushToTokenMap { authority: keeper, store, token_map, token: long_mint, system_program: system_program::ID },
                ixd::PushToTokenMap { name: "LONG".into(), builder: params(&long_mint, 4), enable: true, new: true },
                vec![],
            ),
        )?;
        must(
            &mut vm,
            "push_to_token_map short",
            &ix(
                acc::PushToTokenMap { authority: keeper, store, token_map, token: short_mint, system_program: system_program::ID },
                ixd::PushToTokenMap { name: "SHORT".into(), builder: params(&short_mint, 6), enable: true, new: true },
                vec![],
            ),
        )?;
        for (name, token) in [("INDEX", index_token), ("INDEX2", index_token2)] {
            must(
                &mut vm,
                "push_to_token_map_synthetic",
                &ix(
                    acc::PushToTokenMapSynthetic { authority: keeper, store, token_map, system_program: system_program::ID },
                    ixd::PushToTokenMapSynthetic { name: name.into(), token, token_decimals: INDEX_DECIMALS, builder: params(&token, 4), enable: true, new: true },
                    vec![],
                ),
            )?;
        }
        // oracle buffer (large account: created by a top-level system instruction, like a client does)
        let oracle = svm::key_of("w2-oracle");
        let space = 8 + std::mem::size_of::<Oracle>();
        must(&mut vm, "create oracle account", &system_instruction::create_account(&keeper, &oracle, 1_000_000_000, space as u64, &PID))?;
        must(
            &mut vm,
            "initialize_oracle",
            &ix(acc::InitializeOracle { payer: keeper, authority: keeper, store, oracle, system_program: system_program::ID }, ixd::InitializeOracle {}, vec![]),
        )?;
        // custom price feeds
        let mut feeds = BTreeMap::new();
        for token in [long_mint, short_mint, index_token, index_token2] {
            let provider = PriceProviderKind::ChainlinkDataStreams as u8;
            let index = 0u16;
            let (price_feed, _) = Pubkey::find_program_address(&[b"price_feed", store.as_ref(), keeper.as_ref(), &index.to_le_bytes(), &[provider], token.as_ref()], &PID);
            must(
                &mut vm,
                "initialize_price_feed",
                &ix(
                    acc::InitializePriceFeed { authority: keeper, store, price_feed, system_program: system_program::ID },
                    ixd::InitializePriceFeed { index, provider, token, feed_id: feed_id(&token) },
                    vec![],
                ),
            )?;
            feeds.insert(token, price_feed);
        }
        // vaults
        for mint in [long_mint, short_mint] {
            must(
                &mut vm,
                "initialize_market_vault",
                &ix(
                    acc::InitializeMarketVault { authority: keeper, store, mint, vault: vault_of(&store, &mint), system_program: system_program::ID, token_program: spl_token::ID },
                    ixd::InitializeMarketVault {},
                    vec![],
                ),
            )?;
        }
        let mut w = World {
            vm,
            sys,
            admin,
            keeper,
            keeper2,
            stranger,
            store,
            store_wallet,
            event_authority,
            token_map,
            oracle,
            long_mint,
            short_mint,
            index_token,
            index_token2,
            feeds,
            prices: BTreeMap::new(),
            markets: vec![],
            users: vec![],
            trade_event: Pubkey::default(),
            nonce: 0,
        };
        // markets 0..3 share both vaults (long/short pool tokens, different index tokens);
        // 4 = pure short/short, 5 = pure long/long (share one vault each with the others)
        for (name, index, long, short) in [
            ("M0", index_token, long_mint, short_mint),
            ("M1", long_mint, long_mint, short_mint),
            ("M2", index_token2, long_mint, short_mint),
            ("M3", short_mint, long_mint, short_mint),
            ("M4", index_token, short_mint, short_mint),
            ("M5", long_mint, long_mint, long_mint),
        ] {
            w.create_market(name, index, long, short)?;
        }
        // prices
        w.prices.insert(long_mint, (100 * 10u128.pow(FEED_DECIMALS as u32), 0));
        w.prices.insert(short_mint, (10u128.pow(FEED_DECIMALS as u32), 0));
        w.prices.insert(index_token, (2000 * 10u128.pow(FEED_DECIMALS as u32), 0));
        w.prices.insert(index_token2, (50 * 10u128.pow(FEED_DECIMALS as u32), 0));
        w.refresh_prices()?;
        // users
        for u in 0..N_USERS {
            let user = svm::key_of(&format!("w2-user-{u}"));
            w.vm.fund(user, 1_000_000_000_000);
            w.users.push(user);
            for (mint, amount) in [(long_mint, 1_000_000u64 * 10u64.pow(LONG_DECIMALS as u32)), (short_mint, 100_000_000u64 * 10u64.pow(SHORT_DECIMALS as u32))] {
                let i = spl_associated_token_account::instruction::create_associated_token_account(&user, &user, &mint, &spl_token::ID);
                must(&mut w.vm, "create user ATA", &i)?;
                let i = spl_token::instruction::mint_to(&spl_token::ID, &mint, &ata(&user, &mint), &admin, &[], amount).map_err(|e| e.to_string())?;
                must(&mut w.vm, "mint_to", &i)?;
            }
            let (user_acc, _) = Pubkey::find_program_address(&[b"user", store.as_ref(), user.as_ref()], &PID);
            must(&mut w.vm, "prepare_user", &ix(acc::PrepareUser { owner: user, store, user: user_acc, system_program: system_program::ID }, ixd::PrepareUser {}, vec![]))?;
        }
        // receiver (admin) token accounts for fee claims and keeper token accounts for market_transfer_in
        for (owner, payer) in [(admin, admin), (keeper, keeper)] {
            for mint in [long_mint, short_mint] {
                let i = spl_associated_token_account::instruction::create_associated_token_account(&payer, &owner, &mint, &spl_token::ID);
                must(&mut w.vm, "create ATA", &i)?;
            }
        }
        for (mint, amount) in [(long_mint, 1_000_000u64 * 10u64.pow(LONG_DECIMALS as u32)), (short_mint, 100_000_000u64 * 10u64.pow(SHORT_DECIMALS as u32))] {
            let i = spl_token::instruction::mint_to(&spl_token::ID, &mint, &ata(&keeper, &mint), &admin, &[], amount).map_err(|e| e.to_string())?;
            must(&mut w.vm, "mint_to keeper", &i)?;
        }
        // trade event buffers of the keepers
        let index = 0u16;
        for k in [keeper2, keeper] {
            let event = w.trade_event_of(&k);
            must(
                &mut w.vm,
                "prepare_trade_event_buffer",
                &ix(acc::PrepareTradeEventBuffer { authority: k, store, event, system_program: system_program::ID }, ixd::PrepareTradeEventBuffer { index }, vec![]),
            )?;
        }
        let event = w.trade_event_of(&keeper);
        w.trade_event = event;
        svm::take_events();
        Ok(w)
    }

    /// `build()` plus seed liquidity in every market (deposits by user 2 through the real
    /// create/execute/close instructions): $500k per side in the four long/short markets, $500k in
    /// each single-token market.
    pub fn build_seeded() -> Result<World, String> {
        let mut w = World::build()?;
        let lp = w.user(2);
        let keeper = w.keeper;
        for m in 0..w.markets.len() {
            let (l, s) = (w.markets[m].long, w.markets[m].short);
            let unit = |t: &Pubkey| if *t == w.long_mint { 5_000u64 * 10u64.pow(LONG_DECIMALS as u32) } else { 500_000u64 * 10u64.pow(SHORT_DECIMALS as u32) };
            let r = if l == s { let a = unit(&l); w.deposit_ref(lp, m, Some(l), None, a, 0) } else { let (a, b) = (unit(&l), unit(&s)); w.deposit_ref(lp, m, Some(l), Some(s), a, b) };
            for i in w.ixs_prepare_deposit(&r) {
                must(&mut w.vm, "seed: prepare escrow", &i)?;
            }
            let i = w.ix_create_deposit(&r);
            must(&mut w.vm, "seed: create_deposit", &i)?;
            w.advance(1);
            w.refresh_prices()?;
            let i = w.ix_execute_deposit(&r, keeper, 0, true);
            must(&mut w.vm, "seed: execute_deposit", &i)?;
            let i = w.ix_close_deposit(&r, lp);
            must(&mut w.vm, "seed: close_deposit", &i)?;
        }
        svm::take_events();
        Ok(w)
    }

    /// A clone of the cached seeded world (built once per process; deterministic).
    pub fn seeded() -> Result<World, String> {
        static CACHE: std::sync::OnceLock<Result<World, String>> = std::sync::OnceLock::new();
        let w = CACHE.get_or_init(World::build_seeded).clone()?;
        w.activate();
        Ok(w)
    }

    fn create_market(&mut self, name: &str, index: Pubkey, long: Pubkey, short: Pubkey) -> Result<(), String> {
        let store = self.store;
        let (market_token, _) = Pubkey::find_program_address(&[b"market_token_mint", store.as_ref(), index.as_ref(), long.as_ref(), short.as_ref()], &PID);
        let (market, _) = Pubkey::find_program_address(&[b"market", store.as_ref(), market_token.as_ref()], &PID);
        must(
            &mut self.vm,
            "initialize_market",
            &ix(
                acc::InitializeMarket {
                    authority: self.keeper,
                    store,
                    market_token_mint: market_token,
                    long_token_mint: long,
                    short_token_mint: short,
                    market,
                    token_map: self.token_map,
                    long_token_vault: vault_of(&store, &long),
                    short_token_vault: vault_of(&store, &short),
                    system_program: system_program::ID,
                    token_program: spl_token::ID,
                },
                ixd::InitializeMarket { index_token_mint: index, name: name.to_string(), enable: true },
                vec![],
            ),
        )?;
        must(
            &mut self.vm,
            "initialize_market_vault (market token)",
            &ix(
                acc::InitializeMarketVault { authority: self.keeper, store, mint: market_token, vault: vault_of(&store, &market_token), system_program: system_program::ID, token_program: spl_token::ID },
                ixd::InitializeMarketVault {},
                vec![],
            ),
        )?;
        let big_amount: u128 = 1_000_000_000_000_000_000;
        for (key, value) in [
            ("max_pool_amount_for_long_token", big_amount),
            ("max_pool_amount_for_short_token", big_amount),
            ("max_pool_value_for_deposit_for_long_token", 1_000_000_000 * USD),
            ("max_pool_value_for_deposit_for_short_token", 1_000_000_000 * USD),
            ("max_open_interest_for_long", 1_000_000_000 * USD),
            ("max_open_interest_for_short", 1_000_000_000 * USD),
            ("swap_fee_factor_for_positive_impact", USD / 2000),
            ("swap_fee_factor_for_negative_impact", USD / 1000),
            ("swap_impact_positive_factor", USD / 100_000_000_000),
            ("swap_impact_negative_factor", USD / 50_000_000_000),
            ("swap_impact_exponent", 2 * USD),
        ] {
            self.set_market_config(&market, key, value)?;
        }
        self.markets.push(MarketInfo { token: market_token, market, index, long, short });
        Ok(())
    }

    pub fn set_market_config(&mut self, market: &Pubkey, key: &str, value: u128) -> Result<(), String> {
        let i = ix(acc::UpdateMarketConfig { authority: self.keeper, store: self.store, market: *market }, ixd::UpdateMarketConfig { key: key.to_string(), value }, vec![]);
        must(&mut self.vm, &format!("update_market_config {key}"), &i)
    }

    /// Write fresh prices (timestamp = now, published at the current slot) into every custom feed.
    pub fn refresh_prices(&mut self) -> Result<(), String> {
        let tokens: Vec<Pubkey> = self.feeds.keys().copied().collect();
        for t in tokens {
            self.write_feed(&t, self.sys.unix_timestamp)?;
        }
        Ok(())
    }

    /// Write the current model price of `token` into its feed with the given price timestamp.
    pub fn write_feed(&mut self, token: &Pubkey, ts: i64) -> Result<(), String> {
        let feed_key = self.feeds[token];
        let (mid, spread_bps) = self.prices[token];
        let d = mid * spread_bps / 10_000;
        let (min, max) = (mid - d, mid + d);
        let a = self.vm.get(&feed_key).cloned().ok_or("feed account missing")?;
        let mut feed: PriceFeed = svm::read_zero_copy(&a.data).ok_or("feed account too small")?;
        let mut p = PriceFeedPrice::new(FEED_DECIMALS, ts, mid, min, max, 0);
        p.set_flag(gmsol_utils::price::PriceFlag::Open, true);
        gmsol_store::verif::price_feed_update(&mut feed, &p, 0, false).map_err(|e| format!("price_feed_update: {e}"))?;
        let mut data = PriceFeed::DISCRIMINATOR.to_vec();
        data.extend_from_slice(bytemuck::bytes_of(&feed));
        self.vm.set_account(feed_key, Acct { data, ..a });
        Ok(())
    }

    pub fn set_price(&mut self, token: &Pubkey, mid: u128, spread_bps: u128) {
        self.prices.insert(*token, (mid, spread_bps));
    }

    pub fn market_state(&self, m: usize) -> Market {
        svm::read_zero_copy::<Market>(self.vm.data(&self.markets[m].market)).expect("market account")
    }

    /// Recorded balances and pool amounts of market `m`.
    pub fn balances(&self, m: usize) -> MarketBalances {
        use gmsol_model::Balance;
        let mk = self.market_state(m);
        let pure = self.markets[m].is_pure();
        let side = |kind: PoolKind| -> (u128, u128) {
            match mk.pool(kind) {
                Some(p) => {
                    let (l, s) = (p.long_amount().unwrap_or(0), p.short_amount().unwrap_or(0));
                    if pure {
                        (l + s, 0)
                    } else {
                        (l, s)
                    }
                }
                None => (0, 0),
            }
        };
        let liq = side(PoolKind::Primary);
        let imp = side(PoolKind::SwapImpact);
        let fee = side(PoolKind::ClaimableFee);
        let cl = side(PoolKind::CollateralSumForLong);
        let cs = side(PoolKind::CollateralSumForShort);
        let (rl, rs) = if pure {
            (mk.state().long_token_balance_raw() as u128, 0)
        } else {
            (mk.state().long_token_balance_raw() as u128, mk.state().short_token_balance_raw() as u128)
        };
        MarketBalances {
            recorded_long: rl,
            recorded_short: rs,
            min_long: liq.0 + imp.0 + fee.0,
            min_short: liq.1 + imp.1 + fee.1,
            collateral_long: cl.0 + cs.0,
            collateral_short: cl.1 + cs.1,
            liquidity_long: liq.0,
            liquidity_short: liq.1,
            claimable_fee_long: fee.0,
            claimable_fee_short: fee.1,
            swap_impact_long: imp.0,
            swap_impact_short: imp.1,
        }
    }

    /// The C22 invariant: `Err` describes the first violation.
    pub fn check_solvency(&self) -> Result<(), String> {
        let mut per_vault: BTreeMap<Pubkey, u128> = BTreeMap::new();
        for (m, info) in self.markets.iter().enumerate() {
            let b = self.balances(m);
            if b.recorded_long < b.min_long {
                return Err(format!("market {m}: recorded long-token balance {} < liquidity {} + swap impact {} + claimable fee {}", b.recorded_long, b.liquidity_long, b.swap_impact_long, b.claimable_fee_long));
            }
            if b.recorded_short < b.min_short {
                return Err(format!("market {m}: recorded short-token balance {} < liquidity {} + swap impact {} + claimable fee {}", b.recorded_short, b.liquidity_short, b.swap_impact_short, b.claimable_fee_short));
            }
            if b.recorded_long < b.collateral_long {
                return Err(format!("market {m}: recorded long-token balance {} < total collateral {}", b.recorded_long, b.collateral_long));
            }
            if b.recorded_short < b.collateral_short {
                return Err(format!("market {m}: recorded short-token balance {} < total collateral {}", b.recorded_short, b.collateral_short));
            }
            *per_vault.entry(info.long).or_default() += b.recorded_long;
            if !info.is_pure() {
                *per_vault.entry(info.short).or_default() += b.recorded_short;
            }
        }
        for (mint, sum) in per_vault {
            let actual = token_amount(&self.vm, &vault_of(&self.store, &mint)) as u128;
            if sum > actual {
                return Err(format!("vault of mint {mint}: recorded balances of its markets sum to {sum} > token account amount {actual}"));
            }
        }
        Ok(())
    }

    // ------------------------------------------------------------------------------ common metas

    pub fn market_meta(&self, token: &Pubkey, writable: bool) -> AccountMeta {
        let (market, _) = Pubkey::find_program_address(&[b"market", self.store.as_ref(), token.as_ref()], &PID);
        AccountMeta { pubkey: market, is_signer: false, is_writable: writable }
    }

    pub fn market_by_token(&self, token: &Pubkey) -> Option<usize> {
        self.markets.iter().position(|m| m.token == *token)
    }

    /// Remaining accounts for an execute instruction: feeds for the sorted token set of the current
    /// market plus the path markets, then the unique path markets excluding the current one.
    pub fn execute_remaining(&self, current: usize, paths: &[&[usize]]) -> Vec<AccountMeta> {
        let mut tokens = std::collections::BTreeSet::new();
        let cur = &self.markets[current];
        tokens.extend([cur.index, cur.long, cur.short]);
        let mut uniq: Vec<usize> = vec![];
        for p in paths {
            for m in p.iter() {
                let mi = &self.markets[*m];
                tokens.extend([mi.index, mi.long, mi.short]);
                if *m != current && !uniq.contains(m) {
                    uniq.push(*m);
                }
            }
        }
        let mut out: Vec<AccountMeta> = tokens.iter().map(|t| AccountMeta { pubkey: self.feeds[t], is_signer: false, is_writable: false }).collect();
        out.extend(uniq.iter().map(|m| AccountMeta { pubkey: self.markets[*m].market, is_signer: false, is_writable: true }));
        out
    }

    pub fn path_metas(&self, path: &[usize]) -> Vec<AccountMeta> {
        path.iter().map(|m| AccountMeta { pubkey: self.markets[*m].market, is_signer: false, is_writable: false }).collect()
    }

    /// Create (idempotently) the ATA of `owner` for `mint` through the store's own instruction.
    pub fn ix_prepare_ata(&self, payer: Pubkey, owner: Pubkey, mint: Pubkey) -> Instruction {
        ix(
            acc::PrepareAssociatedTokenAccount {
                payer,
                owner,
                mint,
                account: ata(&owner, &mint),
                system_program: system_program::ID,
                token_program: spl_token::ID,
                associated_token_program: spl_associated_token_account::ID,
            },
            ixd::PrepareAssociatedTokenAccount {},
            vec![],
        )
    }
}

// =============================================================================================
// Deposits
// =============================================================================================

#[derive(Clone, Debug)]
pub struct DepositRef {
    pub owner: Pubkey,
    pub receiver: Pubkey,
    pub market: usize,
    pub deposit: Pubkey,
    pub nonce: [u8; 32],
    pub long_token: Option<Pubkey>,
    pub short_token: Option<Pubkey>,
    pub long_path: Vec<usize>,
    pub short_path: Vec<usize>,
    pub long_amount: u64,
    pub short_amount: u64,
    pub min_out: u64,
    pub execution_lamports: u64,
}

impl World {
    pub fn deposit_ref(&mut self, owner: Pubkey, market: usize, long_token: Option<Pubkey>, short_token: Option<Pubkey>, long_amount: u64, short_amount: u64) -> DepositRef {
        let nonce = self.next_nonce();
        let (deposit, _) = Pubkey::find_program_address(&[b"deposit", self.store.as_ref(), owner.as_ref(), &nonce], &PID);
        DepositRef { owner, receiver: owner, market, deposit, nonce, long_token, short_token, long_path: vec![], short_path: vec![], long_amount, short_amount, min_out: 0, execution_lamports: EXEC_LAMPORTS }
    }

    /// Escrow ATAs a deposit needs (created through `prepare_associated_token_account`).
    pub fn ixs_prepare_deposit(&self, r: &DepositRef) -> Vec<Instruction> {
        let mut out = vec![self.ix_prepare_ata(r.owner, r.deposit, self.markets[r.market].token)];
        for t in [r.long_token, r.short_token].into_iter().flatten() {
            out.push(self.ix_prepare_ata(r.owner, r.deposit, t));
        }
        out
    }

    pub fn ix_create_deposit(&self, r: &DepositRef) -> Instruction {
        let m = &self.markets[r.market];
        let mut remaining = self.path_metas(&r.long_path);
        remaining.extend(self.path_metas(&r.short_path));
        ix(
            acc::CreateDeposit {
                owner: r.owner,
                receiver: r.receiver,
                store: self.store,
                market: m.market,
                deposit: r.deposit,
                market_token: m.token,
                initial_long_token: r.long_token,
                initial_short_token: r.short_token,
                market_token_escrow: ata(&r.deposit, &m.token),
                initial_long_token_escrow: r.long_token.map(|t| ata(&r.deposit, &t)),
                initial_short_token_escrow: r.short_token.map(|t| ata(&r.deposit, &t)),
                market_token_ata: ata(&r.receiver, &m.token),
                initial_long_token_source: r.long_token.map(|t| ata(&r.owner, &t)),
                initial_short_token_source: r.short_token.map(|t| ata(&r.owner, &t)),
                system_program: system_program::ID,
                token_program: spl_token::ID,
                associated_token_program: spl_associated_token_account::ID,
            },
            ixd::CreateDeposit {
                nonce: r.nonce,
                params: gmsol_store::ops::deposit::CreateDepositParams {
                    execution_lamports: r.execution_lamports,
                    long_token_swap_length: r.long_path.len() as u8,
                    short_token_swap_length: r.short_path.len() as u8,
                    initial_long_token_amount: r.long_amount,
                    initial_short_token_amount: r.short_amount,
                    min_market_token_amount: r.min_out,
                    should_unwrap_native_token: false,
                },
            },
            remaining,
        )
    }

    pub fn ix_execute_deposit(&self, r: &DepositRef, authority: Pubkey, execution_fee: u64, throw_on_execution_error: bool) -> Instruction {
        let m = &self.markets[r.market];
        ix(
            acc::ExecuteDeposit {
                authority,
                store: self.store,
                token_map: self.token_map,
                oracle: self.oracle,
                market: m.market,
                deposit: r.deposit,
                market_token: m.token,
                initial_long_token: r.long_token,
                initial_short_token: r.short_token,
                market_token_escrow: ata(&r.deposit, &m.token),
                initial_long_token_escrow: r.long_token.map(|t| ata(&r.deposit, &t)),
                initial_short_token_escrow: r.short_token.map(|t| ata(&r.deposit, &t)),
                initial_long_token_vault: r.long_token.map(|t| vault_of(&self.store, &t)),
                initial_short_token_vault: r.short_token.map(|t| vault_of(&self.store, &t)),
                token_program: spl_token::ID,
                system_program: system_program::ID,
                chainlink_program: None,
                event_authority: self.event_authority,
                program: PID,
            },
            ixd::ExecuteDeposit { execution_fee, throw_on_execution_error },
            self.execute_remaining(r.market, &[&r.long_path, &r.short_path]),
        )
    }

    pub fn ix_close_deposit(&self, r: &DepositRef, executor: Pubkey) -> Instruction {
        let m = &self.markets[r.market];
        ix(
            acc::CloseDeposit {
                executor,
                store: self.store,
                store_wallet: self.store_wallet,
                owner: r.owner,
                receiver: r.receiver,
                market_token: m.token,
                initial_long_token: r.long_token,
                initial_short_token: r.short_token,
                deposit: r.deposit,
                market_token_escrow: ata(&r.deposit, &m.token),
                initial_long_token_escrow: r.long_token.map(|t| ata(&r.deposit, &t)),
                initial_short_token_escrow: r.short_token.map(|t| ata(&r.deposit, &t)),
                market_token_ata: ata(&r.receiver, &m.token),
                initial_long_token_ata: r.long_token.map(|t| ata(&r.owner, &t)),
                initial_short_token_ata: r.short_token.map(|t| ata(&r.owner, &t)),
                system_program: system_program::ID,
                token_program: spl_token::ID,
                associated_token_program: spl_associated_token_account::ID,
                event_authority: self.event_authority,
                program: PID,
            },
            ixd::CloseDeposit { reason: "test".into() },
            vec![],
        )
    }
}

// =============================================================================================
// Withdrawals
// =============================================================================================

#[derive(Clone, Debug)]
pub struct WithdrawalRef {
    pub owner: Pubkey,
    pub receiver: Pubkey,
    pub market: usize,
    pub withdrawal: Pubkey,
    pub nonce: [u8; 32],
    pub final_long_token: Pubkey,
    pub final_short_token: Pubkey,
    pub long_path: Vec<usize>,
    pub short_path: Vec<usize>,
    pub amount: u64,
    pub min_long: u64,
    pub min_short: u64,
    pub execution_lamports: u64,
}

impl World {
    pub fn withdrawal_ref(&mut self, owner: Pubkey, market: usize, amount: u64) -> WithdrawalRef {
        let nonce = self.next_nonce();
        let (withdrawal, _) = Pubkey::find_program_address(&[b"withdrawal", self.store.as_ref(), owner.as_ref(), &nonce], &PID);
        let m = &self.markets[market];
        WithdrawalRef {
            owner,
            receiver: owner,
            market,
            withdrawal,
            nonce,
            final_long_token: m.long,
            final_short_token: m.short,
            long_path: vec![],
            short_path: vec![],
            amount,
            min_long: 0,
            min_short: 0,
            execution_lamports: EXEC_LAMPORTS,
        }
    }

    pub fn ixs_prepare_withdrawal(&self, r: &WithdrawalRef) -> Vec<Instruction> {
        let mut out = vec![self.ix_prepare_ata(r.owner, r.withdrawal, self.markets[r.market].token), self.ix_prepare_ata(r.owner, r.withdrawal, r.final_long_token)];
        if r.final_short_token != r.final_long_token {
            out.push(self.ix_prepare_ata(r.owner, r.withdrawal, r.final_short_token));
        }
        out
    }

    pub fn ix_create_withdrawal(&self, r: &WithdrawalRef) -> Instruction {
        let m = &self.markets[r.market];
        let mut remaining = self.path_metas(&r.long_path);
        remaining.extend(self.path_metas(&r.short_path));
        ix(
            acc::CreateWithdrawal {
                owner: r.owner,
                receiver: r.receiver,
                store: self.store,
                market: m.market,
                withdrawal: r.withdrawal,
                market_token: m.token,
                final_long_token: r.final_long_token,
                final_short_token: r.final_short_token,
                market_token_escrow: ata(&r.withdrawal, &m.token),
                final_long_token_escrow: ata(&r.withdrawal, &r.final_long_token),
                final_short_token_escrow: ata(&r.withdrawal, &r.final_short_token),
                market_token_source: ata(&r.owner, &m.token),
                system_program: system_program::ID,
                token_program: spl_token::ID,
                associated_token_program: spl_associated_token_account::ID,
            },
            ixd::CreateWithdrawal {
                nonce: r.nonce,
                params: gmsol_store::ops::withdrawal::CreateWithdrawalParams {
                    execution_lamports: r.execution_lamports,
                    long_token_swap_path_length: r.long_path.len() as u8,
                    short_token_swap_path_length: r.short_path.len() as u8,
                    market_token_amount: r.amount,
                    min_long_token_amount: r.min_long,
                    min_short_token_amount: r.min_short,
                    should_unwrap_native_token: false,
                },
            },
            remaining,
        )
    }

    pub fn ix_execute_withdrawal(&self, r: &WithdrawalRef, authority: Pubkey, execution_fee: u64, throw_on_execution_error: bool) -> Instruction {
        let m = &self.markets[r.market];
        ix(
            acc::ExecuteWithdrawal {
                authority,
                store: self.store,
                token_map: self.token_map,
                oracle: self.oracle,
                market: m.market,
                withdrawal: r.withdrawal,
                market_token: m.token,
                final_long_token: r.final_long_token,
                final_short_token: r.final_short_token,
                market_token_escrow: ata(&r.withdrawal, &m.token),
                final_long_token_escrow: ata(&r.withdrawal, &r.final_long_token),
                final_short_token_escrow: ata(&r.withdrawal, &r.final_short_token),
                market_token_vault: vault_of(&self.store, &m.token),
                final_long_token_vault: vault_of(&self.store, &r.final_long_token),
                final_short_token_vault: vault_of(&self.store, &r.final_short_token),
                token_program: spl_token::ID,
                system_program: system_program::ID,
                chainlink_program: None,
                event_authority: self.event_authority,
                program: PID,
            },
            ixd::ExecuteWithdrawal { execution_fee, throw_on_execution_error },
            self.execute_remaining(r.market, &[&r.long_path, &r.short_path]),
        )
    }

    pub fn ix_close_withdrawal(&self, r: &WithdrawalRef, executor: Pubkey) -> Instruction {
        let m = &self.markets[r.market];
        ix(
            acc::CloseWithdrawal {
                executor,
                store: self.store,
                store_wallet: self.store_wallet,
                owner: r.owner,
                receiver: r.receiver,
                market_token: m.token,
                final_long_token: r.final_long_token,
                final_short_token: r.final_short_token,
                withdrawal: r.withdrawal,
                market_token_escrow: ata(&r.withdrawal, &m.token),
                final_long_token_escrow: ata(&r.withdrawal, &r.final_long_token),
                final_short_token_escrow: ata(&r.withdrawal, &r.final_short_token),
                market_token_ata: ata(&r.owner, &m.token),
                final_long_token_ata: ata(&r.receiver, &r.final_long_token),
                final_short_token_ata: ata(&r.receiver, &r.final_short_token),
                system_program: system_program::ID,
                token_program: spl_token::ID,
                associated_token_program: spl_associated_token_account::ID,
                event_authority: self.event_authority,
                program: PID,
            },
            ixd::CloseWithdrawal { reason: "test".into() },
            vec![],
        )
    }
}

// =============================================================================================
// Shifts
// =============================================================================================

#[derive(Clone, Debug)]
pub struct ShiftRef {
    pub owner: Pubkey,
    pub receiver: Pubkey,
    pub from: usize,
    pub to: usize,
    pub shift: Pubkey,
    pub nonce: [u8; 32],
    pub amount: u64,
    pub min_out: u64,
    pub execution_lamports: u64,
}

impl World {
    pub fn shift_ref(&mut self, owner: Pubkey, from: usize, to: usize, amount: u64) -> ShiftRef {
        let nonce = self.next_nonce();
        let (shift, _) = Pubkey::find_program_address(&[b"shift", self.store.as_ref(), owner.as_ref(), &nonce], &PID);
        ShiftRef { owner, receiver: owner, from, to, shift, nonce, amount, min_out: 0, execution_lamports: EXEC_LAMPORTS }
    }

    pub fn ixs_prepare_shift(&self, r: &ShiftRef) -> Vec<Instruction> {
        vec![
            self.ix_prepare_ata(r.owner, r.shift, self.markets[r.from].token),
            self.ix_prepare_ata(r.owner, r.shift, self.markets[r.to].token),
            self.ix_prepare_ata(r.owner, r.receiver, self.markets[r.to].token),
        ]
    }

    pub fn ix_create_shift(&self, r: &ShiftRef) -> Instruction {
        let (f, t) = (&self.markets[r.from], &self.markets[r.to]);
        ix(
            acc::CreateShift {
                owner: r.owner,
                receiver: r.receiver,
                store: self.store,
                from_market: f.market,
                to_market: t.market,
                shift: r.shift,
                from_market_token: f.token,
                to_market_token: t.token,
                from_market_token_escrow: ata(&r.shift, &f.token),
                to_market_token_escrow: ata(&r.shift, &t.token),
                from_market_token_source: ata(&r.owner, &f.token),
                to_market_token_ata: ata(&r.receiver, &t.token),
                system_program: system_program::ID,
                token_program: spl_token::ID,
                associated_token_program: spl_associated_token_account::ID,
            },
            ixd::CreateShift {
                nonce: r.nonce,
                params: gmsol_store::ops::shift::CreateShiftParams { execution_lamports: r.execution_lamports, from_market_token_amount: r.amount, min_to_market_token_amount: r.min_out },
            },
            vec![],
        )
    }

    pub fn ix_execute_shift(&self, r: &ShiftRef, authority: Pubkey, execution_lamports: u64, throw_on_execution_error: bool) -> Instruction {
        let (f, t) = (&self.markets[r.from], &self.markets[r.to]);
        let tokens: std::collections::BTreeSet<Pubkey> = [f.index, f.long, f.short, t.index, t.long, t.short].into_iter().collect();
        let remaining = tokens.iter().map(|t| AccountMeta { pubkey: self.feeds[t], is_signer: false, is_writable: false }).collect();
        ix(
            acc::ExecuteShift {
                authority,
                store: self.store,
                token_map: self.token_map,
                oracle: self.oracle,
                from_market: f.market,
                to_market: t.market,
                shift: r.shift,
                from_market_token: f.token,
                to_market_token: t.token,
                from_market_token_escrow: ata(&r.shift, &f.token),
                to_market_token_escrow: ata(&r.shift, &t.token),
                from_market_token_vault: vault_of(&self.store, &f.token),
                token_program: spl_token::ID,
                chainlink_program: None,
                event_authority: self.event_authority,
                program: PID,
            },
            ixd::ExecuteShift { execution_lamports, throw_on_execution_error },
            remaining,
        )
    }

    pub fn ix_close_shift(&self, r: &ShiftRef, executor: Pubkey) -> Instruction {
        let (f, t) = (&self.markets[r.from], &self.markets[r.to]);
        ix(
            acc::CloseShift {
                executor,
                store: self.store,
                store_wallet: self.store_wallet,
                owner: r.owner,
                receiver: r.receiver,
                shift: r.shift,
                from_market_token: f.token,
                to_market_token: t.token,
                from_market_token_escrow: ata(&r.shift, &f.token),
                to_market_token_escrow: ata(&r.shift, &t.token),
                from_market_token_ata: ata(&r.owner, &f.token),
                to_market_token_ata: ata(&r.receiver, &t.token),
                system_program: system_program::ID,
                token_program: spl_token::ID,
                associated_token_program: spl_associated_token_account::ID,
                event_authority: self.event_authority,
                program: PID,
            },
            ixd::CloseShift { reason: "test".into() },
            vec![],
        )
    }
}

// =============================================================================================
// Orders
// =============================================================================================

pub use gmsol_utils::order::OrderKind;

#[derive(Clone, Debug)]
pub struct OrderRef {
    pub owner: Pubkey,
    pub receiver: Pubkey,
    pub rent_receiver: Pubkey,
    pub market: usize,
    pub order: Pubkey,
    pub nonce: [u8; 32],
    pub kind: OrderKind,
    pub position: Option<Pubkey>,
    /// Swap-in / pay token (swap and increase orders).
    pub initial_collateral_token: Option<Pubkey>,
    /// Swap-out token / collateral token (increase) / final output token (decrease).
    pub final_output_token: Pubkey,
    pub is_long: bool,
    pub is_collateral_long: bool,
    pub path: Vec<usize>,
    pub amount: u64,
    pub size: u128,
    pub min_output: Option<u128>,
    pub acceptable_price: Option<u128>,
    pub execution_lamports: u64,
}

impl OrderRef {
    pub fn is_swap(&self) -> bool {
        matches!(self.kind, OrderKind::MarketSwap | OrderKind::LimitSwap)
    }
    pub fn is_increase(&self) -> bool {
        matches!(self.kind, OrderKind::MarketIncrease | OrderKind::LimitIncrease)
    }
    pub fn is_decrease(&self) -> bool {
        !self.is_swap() && !self.is_increase()
    }
}

impl World {
    pub fn position_of(&self, owner: &Pubkey, market: usize, is_collateral_long: bool, is_long: bool) -> Pubkey {
        let m = &self.markets[market];
        let collateral = if is_collateral_long { m.long } else { m.short };
        let kind: u8 = if is_long { 1 } else { 2 };
        Pubkey::find_program_address(&[b"position", self.store.as_ref(), owner.as_ref(), m.token.as_ref(), collateral.as_ref(), &[kind]], &PID).0
    }

    pub fn trade_event_of(&self, authority: &Pubkey) -> Pubkey {
        Pubkey::find_program_address(&[b"trade_event_data", self.store.as_ref(), authority.as_ref(), &0u16.to_le_bytes()], &PID).0
    }

    pub fn user_account(&self, owner: &Pubkey) -> Pubkey {
        Pubkey::find_program_address(&[b"user", self.store.as_ref(), owner.as_ref()], &PID).0
    }

    fn order_address(&self, creator: &Pubkey, nonce: &[u8; 32]) -> Pubkey {
        Pubkey::find_program_address(&[b"order", self.store.as_ref(), creator.as_ref(), nonce], &PID).0
    }

    /// Market swap of `amount` of `token_in` along `path` (market indices); the last market of the
    /// path is the order's market and `is_output_long` selects which of its tokens is expected out.
    pub fn swap_order_ref(&mut self, owner: Pubkey, market: usize, token_in: Pubkey, is_output_long: bool, path: Vec<usize>, amount: u64) -> OrderRef {
        let nonce = self.next_nonce();
        let m = &self.markets[market];
        let out = if is_output_long { m.long } else { m.short };
        OrderRef {
            owner,
            receiver: owner,
            rent_receiver: owner,
            market,
            order: self.order_address(&owner, &nonce),
            nonce,
            kind: OrderKind::MarketSwap,
            position: None,
            initial_collateral_token: Some(token_in),
            final_output_token: out,
            is_long: true,
            is_collateral_long: is_output_long,
            path,
            amount,
            size: 0,
            min_output: None,
            acceptable_price: None,
            execution_lamports: EXEC_LAMPORTS,
        }
    }

    pub fn increase_order_ref(&mut self, owner: Pubkey, market: usize, is_long: bool, is_collateral_long: bool, pay_token: Pubkey, path: Vec<usize>, amount: u64, size: u128) -> OrderRef {
        let nonce = self.next_nonce();
        let m = &self.markets[market];
        let collateral = if is_collateral_long { m.long } else { m.short };
        OrderRef {
            owner,
            receiver: owner,
            rent_receiver: owner,
            market,
            order: self.order_address(&owner, &nonce),
            nonce,
            kind: OrderKind::MarketIncrease,
            position: Some(self.position_of(&owner, market, is_collateral_long, is_long)),
            initial_collateral_token: Some(pay_token),
            final_output_token: collateral,
            is_long,
            is_collateral_long,
            path,
            amount,
            size,
            min_output: None,
            acceptable_price: None,
            execution_lamports: EXEC_LAMPORTS,
        }
    }

    pub fn decrease_order_ref(&mut self, owner: Pubkey, market: usize, is_long: bool, is_collateral_long: bool, final_output_token: Pubkey, path: Vec<usize>, collateral_withdrawal: u64, size: u128) -> OrderRef {
        let nonce = self.next_nonce();
        OrderRef {
            owner,
            receiver: owner,
            rent_receiver: owner,
            market,
            order: self.order_address(&owner, &nonce),
            nonce,
            kind: OrderKind::MarketDecrease,
            position: Some(self.position_of(&owner, market, is_collateral_long, is_long)),
            initial_collateral_token: None,
            final_output_token,
            is_long,
            is_collateral_long,
            path,
            amount: collateral_withdrawal,
            size,
            min_output: None,
            acceptable_price: None,
            execution_lamports: EXEC_LAMPORTS,
        }
    }

    pub fn order_params(&self, r: &OrderRef) -> gmsol_store::ops::order::CreateOrderParams {
        gmsol_store::ops::order::CreateOrderParams {
            kind: r.kind,
            decrease_position_swap_type: None,
            execution_lamports: r.execution_lamports,
            swap_path_length: r.path.len() as u8,
            initial_collateral_delta_amount: r.amount,
            size_delta_value: r.size,
            is_long: r.is_long,
            is_collateral_long: r.is_collateral_long,
            min_output: r.min_output,
            trigger_price: None,
            acceptable_price: r.acceptable_price,
            should_unwrap_native_token: false,
            valid_from_ts: None,
        }
    }

    /// (long token, short token) accounts of the order's market, `None` for swaps.
    fn order_side_tokens(&self, r: &OrderRef) -> (Option<Pubkey>, Option<Pubkey>) {
        if r.is_swap() {
            (None, None)
        } else {
            let m = &self.markets[r.market];
            (Some(m.long), Some(m.short))
        }
    }

    fn order_has_final_output_escrow(&self, r: &OrderRef) -> bool {
        r.is_swap() || r.is_decrease()
    }

    pub fn ix_prepare_position(&self, r: &OrderRef) -> Instruction {
        ix(
            acc::PreparePosition { owner: r.owner, store: self.store, market: self.markets[r.market].market, position: r.position.expect("position"), system_program: system_program::ID },
            ixd::PreparePosition { params: self.order_params(r) },
            vec![],
        )
    }

    /// Escrow ATAs (and the position for increase orders).
    pub fn ixs_prepare_order(&self, r: &OrderRef) -> Vec<Instruction> {
        let mut mints: Vec<Pubkey> = vec![];
        let mut push = |m: Pubkey| {
            if !mints.contains(&m) {
                mints.push(m)
            }
        };
        if let Some(t) = r.initial_collateral_token {
            push(t);
        }
        if self.order_has_final_output_escrow(r) {
            push(r.final_output_token);
        }
        let (l, s) = self.order_side_tokens(r);
        for t in [l, s].into_iter().flatten() {
            push(t);
        }
        let mut out: Vec<Instruction> = mints.iter().map(|m| self.ix_prepare_ata(r.owner, r.order, *m)).collect();
        if r.is_increase() {
            out.push(self.ix_prepare_position(r));
        }
        out
    }

    pub fn ix_create_order(&self, r: &OrderRef) -> Instruction {
        let m = &self.markets[r.market];
        let (l, s) = self.order_side_tokens(r);
        ix(
            acc::CreateOrderV2 {
                owner: r.owner,
                receiver: r.receiver,
                store: self.store,
                market: m.market,
                user: self.user_account(&r.owner),
                order: r.order,
                position: r.position,
                initial_collateral_token: r.initial_collateral_token,
                final_output_token: r.final_output_token,
                long_token: l,
                short_token: s,
                initial_collateral_token_escrow: r.initial_collateral_token.map(|t| ata(&r.order, &t)),
                final_output_token_escrow: self.order_has_final_output_escrow(r).then(|| ata(&r.order, &r.final_output_token)),
                long_token_escrow: l.map(|t| ata(&r.order, &t)),
                short_token_escrow: s.map(|t| ata(&r.order, &t)),
                initial_collateral_token_source: r.initial_collateral_token.map(|t| ata(&r.owner, &t)),
                system_program: system_program::ID,
                token_program: spl_token::ID,
                associated_token_program: spl_associated_token_account::ID,
                callback_authority: None,
                callback_program: None,
                callback_shared_data_account: None,
                callback_partitioned_data_account: None,
                event_authority: self.event_authority,
                program: PID,
            },
            ixd::CreateOrderV2 { nonce: r.nonce, params: self.order_params(r), callback_version: None },
            self.path_metas(&r.path),
        )
    }

    pub fn ix_execute_increase_or_swap(&self, r: &OrderRef, authority: Pubkey, execution_fee: u64, throw_on_execution_error: bool) -> Instruction {
        let m = &self.markets[r.market];
        let (l, s) = self.order_side_tokens(r);
        let has_final = self.order_has_final_output_escrow(r);
        ix(
            acc::ExecuteIncreaseOrSwapOrderV2 {
                authority,
                store: self.store,
                token_map: self.token_map,
                oracle: self.oracle,
                market: m.market,
                owner: r.owner,
                user: self.user_account(&r.owner),
                order: r.order,
                position: r.position,
                event: (!r.is_swap()).then(|| self.trade_event_of(&authority)),
                initial_collateral_token: r.initial_collateral_token,
                final_output_token: has_final.then_some(r.final_output_token),
                long_token: l,
                short_token: s,
                initial_collateral_token_escrow: r.initial_collateral_token.map(|t| ata(&r.order, &t)),
                final_output_token_escrow: has_final.then(|| ata(&r.order, &r.final_output_token)),
                long_token_escrow: l.map(|t| ata(&r.order, &t)),
                short_token_escrow: s.map(|t| ata(&r.order, &t)),
                initial_collateral_token_vault: r.initial_collateral_token.map(|t| vault_of(&self.store, &t)),
                final_output_token_vault: has_final.then(|| vault_of(&self.store, &r.final_output_token)),
                long_token_vault: l.map(|t| vault_of(&self.store, &t)),
                short_token_vault: s.map(|t| vault_of(&self.store, &t)),
                token_program: spl_token::ID,
                system_program: system_program::ID,
                callback_authority: None,
                callback_program: None,
                callback_shared_data_account: None,
                callback_partitioned_data_account: None,
                event_authority: self.event_authority,
                program: PID,
            },
            ixd::ExecuteIncreaseOrSwapOrderV2 { recent_timestamp: self.sys.unix_timestamp, execution_fee, throw_on_execution_error },
            self.execute_remaining(r.market, &[&r.path]),
        )
    }

    pub fn claimable_account(&self, mint: &Pubkey, owner: &Pubkey, timestamp: i64) -> Pubkey {
        let key = (timestamp / 3600).to_le_bytes();
        Pubkey::find_program_address(&[b"claimable_account", self.store.as_ref(), mint.as_ref(), owner.as_ref(), &key], &PID).0
    }

    pub fn ix_use_claimable_account(&self, authority: Pubkey, mint: Pubkey, owner: Pubkey, timestamp: i64) -> Instruction {
        ix(
            acc::UseClaimableAccount {
                authority,
                store: self.store,
                mint,
                owner,
                account: self.claimable_account(&mint, &owner, timestamp),
                system_program: system_program::ID,
                token_program: spl_token::ID,
            },
            ixd::UseClaimableAccount { timestamp, amount: 0 },
            vec![],
        )
    }

    /// Claimable accounts a decrease / liquidation needs at the current time.
    pub fn ixs_prepare_claimables(&self, authority: Pubkey, market: usize, owner: Pubkey, is_long: bool) -> Vec<Instruction> {
        let m = &self.markets[market];
        let ts = self.sys.unix_timestamp;
        let pnl = if is_long { m.long } else { m.short };
        let mut out = vec![self.ix_use_claimable_account(authority, m.long, owner, ts)];
        if m.short != m.long {
            out.push(self.ix_use_claimable_account(authority, m.short, owner, ts));
        }
        out.push(self.ix_use_claimable_account(authority, pnl, self.admin, ts));
        out
    }

    pub fn ix_execute_decrease(&self, r: &OrderRef, authority: Pubkey, execution_fee: u64, throw_on_execution_error: bool) -> Instruction {
        let m = &self.markets[r.market];
        let ts = self.sys.unix_timestamp;
        let pnl = if r.is_long { m.long } else { m.short };
        ix(
            acc::ExecuteDecreaseOrderV2 {
                authority,
                store: self.store,
                token_map: self.token_map,
                oracle: self.oracle,
                market: m.market,
                owner: r.owner,
                user: self.user_account(&r.owner),
                order: r.order,
                position: r.position.expect("position"),
                event: self.trade_event_of(&authority),
                final_output_token: r.final_output_token,
                long_token: m.long,
                short_token: m.short,
                final_output_token_escrow: ata(&r.order, &r.final_output_token),
                long_token_escrow: ata(&r.order, &m.long),
                short_token_escrow: ata(&r.order, &m.short),
                final_output_token_vault: vault_of(&self.store, &r.final_output_token),
                long_token_vault: vault_of(&self.store, &m.long),
                short_token_vault: vault_of(&self.store, &m.short),
                claimable_long_token_account_for_user: self.claimable_account(&m.long, &r.owner, ts),
                claimable_short_token_account_for_user: self.claimable_account(&m.short, &r.owner, ts),
                claimable_pnl_token_account_for_holding: self.claimable_account(&pnl, &self.admin, ts),
                token_program: spl_token::ID,
                system_program: system_program::ID,
                callback_authority: None,
                callback_program: None,
                callback_shared_data_account: None,
                callback_partitioned_data_account: None,
                event_authority: self.event_authority,
                program: PID,
            },
            ixd::ExecuteDecreaseOrderV2 { recent_timestamp: ts, execution_fee, throw_on_execution_error },
            self.execute_remaining(r.market, &[&r.path]),
        )
    }

    pub fn ix_execute_order(&self, r: &OrderRef, authority: Pubkey, execution_fee: u64, throw_on_execution_error: bool) -> Instruction {
        if r.is_decrease() {
            self.ix_execute_decrease(r, authority, execution_fee, throw_on_execution_error)
        } else {
            self.ix_execute_increase_or_swap(r, authority, execution_fee, throw_on_execution_error)
        }
    }

    pub fn ix_close_order(&self, r: &OrderRef, executor: Pubkey) -> Instruction {
        let (l, s) = self.order_side_tokens(r);
        let has_final = self.order_has_final_output_escrow(r);
        ix(
            acc::CloseOrderV2 {
                executor,
                store: self.store,
                store_wallet: self.store_wallet,
                owner: r.owner,
                receiver: r.receiver,
                // a client reads the rent receiver from the order (a liquidation order's rent goes to
                // the owner if the position was removed, to the keeper otherwise)
                rent_receiver: action_header(&self.vm, &r.order).map(|h| *h.rent_receiver()).unwrap_or(r.rent_receiver),
                user: self.user_account(&r.owner),
                referrer_user: None,
                order: r.order,
                initial_collateral_token: r.initial_collateral_token,
                final_output_token: has_final.then_some(r.final_output_token),
                long_token: l,
                short_token: s,
                initial_collateral_token_escrow: r.initial_collateral_token.map(|t| ata(&r.order, &t)),
                final_output_token_escrow: has_final.then(|| ata(&r.order, &r.final_output_token)),
                long_token_escrow: l.map(|t| ata(&r.order, &t)),
                short_token_escrow: s.map(|t| ata(&r.order, &t)),
                initial_collateral_token_ata: r.initial_collateral_token.map(|t| ata(&r.owner, &t)),
                final_output_token_ata: has_final.then(|| ata(&r.receiver, &r.final_output_token)),
                long_token_ata: l.map(|t| ata(&r.receiver, &t)),
                short_token_ata: s.map(|t| ata(&r.receiver, &t)),
                system_program: system_program::ID,
                token_program: spl_token::ID,
                associated_token_program: spl_associated_token_account::ID,
                callback_authority: None,
                callback_program: None,
                callback_shared_data_account: None,
                callback_partitioned_data_account: None,
                event_authority: self.event_authority,
                program: PID,
            },
            ixd::CloseOrderV2 { reason: "test".into() },
            vec![],
        )
    }

    /// `liquidate` of a position by `authority` (ORDER_KEEPER); returns the instruction and the
    /// reference of the liquidation order it creates (owned by the position owner, rent to keeper).
    pub fn liquidation_ref(&mut self, authority: Pubkey, owner: Pubkey, market: usize, is_long: bool, is_collateral_long: bool) -> OrderRef {
        let nonce = self.next_nonce();
        let m = &self.markets[market];
        OrderRef {
            owner,
            receiver: owner,
            rent_receiver: authority,
            market,
            order: self.order_address(&authority, &nonce),
            nonce,
            kind: OrderKind::Liquidation,
            position: Some(self.position_of(&owner, market, is_collateral_long, is_long)),
            initial_collateral_token: None,
            final_output_token: if is_collateral_long { m.long } else { m.short },
            is_long,
            is_collateral_long,
            path: vec![],
            amount: 0,
            size: 0,
            min_output: None,
            acceptable_price: None,
            execution_lamports: 0,
        }
    }

    pub fn ixs_prepare_liquidation(&self, r: &OrderRef, authority: Pubkey) -> Vec<Instruction> {
        let m = &self.markets[r.market];
        let mut out = vec![self.ix_prepare_ata(authority, r.order, m.long)];
        if m.short != m.long {
            out.push(self.ix_prepare_ata(authority, r.order, m.short));
        }
        out.extend(self.ixs_prepare_claimables(authority, r.market, r.owner, r.is_long));
        out
    }

    pub fn ix_liquidate(&self, r: &OrderRef, authority: Pubkey, execution_fee: u64) -> Instruction {
        let m = &self.markets[r.market];
        let ts = self.sys.unix_timestamp;
        let pnl = if r.is_long { m.long } else { m.short };
        let tokens: std::collections::BTreeSet<Pubkey> = [m.index, m.long, m.short].into_iter().collect();
        let remaining = tokens.iter().map(|t| AccountMeta { pubkey: self.feeds[t], is_signer: false, is_writable: false }).collect();
        ix(
            acc::PositionCut {
                authority,
                owner: r.owner,
                user: self.user_account(&r.owner),
                store: self.store,
                token_map: self.token_map,
                oracle: self.oracle,
                market: m.market,
                order: r.order,
                position: r.position.expect("position"),
                event: self.trade_event_of(&authority),
                long_token: m.long,
                short_token: m.short,
                long_token_escrow: ata(&r.order, &m.long),
                short_token_escrow: ata(&r.order, &m.short),
                long_token_vault: vault_of(&self.store, &m.long),
                short_token_vault: vault_of(&self.store, &m.short),
                claimable_long_token_account_for_user: self.claimable_account(&m.long, &r.owner, ts),
                claimable_short_token_account_for_user: self.claimable_account(&m.short, &r.owner, ts),
                claimable_pnl_token_account_for_holding: self.claimable_account(&pnl, &self.admin, ts),
                system_program: system_program::ID,
                token_program: spl_token::ID,
                associated_token_program: spl_associated_token_account::ID,
                chainlink_program: None,
                event_authority: self.event_authority,
                program: PID,
            },
            ixd::Liquidate { nonce: r.nonce, recent_timestamp: ts, execution_fee },
            remaining,
        )
    }

    pub fn ix_claim_fees(&self, authority: Pubkey, market: usize, mint: Pubkey) -> Instruction {
        ix(
            acc::ClaimFeesFromMarket {
                authority,
                store: self.store,
                market: self.markets[market].market,
                token_mint: mint,
                vault: vault_of(&self.store, &mint),
                target: ata(&authority, &mint),
                token_program: spl_token::ID,
                event_authority: self.event_authority,
                program: PID,
            },
            ixd::ClaimFeesFromMarket {},
            vec![],
        )
    }

    pub fn ix_market_transfer_in(&self, authority: Pubkey, market: usize, mint: Pubkey, amount: u64) -> Instruction {
        ix(
            acc::MarketTransferIn {
                authority,
                store: self.store,
                from_authority: authority,
                market: self.markets[market].market,
                from: ata(&authority, &mint),
                vault: vault_of(&self.store, &mint),
                token_program: spl_token::ID,
                event_authority: self.event_authority,
                program: PID,
            },
            ixd::MarketTransferIn { amount },
            vec![],
        )
    }

    pub fn position_state(&self, position: &Pubkey) -> Option<Position> {
        svm::read_zero_copy::<Position>(self.vm.data(position))
    }
}

// =============================================================================================
// Snapshots used by the lifecycle / swap-path checks
// =============================================================================================

/// Every SPL token account in the world: key -> (mint, authority, amount).
pub fn token_accounts(vm: &Svm) -> BTreeMap<Pubkey, (Pubkey, Pubkey, u64)> {
    let mut out = BTreeMap::new();
    for (k, a) in &vm.accounts {
        if a.owner == spl_token::ID && a.data.len() == spl_token::state::Account::LEN {
            let mint = Pubkey::new_from_array(a.data[0..32].try_into().unwrap());
            let auth = Pubkey::new_from_array(a.data[32..64].try_into().unwrap());
            let amount = u64::from_le_bytes(a.data[64..72].try_into().unwrap());
            out.insert(*k, (mint, auth, amount));
        }
    }
    out
}

impl World {
    /// Revision-free image of a market account: everything the public API exposes (meta, flags,
    /// config, indexer counters, every pool, every clock, balances, funding factor, trade count).
    /// The account bytes themselves also contain the revertible buffer and revision counters, which
    /// change on every committed (even net-zero) operation.
    pub fn market_image(&self, m: usize) -> Vec<(String, String)> {
        use gmsol_model::ClockKind;
        use strum::IntoEnumIterator;
        let mk = self.market_state(m);
        let mut out = vec![];
        out.push(("meta".to_string(), format!("{:?}", (mk.meta().market_token_mint, mk.meta().index_token_mint, mk.meta().long_token_mint, mk.meta().short_token_mint))));
        out.push(("flags".to_string(), format!("{:?}", (mk.is_enabled(), mk.is_pure(), mk.is_adl_enabled(true), mk.is_adl_enabled(false), mk.is_gt_minting_enabled()))));
        for kind in PoolKind::iter() {
            out.push((format!("pool:{kind}"), format!("{:?}", mk.pool(kind))));
        }
        for kind in ClockKind::iter() {
            out.push((format!("clock:{kind}"), format!("{:?}", mk.clock(kind))));
        }
        let st = mk.state();
        out.push(("balances".to_string(), format!("{:?}", (st.long_token_balance_raw(), st.short_token_balance_raw()))));
        out.push(("funding_factor_per_second".to_string(), format!("{}", st.funding_factor_per_second())));
        out.push(("trade_count".to_string(), format!("{}", st.trade_count())));
        let ix = mk.indexer();
        out.push(("indexer".to_string(), format!("{:?}", (ix.deposit_count(), ix.withdrawal_count(), ix.order_count(), ix.shift_count(), ix.glv_deposit_count(), ix.glv_withdrawal_count()))));
        for key in gmsol_utils::market::MarketConfigKey::iter() {
            out.push((format!("config:{key}"), format!("{:?}", mk.get_config_by_key(key))));
        }
        out
    }

    pub fn market_images(&self) -> Vec<Vec<(String, String)>> {
        (0..self.markets.len()).map(|m| self.market_image(m)).collect()
    }

    /// First difference between two image sets.
    pub fn image_diff(a: &[Vec<(String, String)>], b: &[Vec<(String, String)>]) -> Option<String> {
        for (m, (x, y)) in a.iter().zip(b.iter()).enumerate() {
            for (p, q) in x.iter().zip(y.iter()) {
                if p != q {
                    return Some(format!("market {m} {}: {} -> {}", p.0, p.1, q.1));
                }
            }
        }
        None
    }
}

// =============================================================================================
// ADL and builder-fee settlement
// =============================================================================================

impl World {
    fn market_feed_metas(&self, market: usize) -> Vec<AccountMeta> {
        let m = &self.markets[market];
        let tokens: std::collections::BTreeSet<Pubkey> = [m.index, m.long, m.short].into_iter().collect();
        tokens.iter().map(|t| AccountMeta { pubkey: self.feeds[t], is_signer: false, is_writable: false }).collect()
    }

    pub fn ix_update_adl_state(&self, authority: Pubkey, market: usize, is_long: bool) -> Instruction {
        ix(
            acc::UpdateAdlState { authority, store: self.store, token_map: self.token_map, oracle: self.oracle, market: self.markets[market].market, chainlink_program: None },
            ixd::UpdateAdlState { is_long },
            self.market_feed_metas(market),
        )
    }

    /// `auto_deleverage` uses the same accounts as `liquidate`.
    pub fn ix_auto_deleverage(&self, r: &OrderRef, authority: Pubkey, size_delta_in_usd: u128, execution_fee: u64) -> Instruction {
        let mut i = self.ix_liquidate(r, authority, execution_fee);
        i.data = ixd::AutoDeleverage { nonce: r.nonce, recent_timestamp: self.sys.unix_timestamp, size_delta_in_usd, execution_fee }.data();
        i
    }

    /// Unit price (USD 1e20 per smallest token unit) exactly as the oracle derives it from the
    /// custom feed: `Decimal::try_from_price(feed price, feed decimals, token decimals, precision)`.
    pub fn unit_price(&self, token: &Pubkey) -> (u128, u128) {
        let (mid, spread_bps) = self.prices[token];
        let d = mid * spread_bps / 10_000;
        let (dec, precision) = if *token == self.long_mint {
            (LONG_DECIMALS, 4)
        } else if *token == self.short_mint {
            (SHORT_DECIMALS, 6)
        } else {
            (INDEX_DECIMALS, 4)
        };
        let conv = |p: u128| gmsol_utils::price::Decimal::try_from_price(p, FEED_DECIMALS, dec, precision).map(|d| d.to_unit_price()).unwrap_or(0);
        (conv(mid - d), conv(mid + d))
    }

    pub fn ix_settle_builder_fee(&self, r: &OrderRef, builder_user: Option<Pubkey>) -> Instruction {
        ix(
            acc::SettleBuilderFee {
                store: self.store,
                order: r.order,
                final_output_token: r.final_output_token,
                escrow: ata(&r.order, &r.final_output_token),
                builder_user,
                claim_vault: builder_user.map(|b| ata(&b, &r.final_output_token)),
                token_program: spl_token::ID,
                event_authority: self.event_authority,
                program: PID,
            },
            ixd::SettleBuilderFee {},
            vec![],
        )
    }

    /// Synthesise the builder-fee record of an existing order account (no instruction sets a
    /// non-zero builder fee yet: the execution path passes a zero factor). Layout from the end of
    /// `Order`: reserved[80], builder_fee_factor u128, builder Pubkey, builder_fee_amount u64.
    pub fn patch_builder_fee(&mut self, order: &Pubkey, builder: &Pubkey, amount: u64) -> Result<(), String> {
        let mut a = self.vm.get(order).cloned().ok_or("order missing")?;
        let n = a.data.len();
        if n != 8 + std::mem::size_of::<gmsol_store::states::Order>() {
            return Err("unexpected order account size".into());
        }
        a.data[n - 136..n - 128].copy_from_slice(&amount.to_le_bytes());
        a.data[n - 128..n - 96].copy_from_slice(builder.as_ref());
        self.vm.set_account(*order, a);
        let o: gmsol_store::states::Order = svm::read_zero_copy(self.vm.data(order)).ok_or("order unreadable")?;
        if o.builder_fee_amount() != amount {
            return Err(format!("builder fee patch landed in the wrong place: reads back {}", o.builder_fee_amount()));
        }
        Ok(())
    }
}

// =============================================================================================
// GLV
// =============================================================================================

pub fn ata2022(owner: &Pubkey, mint: &Pubkey) -> Pubkey {
    spl_associated_token_account::get_associated_token_address_with_program_id(owner, mint, &spl_token_2022::ID)
}

#[derive(Clone, Debug)]
pub struct GlvInfo {
    pub index: u16,
    pub glv_token: Pubkey,
    pub glv: Pubkey,
}

#[derive(Clone, Debug)]
pub struct GlvActionRef {
    pub owner: Pubkey,
    pub market: usize,
    pub action: Pubkey,
    pub nonce: [u8; 32],
    /// deposit: market tokens put in; withdrawal: GLV tokens burnt
    pub amount: u64,
    pub min_out: u64,
}

impl World {
    pub fn glv_info(&self, index: u16) -> GlvInfo {
        let (glv_token, _) = Pubkey::find_program_address(&[b"glv_token", self.store.as_ref(), &index.to_le_bytes()], &PID);
        let (glv, _) = Pubkey::find_program_address(&[b"glv", glv_token.as_ref()], &PID);
        GlvInfo { index, glv_token, glv }
    }

    pub fn glv_state(&self, g: &GlvInfo) -> Option<gmsol_store::states::Glv> {
        svm::read_zero_copy(self.vm.data(&g.glv))
    }

    /// Markets of the GLV in the order the program expects them in remaining accounts.
    pub fn glv_markets(&self, g: &GlvInfo) -> Vec<usize> {
        self.glv_state(g).map(|s| s.market_tokens().filter_map(|t| self.market_by_token(&t)).collect()).unwrap_or_default()
    }

    pub fn ix_initialize_glv(&self, authority: Pubkey, g: &GlvInfo, markets: &[usize]) -> Instruction {
        // the program derives the expected market tokens as a sorted set
        let mut ms: Vec<usize> = markets.to_vec();
        ms.sort_by_key(|m| self.markets[*m].token);
        let mut remaining: Vec<AccountMeta> = ms.iter().map(|m| AccountMeta { pubkey: self.markets[*m].market, is_signer: false, is_writable: false }).collect();
        remaining.extend(ms.iter().map(|m| AccountMeta { pubkey: self.markets[*m].token, is_signer: false, is_writable: false }));
        remaining.extend(ms.iter().map(|m| AccountMeta { pubkey: ata(&g.glv, &self.markets[*m].token), is_signer: false, is_writable: true }));
        ix(
            acc::InitializeGlv {
                authority,
                store: self.store,
                glv_token: g.glv_token,
                glv: g.glv,
                system_program: system_program::ID,
                token_program: spl_token_2022::ID,
                market_token_program: spl_token::ID,
                associated_token_program: spl_associated_token_account::ID,
            },
            ixd::InitializeGlv { index: g.index, length: markets.len() as u16 },
            remaining,
        )
    }

    pub fn ix_insert_glv_market(&self, authority: Pubkey, g: &GlvInfo, market: usize) -> Instruction {
        let m = &self.markets[market];
        ix(
            acc::InsertGlvMarket {
                authority,
                store: self.store,
                glv: g.glv,
                market_token: m.token,
                market: m.market,
                vault: ata(&g.glv, &m.token),
                system_program: system_program::ID,
                token_program: spl_token::ID,
                associated_token_program: spl_associated_token_account::ID,
            },
            ixd::InsertGlvMarket {},
            vec![],
        )
    }

    pub fn ix_update_glv_market_config(&self, authority: Pubkey, g: &GlvInfo, market: usize, max_amount: Option<u64>, max_value: Option<u128>) -> Instruction {
        ix(acc::UpdateGlvMarketConfig { authority, store: self.store, glv: g.glv, market_token: self.markets[market].token }, ixd::UpdateGlvMarketConfig { max_amount, max_value }, vec![])
    }

    pub fn ix_toggle_glv_deposit_allowed(&self, authority: Pubkey, g: &GlvInfo, market: usize, enable: bool) -> Instruction {
        ix(
            acc::UpdateGlvMarketConfig { authority, store: self.store, glv: g.glv, market_token: self.markets[market].token },
            ixd::ToggleGlvMarketFlag { flag: "is_deposit_allowed".to_string(), enable },
            vec![],
        )
    }

    /// Remaining accounts of a GLV execution: the GLV's markets, their market tokens, then the feeds
    /// of the sorted token set (current market + index tokens of all GLV markets).
    fn glv_execute_remaining(&self, g: &GlvInfo, current: usize) -> Vec<AccountMeta> {
        let ms = self.glv_markets(g);
        let mut out: Vec<AccountMeta> = ms.iter().map(|m| AccountMeta { pubkey: self.markets[*m].market, is_signer: false, is_writable: false }).collect();
        out.extend(ms.iter().map(|m| AccountMeta { pubkey: self.markets[*m].token, is_signer: false, is_writable: false }));
        let mut tokens = std::collections::BTreeSet::new();
        let cur = &self.markets[current];
        tokens.extend([cur.index, cur.long, cur.short]);
        for m in &ms {
            tokens.insert(self.markets[*m].index);
        }
        out.extend(tokens.iter().map(|t| AccountMeta { pubkey: self.feeds[t], is_signer: false, is_writable: false }));
        // the current market is passed as a named account; mark it writable there
        out
    }

    pub fn glv_deposit_ref(&mut self, owner: Pubkey, market: usize, amount: u64) -> GlvActionRef {
        let nonce = self.next_nonce();
        let (action, _) = Pubkey::find_program_address(&[b"glv_deposit", self.store.as_ref(), owner.as_ref(), &nonce], &PID);
        GlvActionRef { owner, market, action, nonce, amount, min_out: 0 }
    }

    pub fn glv_withdrawal_ref(&mut self, owner: Pubkey, market: usize, amount: u64) -> GlvActionRef {
        let nonce = self.next_nonce();
        let (action, _) = Pubkey::find_program_address(&[b"glv_withdrawal", self.store.as_ref(), owner.as_ref(), &nonce], &PID);
        GlvActionRef { owner, market, action, nonce, amount, min_out: 0 }
    }

    pub fn ix_prepare_ata_2022(&self, payer: Pubkey, owner: Pubkey, mint: Pubkey) -> Instruction {
        ix(
            acc::PrepareAssociatedTokenAccount {
                payer,
                owner,
                mint,
                account: ata2022(&owner, &mint),
                system_program: system_program::ID,
                token_program: spl_token_2022::ID,
                associated_token_program: spl_associated_token_account::ID,
            },
            ixd::PrepareAssociatedTokenAccount {},
            vec![],
        )
    }

    /// GLV deposit of market tokens only (no initial long/short tokens, no swap paths).
    pub fn ixs_prepare_glv_deposit(&self, g: &GlvInfo, r: &GlvActionRef) -> Vec<Instruction> {
        vec![self.ix_prepare_ata_2022(r.owner, r.action, g.glv_token), self.ix_prepare_ata(r.owner, r.action, self.markets[r.market].token)]
    }

    pub fn ix_create_glv_deposit(&self, g: &GlvInfo, r: &GlvActionRef) -> Instruction {
        let m = &self.markets[r.market];
        ix(
            acc::CreateGlvDeposit {
                owner: r.owner,
                receiver: r.owner,
                store: self.store,
                market: m.market,
                glv: g.glv,
                glv_deposit: r.action,
                glv_token: g.glv_token,
                market_token: m.token,
                initial_long_token: None,
                initial_short_token: None,
                market_token_source: Some(ata(&r.owner, &m.token)),
                initial_long_token_source: None,
                initial_short_token_source: None,
                glv_token_escrow: ata2022(&r.action, &g.glv_token),
                market_token_escrow: ata(&r.action, &m.token),
                initial_long_token_escrow: None,
                initial_short_token_escrow: None,
                system_program: system_program::ID,
                token_program: spl_token::ID,
                glv_token_program: spl_token_2022::ID,
                associated_token_program: spl_associated_token_account::ID,
            },
            ixd::CreateGlvDeposit {
                nonce: r.nonce,
                params: gmsol_store::ops::glv::CreateGlvDepositParams {
                    execution_lamports: EXEC_LAMPORTS,
                    long_token_swap_length: 0,
                    short_token_swap_length: 0,
                    initial_long_token_amount: 0,
                    initial_short_token_amount: 0,
                    market_token_amount: r.amount,
                    min_market_token_amount: 0,
                    min_glv_token_amount: r.min_out,
                    should_unwrap_native_token: false,
                },
            },
            vec![],
        )
    }

    pub fn ix_execute_glv_deposit(&self, g: &GlvInfo, r: &GlvActionRef, authority: Pubkey, throw_on_execution_error: bool) -> Instruction {
        let m = &self.markets[r.market];
        ix(
            acc::ExecuteGlvDeposit {
                authority,
                store: self.store,
                token_map: self.token_map,
                oracle: self.oracle,
                glv: g.glv,
                market: m.market,
                glv_deposit: r.action,
                glv_token: g.glv_token,
                market_token: m.token,
                initial_long_token: None,
                initial_short_token: None,
                glv_token_escrow: ata2022(&r.action, &g.glv_token),
                market_token_escrow: ata(&r.action, &m.token),
                initial_long_token_escrow: None,
                initial_short_token_escrow: None,
                initial_long_token_vault: None,
                initial_short_token_vault: None,
                market_token_vault: ata(&g.glv, &m.token),
                token_program: spl_token::ID,
                glv_token_program: spl_token_2022::ID,
                system_program: system_program::ID,
                chainlink_program: None,
                event_authority: self.event_authority,
                program: PID,
            },
            ixd::ExecuteGlvDeposit { execution_lamports: 0, throw_on_execution_error },
            self.glv_execute_remaining(g, r.market),
        )
    }

    pub fn ix_close_glv_deposit(&self, g: &GlvInfo, r: &GlvActionRef, executor: Pubkey) -> Instruction {
        let m = &self.markets[r.market];
        ix(
            acc::CloseGlvDeposit {
                executor,
                store: self.store,
                store_wallet: self.store_wallet,
                owner: r.owner,
                receiver: r.owner,
                glv_deposit: r.action,
                market_token: m.token,
                initial_long_token: None,
                initial_short_token: None,
                glv_token: g.glv_token,
                market_token_escrow: ata(&r.action, &m.token),
                initial_long_token_escrow: None,
                initial_short_token_escrow: None,
                glv_token_escrow: ata2022(&r.action, &g.glv_token),
                market_token_ata: ata(&r.owner, &m.token),
                initial_long_token_ata: None,
                initial_short_token_ata: None,
                glv_token_ata: ata2022(&r.owner, &g.glv_token),
                system_program: system_program::ID,
                token_program: spl_token::ID,
                glv_token_program: spl_token_2022::ID,
                associated_token_program: spl_associated_token_account::ID,
                event_authority: self.event_authority,
                program: PID,
            },
            ixd::CloseGlvDeposit { reason: "test".into() },
            vec![],
        )
    }

    pub fn ixs_prepare_glv_withdrawal(&self, g: &GlvInfo, r: &GlvActionRef) -> Vec<Instruction> {
        let m = &self.markets[r.market];
        vec![
            self.ix_prepare_ata_2022(r.owner, r.action, g.glv_token),
            self.ix_prepare_ata(r.owner, r.action, m.token),
            self.ix_prepare_ata(r.owner, r.action, m.long),
            self.ix_prepare_ata(r.owner, r.action, m.short),
        ]
    }

    pub fn ix_create_glv_withdrawal(&self, g: &GlvInfo, r: &GlvActionRef) -> Instruction {
        let m = &self.markets[r.market];
        ix(
            acc::CreateGlvWithdrawal {
                owner: r.owner,
                receiver: r.owner,
                store: self.store,
                market: m.market,
                glv: g.glv,
                glv_withdrawal: r.action,
                glv_token: g.glv_token,
                market_token: m.token,
                final_long_token: m.long,
                final_short_token: m.short,
                glv_token_source: ata2022(&r.owner, &g.glv_token),
                glv_token_escrow: ata2022(&r.action, &g.glv_token),
                market_token_escrow: ata(&r.action, &m.token),
                final_long_token_escrow: ata(&r.action, &m.long),
                final_short_token_escrow: ata(&r.action, &m.short),
                system_program: system_program::ID,
                token_program: spl_token::ID,
                glv_token_program: spl_token_2022::ID,
                associated_token_program: spl_associated_token_account::ID,
            },
            ixd::CreateGlvWithdrawal {
                nonce: r.nonce,
                params: gmsol_store::ops::glv::CreateGlvWithdrawalParams {
                    execution_lamports: EXEC_LAMPORTS,
                    long_token_swap_length: 0,
                    short_token_swap_length: 0,
                    glv_token_amount: r.amount,
                    min_final_long_token_amount: 0,
                    min_final_short_token_amount: 0,
                    should_unwrap_native_token: false,
                },
            },
            vec![],
        )
    }

    pub fn ix_execute_glv_withdrawal(&self, g: &GlvInfo, r: &GlvActionRef, authority: Pubkey, throw_on_execution_error: bool) -> Instruction {
        let m = &self.markets[r.market];
        ix(
            acc::ExecuteGlvWithdrawal {
                authority,
                store: self.store,
                token_map: self.token_map,
                oracle: self.oracle,
                glv: g.glv,
                market: m.market,
                glv_withdrawal: r.action,
                glv_token: g.glv_token,
                market_token: m.token,
                final_long_token: m.long,
                final_short_token: m.short,
                glv_token_escrow: ata2022(&r.action, &g.glv_token),
                market_token_escrow: ata(&r.action, &m.token),
                final_long_token_escrow: ata(&r.action, &m.long),
                final_short_token_escrow: ata(&r.action, &m.short),
                market_token_withdrawal_vault: vault_of(&self.store, &m.token),
                final_long_token_vault: vault_of(&self.store, &m.long),
                final_short_token_vault: vault_of(&self.store, &m.short),
                market_token_vault: ata(&g.glv, &m.token),
                token_program: spl_token::ID,
                glv_token_program: spl_token_2022::ID,
                system_program: system_program::ID,
                chainlink_program: None,
                event_authority: self.event_authority,
                program: PID,
            },
            ixd::ExecuteGlvWithdrawal { execution_lamports: 0, throw_on_execution_error },
            self.glv_execute_remaining(g, r.market),
        )
    }

    pub fn ix_close_glv_withdrawal(&self, g: &GlvInfo, r: &GlvActionRef, executor: Pubkey) -> Instruction {
        let m = &self.markets[r.market];
        ix(
            acc::CloseGlvWithdrawal {
                executor,
                store: self.store,
                store_wallet: self.store_wallet,
                owner: r.owner,
                receiver: r.owner,
                glv_withdrawal: r.action,
                market_token: m.token,
                final_long_token: m.long,
                final_short_token: m.short,
                glv_token: g.glv_token,
                market_token_escrow: ata(&r.action, &m.token),
                final_long_token_escrow: ata(&r.action, &m.long),
                final_short_token_escrow: ata(&r.action, &m.short),
                market_token_ata: ata(&r.owner, &m.token),
                final_long_token_ata: ata(&r.owner, &m.long),
                final_short_token_ata: ata(&r.owner, &m.short),
                glv_token_escrow: ata2022(&r.action, &g.glv_token),
                glv_token_ata: ata2022(&r.owner, &g.glv_token),
                system_program: system_program::ID,
                token_program: spl_token::ID,
                glv_token_program: spl_token_2022::ID,
                associated_token_program: spl_associated_token_account::ID,
                event_authority: self.event_authority,
                program: PID,
            },
            ixd::CloseGlvWithdrawal { reason: "test".into() },
            vec![],
        )
    }
}
