//! Shared value generators (mixtures that hit type limits, powers of ten, units and small values).

use proptest::prelude::*;

pub fn u64_mix() -> impl Strategy<Value = u64> {
    prop_oneof![
        3 => any::<u64>(),
        2 => 0u64..=16,
        2 => (0u32..=19, -2i64..=2).prop_map(|(e, d)| (10u64.pow(e) as i128 + d as i128).clamp(0, u64::MAX as i128) as u64),
        1 => (0u64..=3).prop_map(|d| u64::MAX - d),
        1 => (0u64..=3).prop_map(|d| (i64::MAX as u64).wrapping_add(d).wrapping_sub(1)),
        2 => (0u64..=1_000_000, 0u32..=10).prop_map(|(m, e)| m.saturating_mul(10u64.pow(e))),
        2 => (0u32..64).prop_flat_map(|bits| 0u64..=(u64::MAX >> bits)),
    ]
}

pub fn u128_mix() -> impl Strategy<Value = u128> {
    prop_oneof![
        3 => any::<u128>(),
        2 => 0u128..=16,
        2 => (0u32..=38, -2i128..=2).prop_map(|(e, d)| {
            let p = 10u128.pow(e);
            if d < 0 { p.saturating_sub((-d) as u128) } else { p.saturating_add(d as u128) }
        }),
        1 => (0u128..=3).prop_map(|d| u128::MAX - d),
        1 => (0u128..=3).prop_map(|d| (i128::MAX as u128).wrapping_add(d).wrapping_sub(1)),
        2 => (0u128..=1_000_000, 0u32..=30).prop_map(|(m, e)| m.saturating_mul(10u128.pow(e))),
        2 => (0u32..128).prop_flat_map(|bits| 0u128..=(u128::MAX >> bits)),
    ]
}

pub fn i64_mix() -> impl Strategy<Value = i64> {
    prop_oneof![
        3 => any::<i64>(),
        2 => -16i64..=16,
        1 => (0i64..=3).prop_map(|d| i64::MIN + d),
        1 => (0i64..=3).prop_map(|d| i64::MAX - d),
        3 => (u64_mix(), any::<bool>()).prop_map(|(m, neg)| {
            let m = (m >> 1) as i64;
            if neg { -m } else { m }
        }),
    ]
}

pub fn i128_mix() -> impl Strategy<Value = i128> {
    prop_oneof![
        3 => any::<i128>(),
        2 => -16i128..=16,
        1 => (0i128..=3).prop_map(|d| i128::MIN + d),
        1 => (0i128..=3).prop_map(|d| i128::MAX - d),
        3 => (u128_mix(), any::<bool>()).prop_map(|(m, neg)| {
            let m = (m >> 1) as i128;
            if neg { -m } else { m }
        }),
    ]
}

/// A factor around `unit`: zero, tiny, below, exactly, just above, far above, max.
pub fn factor_u128(unit: u128) -> impl Strategy<Value = u128> {
    prop_oneof![
        1 => Just(0u128),
        2 => 1u128..=1000,
        6 => 0u128..=unit,
        1 => Just(unit),
        1 => Just(unit + 1),
        1 => (unit + 1)..=(unit * 3),
        1 => Just(u128::MAX),
        3 => (0u128..=10_000).prop_map(move |bp| unit / 10_000 * bp),
    ]
}

pub fn factor_u64(unit: u64) -> impl Strategy<Value = u64> {
    prop_oneof![
        1 => Just(0u64),
        2 => 1u64..=1000,
        6 => 0u64..=unit,
        1 => Just(unit),
        1 => Just(unit + 1),
        1 => (unit + 1)..=(unit * 3),
        1 => Just(u64::MAX),
        3 => (0u64..=10_000).prop_map(move |bp| unit / 10_000 * bp),
    ]
}

/// Factor not exceeding the unit (valid configuration).
pub fn valid_factor_u128(unit: u128) -> impl Strategy<Value = u128> {
    prop_oneof![
        1 => Just(0u128),
        2 => 1u128..=1000,
        5 => 0u128..=unit,
        1 => Just(unit),
        3 => (0u128..=10_000).prop_map(move |bp| unit / 10_000 * bp),
    ]
}

pub fn valid_factor_u64(unit: u64) -> impl Strategy<Value = u64> {
    prop_oneof![
        1 => Just(0u64),
        2 => 1u64..=1000,
        5 => 0u64..=unit,
        1 => Just(unit),
        3 => (0u64..=10_000).prop_map(move |bp| unit / 10_000 * bp),
    ]
}
