//! Search engine shared by every property: deterministic proptest runners sharded over threads,
//! case classification, replay files, known findings and evidence output.

use std::{
    collections::{BTreeMap, BTreeSet, HashSet},
    fmt::Debug,
    hash::{Hash, Hasher},
    panic::{catch_unwind, AssertUnwindSafe},
    path::{Path, PathBuf},
    sync::Mutex,
    time::Instant,
};

use proptest::{
    strategy::Strategy,
    test_runner::{Config, RngAlgorithm, TestCaseError, TestError, TestRng, TestRunner},
};
use serde::{de::DeserializeOwned, Serialize};
use serde_json::{json, Value};

pub const VERIF_ROOT_DEFAULT: &str = "/verif";

/// Root directory for evidence / replays / known findings (overridable for scratch runs).
pub fn verif_root() -> String {
    std::env::var("VERIF_ROOT").unwrap_or_else(|_| VERIF_ROOT_DEFAULT.to_string())
}

static OUT_FD: std::sync::atomic::AtomicI32 = std::sync::atomic::AtomicI32::new(1);

/// Programs under test print their `msg!` logs straight to stdout on the host. Move the real stdout
/// to a private descriptor and point fd 1 at /dev/null so that only the harness' own lines are seen.
pub fn capture_stdout() {
    if std::env::var("VERIF_SHOW_LOGS").is_ok() {
        return;
    }
    // SAFETY: plain POSIX descriptor juggling at process start, before any threads exist.
    unsafe {
        let saved = libc::dup(1);
        if saved < 0 {
            return;
        }
        let null = libc::open(c"/dev/null".as_ptr(), libc::O_WRONLY);
        if null >= 0 {
            libc::dup2(null, 1);
            libc::close(null);
            OUT_FD.store(saved, std::sync::atomic::Ordering::SeqCst);
        }
    }
}

/// Print one line on the real stdout.
pub fn out(line: &str) {
    let fd = OUT_FD.load(std::sync::atomic::Ordering::SeqCst);
    let mut buf = line.as_bytes().to_vec();
    buf.push(b'\n');
    let mut off = 0;
    while off < buf.len() {
        // SAFETY: writing a valid buffer to an open descriptor.
        let n = unsafe { libc::write(fd, buf[off..].as_ptr() as *const libc::c_void, buf.len() - off) };
        if n <= 0 {
            break;
        }
        off += n as usize;
    }
}

#[derive(Clone, Copy, PartialEq, Eq, Debug)]
pub enum Tier {
    Quick,
    Thorough,
}

impl Tier {
    pub fn as_str(&self) -> &'static str {
        match self {
            Tier::Quick => "quick",
            Tier::Thorough => "thorough",
        }
    }
}

/// Per-case recorder handed to a check closure.
#[derive(Default, Debug)]
pub struct Rec {
    classes: Vec<&'static str>,
    nontrivial: bool,
    excluded: Vec<&'static str>,
    note: Option<String>,
}

impl Rec {
    /// Count this case under a class label.
    pub fn class(&mut self, name: &'static str) {
        if !self.classes.contains(&name) {
            self.classes.push(name);
        }
    }
    /// Count under a class when the condition holds.
    pub fn class_if(&mut self, cond: bool, name: &'static str) {
        if cond {
            self.class(name);
        }
    }
    /// Mark the case as non-trivial by the property's stated rule.
    pub fn nontrivial(&mut self) {
        self.nontrivial = true;
    }
    pub fn nontrivial_if(&mut self, cond: bool) {
        if cond {
            self.nontrivial = true;
        }
    }
    /// The case falls in the signature class of an open known finding.
    pub fn excluded(&mut self, finding: &'static str) {
        if !self.excluded.contains(&finding) {
            self.excluded.push(finding);
        }
    }
    /// Attach a short observation to the sample (shown in evidence).
    pub fn note(&mut self, s: String) {
        self.note = Some(s);
    }
}

#[derive(Default)]
struct ShardStats {
    evaluations: u64,
    classes: BTreeMap<&'static str, u64>,
    excluded: BTreeMap<&'static str, u64>,
    nontrivial_hashes: HashSet<u64>,
    samples: Vec<Value>,
    failed: bool,
}

#[derive(Debug, Clone)]
pub struct Violation {
    pub check: String,
    pub replay: String,
    pub message: String,
}

#[derive(Debug, Clone, serde::Deserialize)]
pub struct KnownFinding {
    pub property: String,
    pub id: String,
    pub status: String,
    #[serde(default)]
    pub signature: String,
    #[serde(default)]
    pub text: String,
    #[serde(default)]
    pub commit: Option<String>,
}

pub struct Ctx {
    pub id: &'static str,
    pub tier: Tier,
    pub seed: u64,
    pub replay_only: Option<PathBuf>,
    start: Instant,
    evaluations: u64,
    classes: BTreeMap<String, u64>,
    excluded: BTreeMap<String, u64>,
    nontrivial: HashSet<u64>,
    samples: Vec<Value>,
    rules: Vec<String>,
    assumptions: BTreeSet<String>,
    pub violations: Vec<Violation>,
    known: Vec<KnownFinding>,
    known_lines: Vec<String>,
    inconclusive: Vec<String>,
    floors: Vec<(String, u64, u64)>,
    replayed_regressions: u64,
    stale_replays: u64,
    per_check: Vec<Value>,
    extra: BTreeMap<String, Value>,
    exhaustive: Option<bool>,
    threads: usize,
}

fn hash64<T: Hash>(t: &T) -> u64 {
    let mut h = std::collections::hash_map::DefaultHasher::new();
    t.hash(&mut h);
    h.finish()
}

fn fnv(bytes: &[u8]) -> u64 {
    let mut h: u64 = 0xcbf29ce484222325;
    for b in bytes {
        h ^= *b as u64;
        h = h.wrapping_mul(0x100000001b3);
    }
    h
}

fn seed32(seed: u64, id: &str, check: &str, shard: u64) -> [u8; 32] {
    let mut out = [0u8; 32];
    let a = fnv(format!("{seed}/{id}/{check}/{shard}/a").as_bytes());
    let b = fnv(format!("{seed}/{id}/{check}/{shard}/b").as_bytes());
    let c = fnv(format!("{seed}/{id}/{check}/{shard}/c").as_bytes());
    let d = fnv(format!("{seed}/{id}/{check}/{shard}/d").as_bytes());
    out[0..8].copy_from_slice(&a.to_le_bytes());
    out[8..16].copy_from_slice(&b.to_le_bytes());
    out[16..24].copy_from_slice(&c.to_le_bytes());
    out[24..32].copy_from_slice(&d.to_le_bytes());
    out
}

fn truncate(s: String, n: usize) -> String {
    if s.len() <= n {
        s
    } else {
        let mut end = n;
        while !s.is_char_boundary(end) {
            end -= 1;
        }
        format!("{}…(+{} bytes)", &s[..end], s.len() - end)
    }
}

fn panic_message(p: Box<dyn std::any::Any + Send>) -> String {
    if let Some(s) = p.downcast_ref::<&str>() {
        format!("panic: {s}")
    } else if let Some(s) = p.downcast_ref::<String>() {
        format!("panic: {s}")
    } else {
        "panic: <non-string payload>".to_string()
    }
}

/// Run a closure, converting a panic into `Err`.
pub fn no_panic<R>(f: impl FnOnce() -> R) -> Result<R, String> {
    catch_unwind(AssertUnwindSafe(f)).map_err(panic_message)
}

impl Ctx {
    pub fn new(id: &'static str, tier: Tier, seed: u64, replay_only: Option<PathBuf>) -> Self {
        let known = load_known_findings()
            .into_iter()
            .filter(|k| k.property == id)
            .collect();
        let threads = std::env::var("VERIF_THREADS")
            .ok()
            .and_then(|s| s.parse().ok())
            .unwrap_or(16usize)
            .max(1);
        Ctx {
            id,
            tier,
            seed,
            replay_only,
            start: Instant::now(),
            evaluations: 0,
            classes: BTreeMap::new(),
            excluded: BTreeMap::new(),
            nontrivial: HashSet::new(),
            samples: Vec::new(),
            rules: Vec::new(),
            assumptions: BTreeSet::new(),
            violations: Vec::new(),
            known,
            known_lines: Vec::new(),
            inconclusive: Vec::new(),
            floors: Vec::new(),
            replayed_regressions: 0,
            stale_replays: 0,
            per_check: Vec::new(),
            extra: BTreeMap::new(),
            exhaustive: None,
            threads,
        }
    }

    pub fn is_quick(&self) -> bool {
        self.tier == Tier::Quick
    }

    /// Pick a work amount by tier.
    pub fn cases(&self, quick: u64, thorough: u64) -> u64 {
        let scale = std::env::var("VERIF_SCALE")
            .ok()
            .and_then(|s| s.parse::<f64>().ok())
            .unwrap_or(1.0);
        let n = match self.tier {
            Tier::Quick => quick,
            Tier::Thorough => thorough,
        };
        ((n as f64 * scale) as u64).max(1)
    }

    pub fn rule(&mut self, s: &str) {
        self.rules.push(s.to_string());
    }
    pub fn assume(&mut self, s: &str) {
        self.assumptions.insert(s.to_string());
    }
    pub fn extra(&mut self, k: &str, v: Value) {
        self.extra.insert(k.to_string(), v);
    }
    pub fn set_exhaustive(&mut self, b: bool) {
        self.exhaustive = Some(b);
    }
    pub fn inconclusive(&mut self, why: String) {
        self.inconclusive.push(why);
    }

    /// Is there an *open* known finding with this id for this property?
    pub fn finding_open(&self, id: &str) -> bool {
        self.known.iter().any(|k| k.id == id && k.status == "open")
    }

    /// Report that the witness of a known finding still reproduces.
    /// If the finding is listed as open: prints the KNOWN-FINDING line. Otherwise it is a violation.
    pub fn known_witness(&mut self, finding: &str, reproduces: bool, what: &str) {
        if !reproduces {
            self.extra(
                &format!("witness_{finding}"),
                json!("listed witness no longer reproduces"),
            );
            return;
        }
        if self.finding_open(finding) {
            self.known_lines
                .push(format!("KNOWN-FINDING: property={} {} {}", self.id, finding, what));
        } else {
            let path = self.write_replay_value(
                "witness",
                &json!({"finding": finding, "what": what}),
                &[],
                what,
            );
            self.violations.push(Violation {
                check: format!("witness-{finding}"),
                replay: path,
                message: format!("unlisted finding reproduces: {what}"),
            });
        }
    }

    fn replay_dir(&self) -> PathBuf {
        Path::new(&verif_root()).join("replays").join(self.id)
    }

    fn write_replay_value(&self, check: &str, debug: &Value, bytes: &[u8], msg: &str) -> String {
        let dir = self.replay_dir();
        let _ = std::fs::create_dir_all(&dir);
        let h = fnv(&[bytes, check.as_bytes(), debug.to_string().as_bytes()].concat());
        let path = dir.join(format!("fail-{check}-{:016x}.json", h));
        let v = json!({
            "property": self.id,
            "check": check,
            "case_hex": hex::encode(bytes),
            "case_debug": debug,
            "message": msg,
        });
        let _ = std::fs::write(&path, serde_json::to_string_pretty(&v).unwrap());
        path.to_string_lossy().to_string()
    }

    fn committed_replays(&self, check: &str) -> Vec<(PathBuf, Vec<u8>)> {
        let mut out = Vec::new();
        let files: Vec<PathBuf> = if let Some(p) = &self.replay_only {
            vec![p.clone()]
        } else {
            let mut v: Vec<PathBuf> = std::fs::read_dir(self.replay_dir())
                .map(|rd| rd.filter_map(|e| e.ok()).map(|e| e.path()).collect())
                .unwrap_or_default();
            v.sort();
            v
        };
        for f in files {
            let Ok(s) = std::fs::read_to_string(&f) else { continue };
            let Ok(v) = serde_json::from_str::<Value>(&s) else { continue };
            if v.get("check").and_then(|c| c.as_str()) != Some(check) {
                continue;
            }
            let Some(hexs) = v.get("case_hex").and_then(|c| c.as_str()) else { continue };
            let Ok(bytes) = hex::decode(hexs) else { continue };
            out.push((f, bytes));
        }
        out
    }

    /// Generated search: run `check` over `cases` values of the strategy, sharded over threads.
    /// The first failing case (per shard) is shrunk by proptest and written as a replay file.
    pub fn search<T, S, SF, F>(&mut self, name: &str, cases: u64, strategy: SF, check: F)
    where
        T: Debug + Clone + Serialize + DeserializeOwned + Send,
        S: Strategy<Value = T>,
        SF: Fn() -> S + Sync,
        F: Fn(&T, &mut Rec) -> Result<(), String> + Sync,
    {
        let t0 = Instant::now();
        // 1. regression tier: committed replay files for this check (or the single --replay file).
        let mut replayed = 0u64;
        for (path, bytes) in self.committed_replays(name) {
            match bincode::deserialize::<T>(&bytes) {
                Ok(case) => {
                    replayed += 1;
                    let mut rec = Rec::default();
                    let r = no_panic(|| check(&case, &mut rec)).and_then(|r| r);
                    if let Err(msg) = r {
                        self.violations.push(Violation {
                            check: name.to_string(),
                            replay: path.to_string_lossy().to_string(),
                            message: msg,
                        });
                    }
                }
                Err(_) => self.stale_replays += 1,
            }
        }
        self.replayed_regressions += replayed;
        if self.replay_only.is_some() {
            return;
        }

        // 2. generated search.
        let shards = (self.threads as u64).min(cases.max(1)).max(1);
        let per = cases / shards;
        let rem = cases % shards;
        let results: Mutex<Vec<(u64, ShardStats, Option<(T, String)>)>> = Mutex::new(Vec::new());
        let id = self.id;
        let seed = self.seed;
        std::thread::scope(|scope| {
            for shard in 0..shards {
                let n = per + if shard < rem { 1 } else { 0 };
                if n == 0 {
                    continue;
                }
                let results = &results;
                let strategy = &strategy;
                let check = &check;
                std::thread::Builder::new()
                    .stack_size(64 << 20)
                    .spawn_scoped(scope, move || {
                        let cfg = Config {
                            cases: n as u32,
                            failure_persistence: None,
                            max_shrink_iters: 2048,
                            max_global_rejects: 1 << 20,
                            max_local_rejects: 1 << 20,
                            ..Config::default()
                        };
                        let rng = TestRng::from_seed(
                            RngAlgorithm::ChaCha,
                            &seed32(seed, id, name, shard),
                        );
                        let mut runner = TestRunner::new_with_rng(cfg, rng);
                        let stats = std::cell::RefCell::new(ShardStats::default());
                        let strat = strategy();
                        let res = runner.run(&strat, |case| {
                            let mut rec = Rec::default();
                            let r = no_panic(|| check(&case, &mut rec)).and_then(|r| r);
                            let mut st = stats.borrow_mut();
                            if !st.failed {
                                st.evaluations += 1;
                                for c in &rec.classes {
                                    *st.classes.entry(c).or_default() += 1;
                                }
                                for c in &rec.excluded {
                                    *st.excluded.entry(c).or_default() += 1;
                                }
                                if rec.nontrivial {
                                    let h = bincode::serialize(&case)
                                        .map(|b| fnv(&b))
                                        .unwrap_or_else(|_| hash64(&format!("{case:?}")));
                                    if st.nontrivial_hashes.insert(h) && st.samples.len() < 2 {
                                        let mut v = json!({
                                            "check": name,
                                            "case": truncate(format!("{case:?}"), 1500),
                                            "classes": rec.classes,
                                        });
                                        if let Some(n) = &rec.note {
                                            v["note"] = json!(truncate(n.clone(), 600));
                                        }
                                        st.samples.push(v);
                                    }
                                }
                            }
                            match r {
                                Ok(()) => Ok(()),
                                Err(msg) => {
                                    st.failed = true;
                                    Err(TestCaseError::fail(msg))
                                }
                            }
                        });
                        let failure = match res {
                            Ok(()) => None,
                            Err(TestError::Fail(reason, case)) => {
                                Some((case, reason.message().to_string()))
                            }
                            Err(TestError::Abort(reason)) => {
                                // generator defect (too many rejects): not a violation
                                eprintln!("[{id}/{name}] runner aborted: {reason}");
                                None
                            }
                        };
                        results
                            .lock()
                            .unwrap()
                            .push((shard, stats.into_inner(), failure));
                    })
                    .expect("spawn");
            }
        });
        let mut results = results.into_inner().unwrap();
        results.sort_by_key(|r| r.0);
        let mut evals = 0u64;
        let mut nontrivial_here = 0u64;
        let mut classes_here: BTreeMap<String, u64> = BTreeMap::new();
        let mut first_failure: Option<(T, String)> = None;
        let mut sample_budget = 3usize;
        for (_shard, st, failure) in results {
            evals += st.evaluations;
            for (k, v) in st.classes {
                *self.classes.entry(format!("{name}:{k}")).or_default() += v;
                *classes_here.entry(k.to_string()).or_default() += v;
            }
            for (k, v) in st.excluded {
                *self.excluded.entry(k.to_string()).or_default() += v;
            }
            for h in st.nontrivial_hashes {
                if self.nontrivial.insert(h ^ fnv(name.as_bytes())) {
                    nontrivial_here += 1;
                }
            }
            for s in st.samples {
                if sample_budget > 0 {
                    self.samples.push(s);
                    sample_budget -= 1;
                }
            }
            if first_failure.is_none() {
                first_failure = failure;
            }
        }
        self.evaluations += evals;
        if let Some((case, msg)) = first_failure {
            let bytes = bincode::serialize(&case).unwrap_or_default();
            let dbg = json!(truncate(format!("{case:#?}"), 20000));
            let path = self.write_replay_value(name, &dbg, &bytes, &msg);
            eprintln!("[{}/{}] FAIL: {}\n  minimal case: {}", self.id, name, msg, truncate(format!("{case:?}"), 3000));
            self.violations.push(Violation {
                check: name.to_string(),
                replay: path,
                message: msg,
            });
        }
        self.per_check.push(json!({
            "check": name,
            "evaluations": evals,
            "distinct_nontrivial": nontrivial_here,
            "classes": classes_here,
            "replayed_regressions": replayed,
            "wall_s": t0.elapsed().as_secs_f64(),
        }));
    }

    /// Exhaustive enumeration of a finite list of cases.
    pub fn enumerate<T, F>(&mut self, name: &str, cases: Vec<T>, check: F)
    where
        T: Debug + Clone + Serialize + DeserializeOwned,
        F: Fn(&T, &mut Rec) -> Result<(), String>,
    {
        let t0 = Instant::now();
        let mut evals = 0;
        let mut nontrivial_here = 0;
        let mut classes_here: BTreeMap<String, u64> = BTreeMap::new();
        let mut failed = false;
        let replay_cases: Vec<(Option<PathBuf>, T)> = if self.replay_only.is_some() {
            self.committed_replays(name)
                .into_iter()
                .filter_map(|(p, b)| bincode::deserialize::<T>(&b).ok().map(|c| (Some(p), c)))
                .collect()
        } else {
            cases.into_iter().map(|c| (None, c)).collect()
        };
        for (path, case) in replay_cases {
            let mut rec = Rec::default();
            let r = no_panic(|| check(&case, &mut rec)).and_then(|r| r);
            evals += 1;
            for c in &rec.classes {
                *self.classes.entry(format!("{name}:{c}")).or_default() += 1;
                *classes_here.entry(c.to_string()).or_default() += 1;
            }
            for c in &rec.excluded {
                *self.excluded.entry(c.to_string()).or_default() += 1;
            }
            if rec.nontrivial {
                let h = bincode::serialize(&case).map(|b| fnv(&b)).unwrap_or(evals);
                if self.nontrivial.insert(h ^ fnv(name.as_bytes())) {
                    nontrivial_here += 1;
                    if nontrivial_here <= 3 {
                        let mut v = json!({"check": name, "case": truncate(format!("{case:?}"), 1500), "classes": rec.classes});
                        if let Some(n) = &rec.note {
                            v["note"] = json!(truncate(n.clone(), 600));
                        }
                        self.samples.push(v);
                    }
                }
            }
            if let Err(msg) = r {
                if !failed {
                    failed = true;
                    let replay = match path {
                        Some(p) => p.to_string_lossy().to_string(),
                        None => {
                            let bytes = bincode::serialize(&case).unwrap_or_default();
                            self.write_replay_value(
                                name,
                                &json!(truncate(format!("{case:#?}"), 20000)),
                                &bytes,
                                &msg,
                            )
                        }
                    };
                    eprintln!("[{}/{}] FAIL: {}\n  case: {}", self.id, name, msg, truncate(format!("{case:?}"), 3000));
                    self.violations.push(Violation { check: name.to_string(), replay, message: msg });
                }
            }
        }
        self.evaluations += evals;
        self.per_check.push(json!({
            "check": name,
            "evaluations": evals,
            "distinct_nontrivial": nontrivial_here,
            "classes": classes_here,
            "enumerated": true,
            "wall_s": t0.elapsed().as_secs_f64(),
        }));
    }

    /// Generator floor: a class that must be populated or the run is inconclusive (exit 2).
    pub fn floor(&mut self, class: &str, min: u64) {
        if self.replay_only.is_some() {
            return;
        }
        let got = self.classes.get(class).copied().unwrap_or(0);
        self.floors.push((class.to_string(), min, got));
        if got < min {
            self.inconclusive
                .push(format!("class '{class}' has {got} cases, floor {min} (generator defect)"));
        }
    }

    pub fn class_count(&self, class: &str) -> u64 {
        self.classes.get(class).copied().unwrap_or(0)
    }

    /// Write evidence, print result lines, and return the process exit code.
    pub fn finish(self) -> i32 {
        let wall = self.start.elapsed().as_secs_f64();
        for l in &self.known_lines {
            out(l);
        }
        let mut coverage = serde_json::Map::new();
        coverage.insert("evaluations".into(), json!(self.evaluations));
        coverage.insert("generator_floors".into(), json!(self.floors.iter().map(|(c, m, g)| json!({"class": c, "floor": m, "count": g})).collect::<Vec<_>>()));
        coverage.insert("distinct_nontrivial".into(), json!(self.nontrivial.len()));
        coverage.insert("rule".into(), json!(self.rules.join(" | ")));
        coverage.insert("samples".into(), json!(self.samples));
        coverage.insert("classes".into(), json!(self.classes));
        coverage.insert("excluded_known".into(), json!(self.excluded));
        coverage.insert("replayed_regressions".into(), json!(self.replayed_regressions));
        coverage.insert("stale_replays_skipped".into(), json!(self.stale_replays));
        coverage.insert("checks".into(), json!(self.per_check));
        coverage.insert("known_findings_reported".into(), json!(self.known_lines));
        if let Some(e) = self.exhaustive {
            coverage.insert("exhaustive".into(), json!(e));
        }
        if !self.inconclusive.is_empty() {
            coverage.insert("inconclusive".into(), json!(self.inconclusive));
        }
        for (k, v) in &self.extra {
            coverage.insert(k.clone(), v.clone());
        }
        let ev = json!({
            "property_id": self.id,
            "tier": self.tier.as_str(),
            "seed": self.seed,
            "level": "exploration",
            "coverage": Value::Object(coverage),
            "assumptions": self.assumptions.iter().collect::<Vec<_>>(),
            "wall_s": wall,
            "violations": self.violations.len(),
            "violation_details": self.violations.iter().map(|v| json!({"check": v.check, "replay": v.replay, "message": truncate(v.message.clone(), 2000)})).collect::<Vec<_>>(),
        });
        if self.replay_only.is_none() {
            let dir = Path::new(&verif_root()).join("evidence");
            let _ = std::fs::create_dir_all(&dir);
            let path = dir.join(format!("{}.json", self.id));
            if let Err(e) = std::fs::write(&path, serde_json::to_string_pretty(&ev).unwrap()) {
                eprintln!("cannot write evidence {path:?}: {e}");
            }
        }
        if !self.violations.is_empty() {
            for v in &self.violations {
                out(&format!("VIOLATION property={} replay={}", self.id, v.replay));
                eprintln!("  [{}] {}", v.check, truncate(v.message.clone(), 2000));
            }
            return 1;
        }
        if !self.inconclusive.is_empty() {
            for i in &self.inconclusive {
                out(&format!("INCONCLUSIVE property={} {}", self.id, i));
            }
            return 2;
        }
        out(&format!(
            "OK property={} tier={} seed={} evaluations={} distinct_nontrivial={} wall_s={:.1}",
            self.id,
            self.tier.as_str(),
            self.seed,
            self.evaluations,
            self.nontrivial.len(),
            wall
        ));
        0
    }
}

pub fn load_known_findings() -> Vec<KnownFinding> {
    let path = Path::new(&verif_root()).join("known_findings.json");
    let Ok(s) = std::fs::read_to_string(path) else { return Vec::new() };
    #[derive(serde::Deserialize)]
    struct File {
        findings: Vec<KnownFinding>,
    }
    serde_json::from_str::<File>(&s).map(|f| f.findings).unwrap_or_default()
}

/// Monotone index mapping for shrinking-friendly selection.
pub fn pick(i: u16, len: usize) -> usize {
    if len == 0 {
        0
    } else {
        ((i as usize) * len) >> 16
    }
}

#[macro_export]
macro_rules! ensure {
    ($cond:expr, $($arg:tt)*) => {
        if !($cond) {
            return Err(format!($($arg)*));
        }
    };
}
