//! W1 "admin world" for svm-lite: a store with roles, token map, oracle, custom price feeds, three
//! markets and a few users, built by executing the REAL gmsol_store instructions.
//!
//! Real instructions (through `Svm::process`): system `create_account` (mints, token map, oracle),
//! spl-token `initialize_mint2`, store `initialize`, `enable_role`, `grant_role`, `initialize_token_map`,
//! `push_to_token_map` (x2), `push_to_token_map_synthetic` (x2), `set_token_map`, `initialize_oracle`,
//! `initialize_price_feed` (x4), `initialize_market_vault` (x2), `initialize_market` (x3),
//! `prepare_user` (xN).
//! Synthesised: the *updated* contents of the four custom `PriceFeed` accounts (the bytes written by
//! `initialize_price_feed` are read, `PriceFeed::update` is applied through the `verif` hook with the
//! stubbed clock and the bytes are written back; the Chainlink report + verifier CPI is skipped), and
//! an executable stub account at the Metaplex token-metadata program id (registered with the probe
//! processor) so that the two metadata instructions pass `Program<Metadata>` validation.
//!
//! Everything is deterministic (`svm::key_of`); `World1::fresh()` hands out a clone of a per-thread
//! cached build (a build is ~60 instructions).

use crate::svm::{self, Acct, Svm, Sysvars};
use anchor_lang::solana_program::{
    instruction::{AccountMeta, Instruction},
    program_error::ProgramError,
    pubkey::Pubkey,
    rent::Rent,
    system_instruction, system_program,
};
use anchor_lang::{InstructionData, ToAccountMetas};
use gmsol_store::accounts as sa;
use gmsol_store::instruction as si;
use gmsol_store::states::{
    market::config::EntryArgs, AmountKey, PriceFeed, PriceFeedPrice, PriceProviderKind, UpdateTokenConfigParams,
};
use gmsol_utils::role::RoleKey;
use std::cell::RefCell;

pub const PID: Pubkey = gmsol_store::ID;

/// Every `RoleKey` constant of crates/utils/src/role.rs.
pub const ROLES: [&str; 10] = [
    RoleKey::MARKET_KEEPER,
    RoleKey::ORDER_KEEPER,
    RoleKey::CONFIG_KEEPER,
    RoleKey::FEATURE_KEEPER,
    RoleKey::GT_CONTROLLER,
    RoleKey::ORACLE_CONTROLLER,
    RoleKey::PRICE_KEEPER,
    RoleKey::MARKET_CONFIG_KEEPER,
    RoleKey::MIGRATION_KEEPER,
    RoleKey::RESTART_ADMIN,
];

pub const N_USERS: usize = 4;
pub const LONG_DECIMALS: u8 = 9;
pub const SHORT_DECIMALS: u8 = 6;
pub const INDEX_DECIMALS: u8 = 8;
pub const USD: u128 = 100_000_000_000_000_000_000; // 1e20

#[derive(Clone, Copy, Debug)]
pub struct MarketKeys {
    pub index: Pubkey,
    pub long: Pubkey,
    pub short: Pubkey,
    pub market_token: Pubkey,
    pub market: Pubkey,
}

/// All keys / PDAs of the world (plain data, `Copy`-cheap to clone).
#[derive(Clone, Debug)]
pub struct Keys {
    /// Payer of everything and the store authority (ADMIN).
    pub admin: Pubkey,
    pub store: Pubkey,
    pub store_wallet: Pubkey,
    pub event_authority: Pubkey,
    /// One dedicated, funded key per role, in the order of [`ROLES`].
    pub role_keys: Vec<Pubkey>,
    /// Funded key without any role.
    pub stranger: Pubkey,
    /// The store's fee receiver (a dedicated funded key, not the authority).
    pub receiver: Pubkey,
    /// The store's holding address (a dedicated funded key).
    pub holding: Pubkey,
    pub token_map: Pubkey,
    pub long_mint: Pubkey,
    pub short_mint: Pubkey,
    /// Synthetic index tokens (no mint account).
    pub index_a: Pubkey,
    pub index_b: Pubkey,
    pub oracle: Pubkey,
    /// Custom price feeds for [long, short, index_a, index_b]: (token, feed_id, price_feed PDA).
    pub feeds: [(Pubkey, Pubkey, Pubkey); 4],
    pub vault_long: Pubkey,
    pub vault_short: Pubkey,
    /// [impure A, impure B (same long/short, other index), pure (long==short==long_mint, index = long)].
    pub markets: [MarketKeys; 3],
    /// Owners of the prepared user accounts.
    pub users: Vec<Pubkey>,
    pub callback_authority: Pubkey,
    pub metadata_program: Pubkey,
}

#[derive(Clone)]
pub struct World1 {
    pub vm: Svm,
    pub k: Keys,
}

thread_local! {
    static CACHE: RefCell<Option<World1>> = const { RefCell::new(None) };
}

pub fn rent(space: usize) -> u64 {
    Rent::default().minimum_balance(space)
}

pub fn store_ix(accounts: impl ToAccountMetas, data: impl InstructionData) -> Instruction {
    Instruction { program_id: PID, accounts: accounts.to_account_metas(None), data: data.data() }
}

pub fn pda(seeds: &[&[u8]]) -> Pubkey {
    Pubkey::find_program_address(seeds, &PID).0
}

pub fn metadata_program_id() -> Pubkey {
    // the well-known Metaplex token-metadata program address (`anchor_spl::metadata::Metadata::id()`)
    "metaqbxxUerdq28cj1RbAWkYQm3ybzjb6a8bt518x1s".parse().expect("valid pubkey")
}

impl Keys {
    pub fn role_key(&self, role: &str) -> Pubkey {
        let i = ROLES.iter().position(|r| *r == role).expect("unknown role");
        self.role_keys[i]
    }
    pub fn user_pda(&self, owner: &Pubkey) -> Pubkey {
        pda(&[b"user", self.store.as_ref(), owner.as_ref()])
    }
    pub fn referral_code_pda(&self, code: &[u8; 8]) -> Pubkey {
        pda(&[b"referral_code", self.store.as_ref(), code])
    }
    pub fn market_vault_pda(&self, mint: &Pubkey) -> Pubkey {
        pda(&[b"market_vault", self.store.as_ref(), mint.as_ref()])
    }
    pub fn market_token_pda(&self, index: &Pubkey, long: &Pubkey, short: &Pubkey) -> Pubkey {
        pda(&[b"market_token_mint", self.store.as_ref(), index.as_ref(), long.as_ref(), short.as_ref()])
    }
    pub fn market_pda(&self, market_token: &Pubkey) -> Pubkey {
        pda(&[b"market", self.store.as_ref(), market_token.as_ref()])
    }
    pub fn price_feed_pda(&self, authority: &Pubkey, index: u16, provider: u8, token: &Pubkey) -> Pubkey {
        pda(&[b"price_feed", self.store.as_ref(), authority.as_ref(), &index.to_le_bytes(), &[provider], token.as_ref()])
    }
    pub fn vi_for_swaps_pda(&self, index: u32) -> Pubkey {
        pda(&[gmsol_store::states::market::virtual_inventory::VIRTUAL_INVENTORY_FOR_SWAPS_SEED, self.store.as_ref(), &index.to_le_bytes()])
    }
    pub fn vi_for_positions_pda(&self, index_token: &Pubkey) -> Pubkey {
        pda(&[gmsol_store::states::market::virtual_inventory::VIRTUAL_INVENTORY_FOR_POSITIONS_SEED, self.store.as_ref(), index_token.as_ref()])
    }
    pub fn gt_exchange_vault_pda(&self, time_window_index: i64, time_window: u32) -> Pubkey {
        pda(&[b"gt_exchange_vault", self.store.as_ref(), &time_window_index.to_le_bytes(), &time_window.to_le_bytes()])
    }
    pub fn gt_exchange_pda(&self, vault: &Pubkey, owner: &Pubkey) -> Pubkey {
        pda(&[b"gt_exchange", vault.as_ref(), owner.as_ref()])
    }
    pub fn claimable_pda(&self, mint: &Pubkey, owner: &Pubkey, time_key: &[u8; 8]) -> Pubkey {
        pda(&[b"claimable_account", self.store.as_ref(), mint.as_ref(), owner.as_ref(), time_key])
    }

    // ---------------------------------------------------------------- store / roles
    /// `initialize` with the payer as authority, receiver and holding address.
    pub fn ix_initialize(&self, payer: Pubkey) -> Instruction {
        self.ix_initialize_with(payer, None, None)
    }
    pub fn ix_initialize_with(&self, payer: Pubkey, receiver: Option<Pubkey>, holding: Option<Pubkey>) -> Instruction {
        store_ix(
            sa::Initialize { payer, authority: None, receiver, holding, store: self.store, system_program: system_program::ID },
            si::Initialize { key: String::new() },
        )
    }
    pub fn ix_update_last_restarted_slot(&self, authority: Pubkey) -> Instruction {
        store_ix(sa::UpdateLastRestartedSlot { authority, store: self.store }, si::UpdateLastRestartedSlot {})
    }
    pub fn ix_transfer_store_authority(&self, authority: Pubkey, next_authority: Pubkey) -> Instruction {
        store_ix(sa::TransferStoreAuthority { authority, store: self.store, next_authority }, si::TransferStoreAuthority {})
    }
    pub fn ix_accept_store_authority(&self, next_authority: Pubkey) -> Instruction {
        store_ix(sa::AcceptStoreAuthority { next_authority, store: self.store }, si::AcceptStoreAuthority {})
    }
    pub fn ix_transfer_receiver(&self, authority: Pubkey, next_receiver: Pubkey) -> Instruction {
        store_ix(sa::TransferReceiver { authority, store: self.store, next_receiver }, si::TransferReceiver {})
    }
    pub fn ix_accept_receiver(&self, next_receiver: Pubkey) -> Instruction {
        store_ix(sa::AcceptReceiver { next_receiver, store: self.store }, si::AcceptReceiver {})
    }
    pub fn ix_set_token_map(&self, authority: Pubkey, token_map: Pubkey) -> Instruction {
        store_ix(sa::SetTokenMap { authority, store: self.store, token_map }, si::SetTokenMap {})
    }
    pub fn ix_check_admin(&self, authority: Pubkey) -> Instruction {
        store_ix(sa::CheckRole { authority, store: self.store }, si::CheckAdmin {})
    }
    pub fn ix_check_role(&self, authority: Pubkey, role: &str) -> Instruction {
        store_ix(sa::CheckRole { authority, store: self.store }, si::CheckRole { role: role.to_string() })
    }
    pub fn ix_has_admin(&self, authority: Pubkey) -> Instruction {
        store_ix(sa::HasRole { store: self.store }, si::HasAdmin { authority })
    }
    pub fn ix_has_role(&self, authority: Pubkey, role: &str) -> Instruction {
        store_ix(sa::HasRole { store: self.store }, si::HasRole { authority, role: role.to_string() })
    }
    pub fn ix_enable_role(&self, authority: Pubkey, role: &str) -> Instruction {
        store_ix(sa::EnableRole { authority, store: self.store }, si::EnableRole { role: role.to_string() })
    }
    pub fn ix_disable_role(&self, authority: Pubkey, role: &str) -> Instruction {
        store_ix(sa::DisableRole { authority, store: self.store }, si::DisableRole { role: role.to_string() })
    }
    pub fn ix_grant_role(&self, authority: Pubkey, user: Pubkey, role: &str) -> Instruction {
        store_ix(sa::GrantRole { authority, store: self.store }, si::GrantRole { user, role: role.to_string() })
    }
    pub fn ix_revoke_role(&self, authority: Pubkey, user: Pubkey, role: &str) -> Instruction {
        store_ix(sa::RevokeRole { authority, store: self.store }, si::RevokeRole { user, role: role.to_string() })
    }

    // ---------------------------------------------------------------- config / features
    pub fn ix_insert_amount(&self, authority: Pubkey, key: &str, amount: u64) -> Instruction {
        store_ix(sa::InsertConfig { authority, store: self.store }, si::InsertAmount { key: key.to_string(), amount })
    }
    pub fn ix_insert_factor(&self, authority: Pubkey, key: &str, factor: u128) -> Instruction {
        store_ix(sa::InsertConfig { authority, store: self.store }, si::InsertFactor { key: key.to_string(), factor })
    }
    pub fn ix_insert_address(&self, authority: Pubkey, key: &str, address: Pubkey) -> Instruction {
        store_ix(sa::InsertConfig { authority, store: self.store }, si::InsertAddress { key: key.to_string(), address })
    }
    pub fn ix_insert_order_fee_discount_for_referred_user(&self, authority: Pubkey, factor: u128) -> Instruction {
        store_ix(sa::InsertConfig { authority, store: self.store }, si::InsertOrderFeeDiscountForReferredUser { factor })
    }
    pub fn ix_toggle_feature(&self, authority: Pubkey, domain: &str, action: &str, enable: bool) -> Instruction {
        store_ix(
            sa::ToggleFeature { authority, store: self.store },
            si::ToggleFeature { domain: domain.to_string(), action: action.to_string(), enable },
        )
    }

    // ---------------------------------------------------------------- token map
    pub fn ix_initialize_token_map(&self, payer: Pubkey, token_map: Pubkey) -> Instruction {
        store_ix(
            sa::InitializeTokenMap { payer, store: self.store, token_map, system_program: system_program::ID },
            si::InitializeTokenMap {},
        )
    }
    pub fn ix_push_to_token_map(&self, authority: Pubkey, token_map: Pubkey, token: Pubkey, name: &str, builder: UpdateTokenConfigParams, enable: bool, new: bool) -> Instruction {
        store_ix(
            sa::PushToTokenMap { authority, store: self.store, token_map, token, system_program: system_program::ID },
            si::PushToTokenMap { name: name.to_string(), builder, enable, new },
        )
    }
    pub fn ix_push_to_token_map_synthetic(&self, authority: Pubkey, token_map: Pubkey, token: Pubkey, token_decimals: u8, name: &str, builder: UpdateTokenConfigParams, enable: bool, new: bool) -> Instruction {
        store_ix(
            sa::PushToTokenMapSynthetic { authority, store: self.store, token_map, system_program: system_program::ID },
            si::PushToTokenMapSynthetic { name: name.to_string(), token, token_decimals, builder, enable, new },
        )
    }
    pub fn ix_toggle_token_config(&self, authority: Pubkey, token: Pubkey, enable: bool) -> Instruction {
        store_ix(sa::ToggleTokenConfig { authority, store: self.store, token_map: self.token_map }, si::ToggleTokenConfig { token, enable })
    }
    pub fn ix_toggle_token_price_adjustment(&self, authority: Pubkey, token: Pubkey, enable: bool) -> Instruction {
        store_ix(sa::ToggleTokenConfig { authority, store: self.store, token_map: self.token_map }, si::ToggleTokenPriceAdjustment { token, enable })
    }
    pub fn ix_set_expected_provider(&self, authority: Pubkey, token: Pubkey, provider: u8) -> Instruction {
        store_ix(sa::SetExpectedProvider { authority, store: self.store, token_map: self.token_map }, si::SetExpectedProvider { token, provider })
    }
    pub fn ix_set_feed_config_v2(&self, authority: Pubkey, token: Pubkey, provider: u8, feed: Option<Pubkey>, timestamp_adjustment: Option<u32>, max_deviation_factor: Option<u128>) -> Instruction {
        store_ix(
            sa::SetFeedConfig { authority, store: self.store, token_map: self.token_map },
            si::SetFeedConfigV2 { token, provider, feed, timestamp_adjustment, max_deviation_factor },
        )
    }
    pub fn ix_set_feed_config_market_status_flag(&self, authority: Pubkey, token: Pubkey, provider: u8, flag: u8, enable: bool) -> Instruction {
        store_ix(
            sa::SetFeedConfigMarketStatusFlag { authority, store: self.store, token_map: self.token_map, token },
            si::SetFeedConfigMarketStatusFlag { provider, flag, enable },
        )
    }
    pub fn ix_token_name(&self, token_map: Pubkey, token: Pubkey) -> Instruction {
        store_ix(sa::ReadTokenMap { token_map }, si::TokenName { token })
    }

    // ---------------------------------------------------------------- oracle
    pub fn ix_initialize_oracle(&self, payer: Pubkey, authority: Pubkey, oracle: Pubkey) -> Instruction {
        store_ix(
            sa::InitializeOracle { payer, authority, store: self.store, oracle, system_program: system_program::ID },
            si::InitializeOracle {},
        )
    }
    pub fn ix_clear_all_prices(&self, authority: Pubkey, oracle: Pubkey) -> Instruction {
        store_ix(sa::ClearAllPrices { authority, store: self.store, oracle }, si::ClearAllPrices {})
    }
    /// `feeds[i]` is the feed account for `tokens[i]` (remaining accounts).
    pub fn ix_set_prices_from_price_feed(&self, authority: Pubkey, oracle: Pubkey, tokens: Vec<Pubkey>, feeds: &[Pubkey]) -> Instruction {
        let mut ix = store_ix(
            sa::SetPricesFromPriceFeed { authority, store: self.store, oracle, token_map: self.token_map, chainlink_program: None },
            si::SetPricesFromPriceFeed { tokens },
        );
        ix.accounts.extend(feeds.iter().map(|f| AccountMeta::new_readonly(*f, false)));
        ix
    }
    pub fn ix_initialize_price_feed(&self, authority: Pubkey, index: u16, provider: u8, token: Pubkey, feed_id: Pubkey) -> Instruction {
        let price_feed = self.price_feed_pda(&authority, index, provider, &token);
        store_ix(
            sa::InitializePriceFeed { authority, store: self.store, price_feed, system_program: system_program::ID },
            si::InitializePriceFeed { index, provider, token, feed_id },
        )
    }

    // ---------------------------------------------------------------- markets
    pub fn ix_initialize_market_vault(&self, authority: Pubkey, mint: Pubkey) -> Instruction {
        store_ix(
            sa::InitializeMarketVault { authority, store: self.store, mint, vault: self.market_vault_pda(&mint), system_program: system_program::ID, token_program: spl_token::ID },
            si::InitializeMarketVault {},
        )
    }
    pub fn ix_initialize_market(&self, authority: Pubkey, index: Pubkey, long: Pubkey, short: Pubkey, name: &str, enable: bool) -> Instruction {
        let market_token_mint = self.market_token_pda(&index, &long, &short);
        store_ix(
            sa::InitializeMarket {
                authority,
                store: self.store,
                market_token_mint,
                long_token_mint: long,
                short_token_mint: short,
                market: self.market_pda(&market_token_mint),
                token_map: self.token_map,
                long_token_vault: self.market_vault_pda(&long),
                short_token_vault: self.market_vault_pda(&short),
                system_program: system_program::ID,
                token_program: spl_token::ID,
            },
            si::InitializeMarket { index_token_mint: index, name: name.to_string(), enable },
        )
    }
    pub fn ix_toggle_market(&self, authority: Pubkey, market: Pubkey, enable: bool) -> Instruction {
        store_ix(sa::ToggleMarket { authority, store: self.store, market }, si::ToggleMarket { enable })
    }
    pub fn ix_toggle_gt_minting(&self, authority: Pubkey, market: Pubkey, enable: bool) -> Instruction {
        store_ix(sa::ToggleGTMinting { authority, store: self.store, market }, si::ToggleGtMinting { enable })
    }
    pub fn ix_market_transfer_in(&self, authority: Pubkey, from_authority: Pubkey, market: Pubkey, from: Pubkey, mint: Pubkey, amount: u64) -> Instruction {
        store_ix(
            sa::MarketTransferIn {
                authority,
                store: self.store,
                from_authority,
                market,
                from,
                vault: self.market_vault_pda(&mint),
                token_program: spl_token::ID,
                event_authority: self.event_authority,
                program: PID,
            },
            si::MarketTransferIn { amount },
        )
    }
    pub fn ix_update_market_config(&self, authority: Pubkey, market: Pubkey, key: &str, value: u128) -> Instruction {
        store_ix(sa::UpdateMarketConfig { authority, store: self.store, market }, si::UpdateMarketConfig { key: key.to_string(), value })
    }
    pub fn ix_update_market_config_flag(&self, authority: Pubkey, market: Pubkey, key: &str, value: bool) -> Instruction {
        store_ix(sa::UpdateMarketConfig { authority, store: self.store, market }, si::UpdateMarketConfigFlag { key: key.to_string(), value })
    }
    pub fn ix_update_market_config_with_buffer(&self, authority: Pubkey, market: Pubkey, buffer: Pubkey) -> Instruction {
        store_ix(sa::UpdateMarketConfigWithBuffer { authority, store: self.store, market, buffer }, si::UpdateMarketConfigWithBuffer {})
    }
    pub fn ix_initialize_market_config_buffer(&self, authority: Pubkey, buffer: Pubkey, expire_after_secs: u32) -> Instruction {
        store_ix(
            sa::InitializeMarketConfigBuffer { authority, store: self.store, buffer, system_program: system_program::ID },
            si::InitializeMarketConfigBuffer { expire_after_secs },
        )
    }
    pub fn ix_set_market_config_buffer_authority(&self, authority: Pubkey, buffer: Pubkey, new_authority: Pubkey) -> Instruction {
        store_ix(sa::SetMarketConfigBufferAuthority { authority, buffer }, si::SetMarketConfigBufferAuthority { new_authority })
    }
    pub fn ix_close_market_config_buffer(&self, authority: Pubkey, buffer: Pubkey, receiver: Pubkey) -> Instruction {
        store_ix(sa::CloseMarketConfigBuffer { authority, buffer, receiver }, si::CloseMarketConfigBuffer {})
    }
    pub fn ix_push_to_market_config_buffer(&self, authority: Pubkey, buffer: Pubkey, entries: Vec<(String, u128)>) -> Instruction {
        // `system_program` is a private field of the accounts struct: build the metas by hand in the
        // declared order (authority, buffer, system_program).
        let new_configs: Vec<EntryArgs> = entries.into_iter().map(|(key, value)| EntryArgs { key, value }).collect();
        Instruction {
            program_id: PID,
            accounts: vec![AccountMeta::new(authority, true), AccountMeta::new(buffer, false), AccountMeta::new_readonly(system_program::ID, false)],
            data: si::PushToMarketConfigBuffer { new_configs }.data(),
        }
    }
    pub fn ix_set_market_config_updatable(&self, authority: Pubkey, is_flag: bool, key: &str, updatable: bool) -> Instruction {
        store_ix(sa::SetMarketConfigUpdatable { authority, store: self.store }, si::SetMarketConfigUpdatable { is_flag, key: key.to_string(), updatable })
    }
    pub fn ix_claim_fees_from_market(&self, authority: Pubkey, market: Pubkey, token_mint: Pubkey, target: Pubkey) -> Instruction {
        store_ix(
            sa::ClaimFeesFromMarket {
                authority,
                store: self.store,
                market,
                token_mint,
                vault: self.market_vault_pda(&token_mint),
                target,
                token_program: spl_token::ID,
                event_authority: self.event_authority,
                program: PID,
            },
            si::ClaimFeesFromMarket {},
        )
    }
    pub fn ix_use_claimable_account(&self, authority: Pubkey, mint: Pubkey, owner: Pubkey, account: Pubkey, timestamp: i64, amount: u64) -> Instruction {
        store_ix(
            sa::UseClaimableAccount { authority, store: self.store, mint, owner, account, system_program: system_program::ID, token_program: spl_token::ID },
            si::UseClaimableAccount { timestamp, amount },
        )
    }
    pub fn ix_close_empty_claimable_account(&self, authority: Pubkey, mint: Pubkey, owner: Pubkey, account: Pubkey, timestamp: i64) -> Instruction {
        store_ix(
            sa::CloseEmptyClaimableAccount { authority, store: self.store, mint, owner, account, system_program: system_program::ID, token_program: spl_token::ID },
            si::CloseEmptyClaimableAccount { timestamp },
        )
    }
    pub fn ix_prepare_associated_token_account(&self, payer: Pubkey, owner: Pubkey, mint: Pubkey) -> Instruction {
        let account = spl_associated_token_account::get_associated_token_address_with_program_id(&owner, &mint, &spl_token::ID);
        store_ix(
            sa::PrepareAssociatedTokenAccount {
                payer,
                owner,
                mint,
                account,
                system_program: system_program::ID,
                token_program: spl_token::ID,
                associated_token_program: spl_associated_token_account::ID,
            },
            si::PrepareAssociatedTokenAccount {},
        )
    }
    pub fn ix_create_token_metadata(&self, authority: Pubkey, mint: Pubkey, metadata: Pubkey) -> Instruction {
        store_ix(
            sa::CreateTokenMetadata {
                authority,
                store: self.store,
                mint,
                metadata,
                system_program: system_program::ID,
                sysvar_instructions: anchor_lang::solana_program::sysvar::instructions::ID,
                metadata_program: self.metadata_program,
            },
            si::CreateTokenMetadata { name: "n".into(), symbol: "s".into(), uri: "u".into() },
        )
    }
    pub fn ix_update_token_metadata(&self, authority: Pubkey, metadata: Pubkey) -> Instruction {
        store_ix(
            sa::UpdateTokenMetadata { authority, store: self.store, metadata, metadata_program: self.metadata_program },
            si::UpdateTokenMetadata { name: "n".into(), symbol: "s".into(), uri: "u".into() },
        )
    }

    // ---------------------------------------------------------------- GT
    pub fn ix_initialize_gt(&self, authority: Pubkey, decimals: u8, initial_minting_cost: u128, grow_factor: u128, grow_step: u64, ranks: Vec<u64>) -> Instruction {
        store_ix(
            sa::InitializeGt { authority, store: self.store, system_program: system_program::ID },
            si::InitializeGt { decimals, initial_minting_cost, grow_factor, grow_step, ranks },
        )
    }
    pub fn ix_gt_set_order_fee_discount_factors(&self, authority: Pubkey, factors: Vec<u128>) -> Instruction {
        store_ix(sa::ConfigureGt { authority, store: self.store }, si::GtSetOrderFeeDiscountFactors { factors })
    }
    pub fn ix_gt_set_referral_reward_factors(&self, authority: Pubkey, factors: Vec<u128>) -> Instruction {
        store_ix(sa::ConfigureGt { authority, store: self.store }, si::GtSetReferralRewardFactors { factors })
    }
    pub fn ix_gt_set_exchange_time_window(&self, authority: Pubkey, window: u32) -> Instruction {
        store_ix(sa::ConfigureGt { authority, store: self.store }, si::GtSetExchangeTimeWindow { window })
    }
    pub fn ix_prepare_gt_exchange_vault(&self, payer: Pubkey, time_window_index: i64, time_window: u32) -> Instruction {
        store_ix(
            sa::PrepareGtExchangeVault { payer, store: self.store, vault: self.gt_exchange_vault_pda(time_window_index, time_window), system_program: system_program::ID },
            si::PrepareGtExchangeVault { time_window_index },
        )
    }
    pub fn ix_confirm_gt_exchange_vault_v2(&self, authority: Pubkey, vault: Pubkey, buyback_value: u128, buyback_price: Option<u128>) -> Instruction {
        store_ix(
            sa::ConfirmGtExchangeVault { authority, store: self.store, vault, event_authority: self.event_authority, program: PID },
            si::ConfirmGtExchangeVaultV2 { buyback_value, buyback_price },
        )
    }
    pub fn ix_request_gt_exchange(&self, owner: Pubkey, vault: Pubkey, amount: u64) -> Instruction {
        store_ix(
            sa::RequestGtExchange {
                owner,
                store: self.store,
                user: self.user_pda(&owner),
                vault,
                exchange: self.gt_exchange_pda(&vault, &owner),
                system_program: system_program::ID,
                event_authority: self.event_authority,
                program: PID,
            },
            si::RequestGtExchange { amount },
        )
    }
    pub fn ix_close_gt_exchange(&self, authority: Pubkey, owner: Pubkey, vault: Pubkey) -> Instruction {
        store_ix(
            sa::CloseGtExchange { authority, store: self.store, owner, vault, exchange: self.gt_exchange_pda(&vault, &owner) },
            si::CloseGtExchange {},
        )
    }
    pub fn ix_update_gt_cumulative_inv_cost_factor(&self, authority: Pubkey) -> Instruction {
        store_ix(sa::UpdateGtCumulativeInvCostFactor { authority, store: self.store }, si::UpdateGtCumulativeInvCostFactor {})
    }
    pub fn ix_mint_gt_reward(&self, authority: Pubkey, user_owner: Pubkey, amount: u64) -> Instruction {
        store_ix(
            sa::MintGtReward { authority, store: self.store, user: self.user_pda(&user_owner), event_authority: self.event_authority, program: PID },
            si::MintGtReward { amount },
        )
    }

    // ---------------------------------------------------------------- users / referral
    pub fn ix_prepare_user(&self, owner: Pubkey) -> Instruction {
        store_ix(
            sa::PrepareUser { owner, store: self.store, user: self.user_pda(&owner), system_program: system_program::ID },
            si::PrepareUser {},
        )
    }
    pub fn ix_initialize_referral_code(&self, owner: Pubkey, code: [u8; 8]) -> Instruction {
        store_ix(
            sa::InitializeReferralCode { owner, store: self.store, referral_code: self.referral_code_pda(&code), user: self.user_pda(&owner), system_program: system_program::ID },
            si::InitializeReferralCode { code },
        )
    }
    /// `referrer_owner` is the owner of the user account passed as `referrer_user`.
    pub fn ix_set_referrer(&self, owner: Pubkey, code: [u8; 8], referrer_owner: Pubkey) -> Instruction {
        store_ix(
            sa::SetReferrer { owner, store: self.store, user: self.user_pda(&owner), referral_code: self.referral_code_pda(&code), referrer_user: self.user_pda(&referrer_owner) },
            si::SetReferrer { code },
        )
    }
    /// `user_owner` is the owner of the user account passed as `user` (normally == `owner`).
    pub fn ix_transfer_referral_code(&self, owner: Pubkey, user_owner: Pubkey, code: [u8; 8], receiver_owner: Pubkey) -> Instruction {
        store_ix(
            sa::TransferReferralCode { owner, store: self.store, user: self.user_pda(&user_owner), referral_code: self.referral_code_pda(&code), receiver_user: self.user_pda(&receiver_owner) },
            si::TransferReferralCode {},
        )
    }
    pub fn ix_cancel_referral_code_transfer(&self, owner: Pubkey, user_owner: Pubkey, code: [u8; 8]) -> Instruction {
        store_ix(
            sa::CancelReferralCodeTransfer { owner, store: self.store, user: self.user_pda(&user_owner), referral_code: self.referral_code_pda(&code) },
            si::CancelReferralCodeTransfer {},
        )
    }
    /// `current_owner` owns the `user` account; `receiver_owner` owns the `receiver_user` account
    /// (normally == `next_owner`, the signer).
    pub fn ix_accept_referral_code(&self, next_owner: Pubkey, current_owner: Pubkey, code: [u8; 8], receiver_owner: Pubkey) -> Instruction {
        store_ix(
            sa::AcceptReferralCode { next_owner, store: self.store, user: self.user_pda(&current_owner), referral_code: self.referral_code_pda(&code), receiver_user: self.user_pda(&receiver_owner) },
            si::AcceptReferralCode {},
        )
    }
    pub fn ix_set_builder_fee_factor(&self, owner: Pubkey, user_owner: Pubkey, factor: u128) -> Instruction {
        store_ix(
            sa::SetBuilderFeeFactor { owner, store: self.store, user: self.user_pda(&user_owner), event_authority: self.event_authority, program: PID },
            si::SetBuilderFeeFactor { factor },
        )
    }

    // ---------------------------------------------------------------- virtual inventories / misc
    pub fn ix_create_virtual_inventory_for_swaps(&self, authority: Pubkey, index: u32, long_amount_decimals: u8, short_amount_decimals: u8) -> Instruction {
        store_ix(
            sa::CreateVirtualInventoryForSwaps { authority, store: self.store, virtual_inventory: self.vi_for_swaps_pda(index), system_program: system_program::ID },
            si::CreateVirtualInventoryForSwaps { index, long_amount_decimals, short_amount_decimals },
        )
    }
    pub fn ix_join_virtual_inventory_for_swaps(&self, authority: Pubkey, virtual_inventory: Pubkey, market: Pubkey) -> Instruction {
        store_ix(
            sa::JoinVirtualInventoryForSwaps { authority, store: self.store, token_map: self.token_map, virtual_inventory, market },
            si::JoinVirtualInventoryForSwaps {},
        )
    }
    pub fn ix_leave_virtual_inventory_for_swaps(&self, authority: Pubkey, virtual_inventory: Pubkey, market: Pubkey) -> Instruction {
        store_ix(sa::LeaveVirtualInventoryForSwaps { authority, store: self.store, virtual_inventory, market }, si::LeaveVirtualInventoryForSwaps {})
    }
    pub fn ix_create_virtual_inventory_for_positions(&self, authority: Pubkey, index_token: Pubkey) -> Instruction {
        store_ix(
            sa::CreateVirtualInventoryForPositions { authority, store: self.store, index_token, virtual_inventory: self.vi_for_positions_pda(&index_token), system_program: system_program::ID },
            si::CreateVirtualInventoryForPositions {},
        )
    }
    pub fn ix_join_virtual_inventory_for_positions(&self, authority: Pubkey, virtual_inventory: Pubkey, market: Pubkey) -> Instruction {
        store_ix(sa::JoinOrLeaveVirtualInventoryForPositions { authority, store: self.store, virtual_inventory, market }, si::JoinVirtualInventoryForPositions {})
    }
    pub fn ix_leave_virtual_inventory_for_positions(&self, authority: Pubkey, virtual_inventory: Pubkey, market: Pubkey) -> Instruction {
        store_ix(sa::JoinOrLeaveVirtualInventoryForPositions { authority, store: self.store, virtual_inventory, market }, si::LeaveVirtualInventoryForPositions {})
    }
    pub fn ix_disable_virtual_inventory(&self, authority: Pubkey, virtual_inventory: Pubkey) -> Instruction {
        store_ix(sa::DisableVirtualInventory { authority, store: self.store, virtual_inventory }, si::DisableVirtualInventory {})
    }
    pub fn ix_leave_disabled_virtual_inventory(&self, authority: Pubkey, virtual_inventory: Pubkey, market: Pubkey) -> Instruction {
        store_ix(sa::LeaveDisabledVirtualInventory { authority, store: self.store, virtual_inventory, market }, si::LeaveDisabledVirtualInventory {})
    }
    pub fn ix_close_virtual_inventory(&self, authority: Pubkey, virtual_inventory: Pubkey) -> Instruction {
        store_ix(
            sa::CloseVirtualInventory { authority, store: self.store, store_wallet: self.store_wallet, virtual_inventory },
            si::CloseVirtualInventory {},
        )
    }
    pub fn ix_migrate_referral_code(&self, authority: Pubkey) -> Instruction {
        store_ix(sa::MigrateReferralCode { authority, store: self.store, system: system_program::ID }, si::MigrateReferralCode {})
    }
    pub fn ix_initialize_callback_authority(&self, payer: Pubkey) -> Instruction {
        store_ix(
            sa::InitializeCallbackAuthority { payer, callback_authority: self.callback_authority, system_program: system_program::ID },
            si::InitializeCallbackAuthority {},
        )
    }
}

/// Create an SPL mint with real instructions (system create_account + initialize_mint2).
pub fn create_mint(vm: &mut Svm, payer: Pubkey, mint: Pubkey, authority: Pubkey, decimals: u8) -> Result<(), ProgramError> {
    let space = spl_token::state::Mint::LEN;
    vm.process(&system_instruction::create_account(&payer, &mint, rent(space), space as u64, &spl_token::ID))?;
    vm.process(&spl_token::instruction::initialize_mint2(&spl_token::ID, &mint, &authority, None, decimals)?)
}

/// Create an SPL token account with real instructions and mint `amount` to it.
pub fn create_token_account(vm: &mut Svm, payer: Pubkey, account: Pubkey, mint: Pubkey, owner: Pubkey, mint_authority: Pubkey, amount: u64) -> Result<(), ProgramError> {
    let space = spl_token::state::Account::LEN;
    vm.process(&system_instruction::create_account(&payer, &account, rent(space), space as u64, &spl_token::ID))?;
    vm.process(&spl_token::instruction::initialize_account3(&spl_token::ID, &account, &mint, &owner)?)?;
    if amount > 0 {
        vm.process(&spl_token::instruction::mint_to(&spl_token::ID, &mint, &account, &mint_authority, &[], amount)?)?;
    }
    Ok(())
}

use anchor_lang::solana_program::program_pack::Pack;

fn step(vm: &mut Svm, what: &str, ix: &Instruction) -> Result<(), String> {
    vm.process(ix).map_err(|e| format!("world1: {what} failed: {e:?}"))
}

impl World1 {
    /// A clone of the per-thread cached world (sysvars reset to the defaults used at build time).
    pub fn fresh() -> Result<World1, String> {
        let cached = CACHE.with(|c| c.borrow().clone());
        let w = match cached {
            Some(w) => w,
            None => {
                let w = World1::build()?;
                CACHE.with(|c| *c.borrow_mut() = Some(w.clone()));
                w
            }
        };
        svm::init();
        svm::set_sysvars(Sysvars::default());
        svm::take_events();
        Ok(w)
    }

    /// Build the world from nothing by executing real instructions.
    pub fn build() -> Result<World1, String> {
        let mut vm = Svm::new();
        let admin = svm::key_of("w1-admin");
        vm.fund(admin, 1_000_000_000_000_000);
        let store = pda(&[b"data_store", &gmsol_utils::to_seed("")]);
        let role_keys: Vec<Pubkey> = ROLES.iter().map(|r| svm::key_of(&format!("w1-role-{r}"))).collect();
        let stranger = svm::key_of("w1-stranger");
        let token_map = svm::key_of("w1-token-map");
        let long_mint = svm::key_of("w1-long-mint");
        let short_mint = svm::key_of("w1-short-mint");
        let index_a = svm::key_of("w1-index-a");
        let index_b = svm::key_of("w1-index-b");
        let oracle = svm::key_of("w1-oracle");
        let users: Vec<Pubkey> = (0..N_USERS).map(|i| svm::key_of(&format!("w1-user-{i}"))).collect();
        let metadata_program = metadata_program_id();
        let mut k = Keys {
            admin,
            store,
            store_wallet: pda(&[b"store_wallet", store.as_ref()]),
            event_authority: pda(&[b"__event_authority"]),
            role_keys,
            stranger,
            receiver: svm::key_of("w1-receiver"),
            holding: svm::key_of("w1-holding"),
            token_map,
            long_mint,
            short_mint,
            index_a,
            index_b,
            oracle,
            feeds: [(Pubkey::default(), Pubkey::default(), Pubkey::default()); 4],
            vault_long: Pubkey::default(),
            vault_short: Pubkey::default(),
            markets: [MarketKeys { index: index_a, long: long_mint, short: short_mint, market_token: Pubkey::default(), market: Pubkey::default() }; 3],
            users,
            callback_authority: pda(&[gmsol_callback::CALLBACK_AUTHORITY_SEED]),
            metadata_program,
        };
        for key in k.role_keys.iter().chain([k.stranger, k.receiver, k.holding].iter()).chain(k.users.iter()) {
            vm.fund(*key, 1_000_000_000_000);
        }
        // stub for the Metaplex program (only a .so exists): records the CPI like the probe program
        vm.set_account(metadata_program, Acct { lamports: 1, data: vec![], owner: svm::key_of("native-loader"), executable: true });
        svm::register_processor(metadata_program, |_pid, _accounts, _data| Ok(()));

        // store + roles
        step(&mut vm, "initialize", &k.ix_initialize_with(admin, Some(k.receiver), Some(k.holding)))?;
        for (i, role) in ROLES.iter().enumerate() {
            step(&mut vm, "enable_role", &k.ix_enable_role(admin, role))?;
            step(&mut vm, "grant_role", &k.ix_grant_role(admin, k.role_keys[i], role))?;
        }
        let mk = k.role_key(RoleKey::MARKET_KEEPER);
        let pk = k.role_key(RoleKey::PRICE_KEEPER);
        let oc = k.role_key(RoleKey::ORACLE_CONTROLLER);

        // mints (real SPL mints, authority = admin)
        create_mint(&mut vm, admin, long_mint, admin, LONG_DECIMALS).map_err(|e| format!("world1: long mint: {e:?}"))?;
        create_mint(&mut vm, admin, short_mint, admin, SHORT_DECIMALS).map_err(|e| format!("world1: short mint: {e:?}"))?;

        // token map
        step(&mut vm, "initialize_token_map", &k.ix_initialize_token_map(admin, token_map))?;
        let provider = PriceProviderKind::ChainlinkDataStreams;
        let tokens = [long_mint, short_mint, index_a, index_b];
        let feed_ids: Vec<Pubkey> = (0..4).map(|i| svm::key_of(&format!("w1-feed-id-{i}"))).collect();
        let params = |feed: Pubkey| {
            UpdateTokenConfigParams::default()
                .update_price_feed(&provider, feed, None)
                .expect("feed index")
                .with_heartbeat_duration(120)
                .with_precision(4)
                .with_expected_provider(provider)
        };
        step(&mut vm, "push_to_token_map(long)", &k.ix_push_to_token_map(mk, token_map, long_mint, "LONG", params(feed_ids[0]), true, true))?;
        step(&mut vm, "push_to_token_map(short)", &k.ix_push_to_token_map(mk, token_map, short_mint, "SHORT", params(feed_ids[1]), true, true))?;
        step(&mut vm, "push_to_token_map_synthetic(a)", &k.ix_push_to_token_map_synthetic(mk, token_map, index_a, INDEX_DECIMALS, "IDXA", params(feed_ids[2]), true, true))?;
        step(&mut vm, "push_to_token_map_synthetic(b)", &k.ix_push_to_token_map_synthetic(mk, token_map, index_b, INDEX_DECIMALS, "IDXB", params(feed_ids[3]), true, true))?;
        step(&mut vm, "set_token_map", &k.ix_set_token_map(mk, token_map))?;

        // oracle (large account: created at top level like a client does)
        let oracle_space = 8 + std::mem::size_of::<gmsol_store::states::Oracle>();
        step(&mut vm, "create oracle account", &system_instruction::create_account(&admin, &oracle, rent(oracle_space), oracle_space as u64, &PID))?;
        step(&mut vm, "initialize_oracle", &k.ix_initialize_oracle(admin, oc, oracle))?;

        // custom price feeds: real initialize_price_feed, then synthesised update
        let now = svm::sysvars().unix_timestamp;
        let prices: [u128; 4] = [150, 1, 60_000, 3_000];
        for i in 0..4 {
            step(&mut vm, "initialize_price_feed", &k.ix_initialize_price_feed(pk, 0, provider as u8, tokens[i], feed_ids[i]))?;
            let feed_key = k.price_feed_pda(&pk, 0, provider as u8, &tokens[i]);
            k.feeds[i] = (tokens[i], feed_ids[i], feed_key);
            // price with 8 decimals
            let p = prices[i] * 100_000_000;
            set_feed_price(&mut vm, &feed_key, now, p, p - p / 1000, p + p / 1000)?;
        }

        // vaults + markets
        step(&mut vm, "initialize_market_vault(long)", &k.ix_initialize_market_vault(mk, long_mint))?;
        step(&mut vm, "initialize_market_vault(short)", &k.ix_initialize_market_vault(mk, short_mint))?;
        k.vault_long = k.market_vault_pda(&long_mint);
        k.vault_short = k.market_vault_pda(&short_mint);
        let specs = [(index_a, long_mint, short_mint, "A/USD[LONG-SHORT]"), (index_b, long_mint, short_mint, "B/USD[LONG-SHORT]"), (long_mint, long_mint, long_mint, "LONG/USD[LONG-LONG]")];
        for (i, (index, long, short, name)) in specs.iter().enumerate() {
            step(&mut vm, "initialize_market", &k.ix_initialize_market(mk, *index, *long, *short, name, true))?;
            let market_token = k.market_token_pda(index, long, short);
            k.markets[i] = MarketKeys { index: *index, long: *long, short: *short, market_token, market: k.market_pda(&market_token) };
        }

        // users
        for u in k.users.clone() {
            step(&mut vm, "prepare_user", &k.ix_prepare_user(u))?;
        }
        svm::take_events();
        Ok(World1 { vm, k })
    }

    pub fn process(&mut self, ix: &Instruction) -> Result<(), ProgramError> {
        self.vm.process(ix)
    }

    /// Read a zero-copy account of the store program.
    pub fn read<T: bytemuck::Pod>(&self, key: &Pubkey) -> Option<T> {
        svm::read_zero_copy::<T>(self.vm.data(key))
    }
    pub fn store(&self) -> gmsol_store::states::Store {
        self.read(&self.k.store).expect("store account")
    }
    pub fn market(&self, i: usize) -> gmsol_store::states::Market {
        self.read(&self.k.markets[i].market).expect("market account")
    }
    pub fn user(&self, owner: &Pubkey) -> Option<gmsol_store::states::user::UserHeader> {
        self.read(&self.k.user_pda(owner))
    }

    /// Add a funded key holding exactly the given roles (granted through the real `grant_role`).
    pub fn add_signer(&mut self, label: &str, roles: &[&str]) -> Result<Pubkey, String> {
        let key = svm::key_of(label);
        self.vm.fund(key, 1_000_000_000_000);
        for r in roles {
            let ix = self.k.ix_grant_role(self.k.admin, key, r);
            step(&mut self.vm, "grant_role(add_signer)", &ix)?;
        }
        Ok(key)
    }
}

/// Synthesise an update of a custom price feed account: the account bytes are decoded,
/// `PriceFeed::update` is applied through the hook (same validation as the chainlink path after the
/// report has been verified) and the bytes are written back.
pub fn set_feed_price(vm: &mut Svm, feed_key: &Pubkey, ts: i64, price: u128, min: u128, max: u128) -> Result<(), String> {
    let acct = vm.get(feed_key).cloned().ok_or("world1: price feed account missing")?;
    let mut feed: PriceFeed = svm::read_zero_copy(&acct.data).ok_or("world1: price feed account too small")?;
    let mut p = PriceFeedPrice::new(8, ts, price, min, max, 0);
    p.set_flag(gmsol_utils::price::PriceFlag::Open, true);
    gmsol_store::verif::price_feed_update(&mut feed, &p, 10, false).map_err(|e| format!("world1: price_feed_update: {e}"))?;
    let mut data = acct.data.clone();
    data[8..8 + std::mem::size_of::<PriceFeed>()].copy_from_slice(bytemuck::bytes_of(&feed));
    vm.set_account(*feed_key, Acct { data, ..acct });
    Ok(())
}

/// Permission-class Anchor / CoreError codes (used by the C19/C20 oracles).
pub mod codes {
    use gmsol_store::CoreError;
    pub fn core(e: CoreError) -> u32 {
        u32::from(e)
    }
    pub fn not_an_admin() -> u32 {
        core(CoreError::NotAnAdmin)
    }
    pub fn permission_denied() -> u32 {
        core(CoreError::PermissionDenied)
    }
    /// Anchor `ConstraintHasOne`
    pub const CONSTRAINT_HAS_ONE: u32 = 2001;
    /// Anchor `ConstraintRaw`
    pub const CONSTRAINT_RAW: u32 = 2003;
    /// Anchor `ConstraintSeeds`
    pub const CONSTRAINT_SEEDS: u32 = 2006;
}
