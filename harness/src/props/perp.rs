//! History-based checks on positions: C07 (open interest / collateral totals), C09 (health and
//! liquidation gating, model clauses), C13 (borrowing accounting).

use crate::engine::{Ctx, Rec};
use crate::mgen::*;
use crate::refmath::*;
use crate::vmarket::VPositionOps;
use gmsol_model::{BorrowingFeeMarketExt, PositionExt};
use num_bigint::BigInt;
use num_traits::Zero;

#[derive(Clone, Copy, PartialEq, Eq)]
pub enum Which {
    C07,
    C09,
    C13,
    C12,
}

fn pool_side(p: &crate::vmarket::VPool<u128>, long: bool) -> u128 {
    if long { p.long_amount } else { p.short_amount }
}

fn check_totals(w: &World, step: usize) -> Result<(), String> {
    for is_long in [true, false] {
        for coll_long in [true, false] {
            let mut usd = BigInt::zero();
            let mut tokens = BigInt::zero();
            let mut coll = BigInt::zero();
            for p in &w.positions {
                if p.is_long == is_long && p.is_collateral_token_long == coll_long {
                    usd += b(p.size_in_usd);
                    tokens += b(p.size_in_tokens);
                    coll += b(p.collateral_token_amount);
                }
            }
            let m = &w.market;
            let oi = if is_long { &m.open_interest.0 } else { &m.open_interest.1 };
            let oit = if is_long { &m.open_interest_in_tokens.0 } else { &m.open_interest_in_tokens.1 };
            let cs = if is_long { &m.collateral_sum.0 } else { &m.collateral_sum.1 };
            let side = if is_long { "long" } else { "short" };
            let ct = if coll_long { "long-token" } else { "short-token" };
            if b(pool_side(oi, coll_long)) != usd {
                return Err(format!("step {step}: {side} open interest ({ct} collateral) = {} but positions sum to {usd}", pool_side(oi, coll_long)));
            }
            if b(pool_side(oit, coll_long)) != tokens {
                return Err(format!("step {step}: {side} open interest in tokens ({ct} collateral) = {} but positions sum to {tokens}", pool_side(oit, coll_long)));
            }
            if b(pool_side(cs, coll_long)) != coll {
                return Err(format!("step {step}: {side} collateral sum ({ct}) = {} but positions hold {coll}", pool_side(cs, coll_long)));
            }
        }
    }
    Ok(())
}

fn funding_indices(m: &M) -> [u128; 8] {
    [
        m.funding_amount_per_size.0.long_amount, m.funding_amount_per_size.0.short_amount,
        m.funding_amount_per_size.1.long_amount, m.funding_amount_per_size.1.short_amount,
        m.claimable_funding_amount_per_size.0.long_amount, m.claimable_funding_amount_per_size.0.short_amount,
        m.claimable_funding_amount_per_size.1.long_amount, m.claimable_funding_amount_per_size.1.short_amount,
    ]
}

fn check_funding(w: &World, prev: &mut [u128; 8], step: usize, rec: &mut Rec) -> Result<(), String> {
    let cur = funding_indices(&w.market);
    for i in 0..8 {
        if cur[i] < prev[i] {
            return Err(format!("step {step}: funding index #{i} decreased: {} -> {}", prev[i], cur[i]));
        }
    }
    rec.class_if(cur[..4] != prev[..4], "funding_index_grew");
    rec.class_if(cur[4..] != prev[4..], "claimable_index_grew");
    *prev = cur;
    for (i, p) in w.positions.iter().enumerate() {
        if p.size_in_usd == 0 {
            continue;
        }
        let mut pc = *p;
        let mut m = w.market.clone();
        let ops = VPositionOps::new(&mut m, &mut pc);
        if let Err(e) = ops.pending_funding_fees() {
            return Err(format!("step {step}: pending funding fees of position {i} cannot be computed (negative?): {e}"));
        }
    }
    Ok(())
}

fn check_borrowing(w: &World, prev_factors: &mut (u128, u128), step: usize, rec: &mut Rec, kink_optimum_ge_unit: bool) -> Result<(), String> {
    let m = &w.market;
    let f = (m.borrowing_factor.long_amount, m.borrowing_factor.short_amount);
    if f.0 < prev_factors.0 || f.1 < prev_factors.1 {
        return Err(format!("step {step}: cumulative borrowing factor decreased: {prev_factors:?} -> {f:?}"));
    }
    rec.class_if(f.0 > prev_factors.0 || f.1 > prev_factors.1, "factor_grew");
    *prev_factors = f;
    let mut distinct = std::collections::BTreeSet::new();
    for is_long in [true, false] {
        let mut sum = BigInt::zero();
        for p in &w.positions {
            if p.is_long == is_long && p.size_in_usd != 0 {
                sum += floor_div(&(b(p.size_in_usd) * b(p.borrowing_factor)), &b(UNIT));
                distinct.insert((is_long, p.borrowing_factor));
            }
        }
        let total = pool_side(&m.total_borrowing, is_long);
        if b(total) != sum {
            return Err(format!("step {step}: total borrowing ({}) = {total}, sum over positions of size*factor = {sum}", if is_long { "long" } else { "short" }));
        }
        let prices = w.prices();
        match m.total_pending_borrowing_fees(&prices, is_long) {
            Ok(_) => {}
            Err(e) => {
                let msg = e.to_string();
                if msg.contains("total pending borrowing fees") {
                    return Err(format!("step {step}: total_pending_borrowing_fees({is_long}) failed: {msg}"));
                }
                // with the optimal usage at or above 100 % the kink formula has no branch above the kink:
                // the computation must not fail there (usage may exceed 100 % after price moves)
                if msg.contains("kink model") && kink_optimum_ge_unit {
                    return Err(format!("step {step}: total_pending_borrowing_fees({is_long}) failed in the kink model although the optimal usage is >= 100 %: {msg}"));
                }
                rec.class("pending_fees_other_error");
            }
        }
    }
    rec.class_if(distinct.len() >= 3, "positions_at_different_factors");
    Ok(())
}

pub fn check_history(h: &History, rec: &mut Rec, which: Which) -> Result<(), String> {
    let mut w = World::start(h);
    let mut factors = (w.market.borrowing_factor.long_amount, w.market.borrowing_factor.short_amount);
    let mut findex = funding_indices(&w.market);
    let (mut partial, mut full, mut promoted, mut liq_ok, mut liq_rejected) = (0, 0, 0, 0, 0);
    for (step, op) in h.ops.iter().enumerate() {
        let before = w.clone();
        let out = w.apply(op);
        match (&out, which) {
            (Outcome::Increase { pos, .. }, Which::C09) => {
                let prices = w.prices();
                let mut p = w.positions[*pos];
                let mut m = w.market.clone();
                let ops = VPositionOps::new(&mut m, &mut p);
                match ops.check_liquidatable(&prices, true, false) {
                    Ok(None) => {}
                    Ok(Some(reason)) => return Err(format!("step {step}: position {pos} is liquidatable ({reason}) right after a successful increase")),
                    Err(e) => return Err(format!("step {step}: health check failed after increase: {e}")),
                }
                // independent of the validation's own predicate: at the same prices a liquidation must not
                // be possible (predicate under the liquidation thresholds, and a real liquidation attempt on
                // a copy of the world). Configurations whose liquidation collateral factor is above the
                // validation factor can make a validated position liquidatable by construction: counted.
                let liq_factor = h.cfg.min_collateral_factor_for_liquidation.unwrap_or(h.cfg.min_collateral_factor);
                if liq_factor <= h.cfg.min_collateral_factor {
                    let mut p2 = w.positions[*pos];
                    let mut m2 = w.market.clone();
                    let ops2 = VPositionOps::new(&mut m2, &mut p2);
                    if let Ok(Some(reason)) = ops2.check_liquidatable(&prices, true, true) {
                        return Err(format!("step {step}: position {pos} can be liquidated ({reason}) right after a successful increase at the same prices"));
                    }
                    let mut wl = w.clone();
                    if let Outcome::Decrease { liquidation: true, .. } = wl.apply(&Op::Liquidate { pos: *pos as u8 }) {
                        return Err(format!("step {step}: a liquidation of position {pos} succeeded right after a successful increase at the same prices"));
                    }
                    rec.class("increase_then_liquidation_refused");
                } else {
                    rec.class("liquidation_factor_above_validation_factor");
                }
                rec.class("increase_ok");
            }
            (Outcome::Decrease { pos, report, liquidation, before: pos_before }, _) => {
                let removed = report.should_remove();
                let p = w.positions[*pos];
                if removed {
                    full += 1;
                    if which == Which::C07 && (p.size_in_usd != 0 || p.size_in_tokens != 0 || p.collateral_token_amount != 0) {
                        return Err(format!("step {step}: position {pos} reported removed but holds {p:?}"));
                    }
                    if let Op::Decrease { size_bp, .. } = op {
                        if *size_bp < 10_000 {
                            promoted += 1;
                        }
                    }
                } else {
                    partial += 1;
                }
                if which == Which::C09 {
                    if *liquidation {
                        liq_ok += 1;
                        // it must have been liquidatable before, under the liquidation thresholds
                        let mut bw = before.clone();
                        let _ = bw.update_fees_state();
                        let prices = bw.prices();
                        let mut pb = bw.positions[*pos];
                        let ops = VPositionOps::new(&mut bw.market, &mut pb);
                        match ops.check_liquidatable(&prices, true, true) {
                            Ok(Some(_)) => {}
                            Ok(None) => return Err(format!("step {step}: liquidation of position {pos} succeeded although it was not liquidatable ({pos_before:?})")),
                            Err(e) => return Err(format!("step {step}: cannot evaluate liquidatable before: {e}")),
                        }
                        if !removed {
                            return Err(format!("step {step}: liquidation left position {pos} open: {p:?}"));
                        }
                    } else if !removed {
                        let swapped = matches!(op, Op::Decrease { swap, .. } if swap % 3 == 2) && p.is_long != p.is_collateral_token_long;
                        let prices = w.prices();
                        let mut pc = p;
                        let mut m = w.market.clone();
                        let ops = VPositionOps::new(&mut m, &mut pc);
                        match ops.check_liquidatable(&prices, false, false) {
                            Ok(None) => {}
                            Ok(Some(reason)) => {
                                if swapped {
                                    // The collateral->pnl-token swap runs after the health validation
                                    // and moves the pool; counted, not asserted.
                                    rec.class("liquidatable_after_post_validation_swap");
                                } else {
                                    return Err(format!("step {step}: position {pos} is liquidatable ({reason}) after a decrease that left it open"));
                                }
                            }
                            Err(e) => return Err(format!("step {step}: health check failed after decrease: {e}")),
                        }
                        rec.class("decrease_left_open");
                    }
                }
            }
            (Outcome::Failed { error, .. }, Which::C09) => {
                if matches!(op, Op::Liquidate { .. }) {
                    liq_rejected += 1;
                    rec.class_if(error.contains("iquidatable"), "liquidation_rejected_healthy");
                }
            }
            _ => {}
        }
        match which {
            Which::C07 => check_totals(&w, step)?,
            Which::C13 => check_borrowing(&w, &mut factors, step, rec, h.cfg.kink_long.0 >= UNIT)?,
            Which::C09 => {}
            Which::C12 => check_funding(&w, &mut findex, step, rec)?,
        }
    }
    rec.class_if(partial > 0, "partial_decrease");
    rec.class_if(full > 0, "full_close");
    rec.class_if(promoted > 0, "promoted_to_full_close");
    rec.class_if(liq_ok > 0, "liquidation_succeeded");
    rec.class_if(liq_rejected > 0, "liquidation_failed");
    match which {
        Which::C07 => rec.nontrivial_if(partial > 0 && full > 0),
        Which::C09 => rec.nontrivial_if(liq_ok > 0 || liq_rejected > 0 || partial > 0),
        Which::C13 => rec.nontrivial_if(partial + full > 0),
        Which::C12 => rec.nontrivial_if(findex.iter().any(|x| *x > 0)),
    }
    Ok(())
}

/// Histories dominated by position operations with price moves and clock advances.
pub fn position_heavy(max_ops: usize) -> impl proptest::strategy::Strategy<Value = History> {
    use proptest::prelude::*;
    let pos_op = prop_oneof![
        5 => (0u8..NUM_POSITIONS as u8, prop_oneof![3 => 10u128.pow(7)..=10u128.pow(9), 1 => 10u128.pow(9)..=10u128.pow(10), 1 => 1u128..=10u128.pow(6)], 1u128..=60)
            .prop_map(|(pos, c, lev)| {
                let (_, coll_long) = position_sides(pos as usize);
                Op::Increase { pos, collateral: if coll_long { c } else { c / 5 + 1 }, size_usd: lev }
            }),
        5 => (0u8..NUM_POSITIONS as u8, prop_oneof![3 => 1u16..=9999, 3 => Just(10_000u16), 1 => 10_001u16..=20_000, 1 => Just(0u16), 2 => 1u16..=3, 1 => 9_990u16..=9_999],
              prop_oneof![3 => Just(0u16), 1 => 1u16..=10_000], any::<bool>(), 0u8..3, any::<bool>())
            .prop_map(|(pos, size_bp, withdraw_bp, cap, swap, insolvent_ok)| Op::Decrease { pos, size_bp, withdraw_bp, cap, swap, insolvent_ok }),
        2 => (0u8..NUM_POSITIONS as u8).prop_map(|pos| Op::Liquidate { pos }),
        3 => (prop_oneof![3 => -300i16..=300, 2 => -2500i16..=2500], any::<bool>()).prop_map(|(bp, index_only)| Op::MovePrice { bp, index_only }),
        3 => prop_oneof![3 => 1u32..=3600, 2 => 3600u32..=86_400 * 30].prop_map(|secs| Op::Advance { secs }),
        1 => op_strategy(),
    ];
    (
        cfg_strategy(),
        prices_strategy(),
        (10u128.pow(11)..=10u128.pow(13), 10u128.pow(10)..=10u128.pow(12)),
        proptest::collection::vec(pos_op, 1..=max_ops),
        0u8..4,
    )
        .prop_map(|(mut cfg, prices, seed_liquidity, mut ops, tiny_min)| {
            if tiny_min == 0 {
                // Dust history: no minimum sizes and positions of at most a few thousand index-token
                // base units, so that partial decreases can round the token size down to zero.
                cfg.min_position_size_usd = 0;
                cfg.min_collateral_value = 0;
                for op in ops.iter_mut() {
                    match op {
                        Op::Increase { collateral, size_usd, .. } => {
                            *collateral = 1 + *collateral % 200;
                            *size_usd = 1 + *size_usd % 5;
                        }
                        Op::Decrease { size_bp, .. } if *size_bp > 3 && *size_bp < 9_000 => {
                            *size_bp = 9_000 + *size_bp % 1_000;
                        }
                        _ => {}
                    }
                }
            }
            History { cfg, prices, seed_liquidity, ops }
        })
}

/// C09 histories: `position_heavy`, and in one case out of three a configuration where the negative
/// position impact is capped much lower for ordinary orders than for liquidations (cap 0..10 bp against
/// 50..500 bp) with a strong impact factor, so that the two caps give different remaining collateral.
fn c09_history() -> impl proptest::strategy::Strategy<Value = History> {
    use proptest::prelude::*;
    (position_heavy(30), 0u8..3, 0u128..=10, 50u128..=500, 1u128..=50).prop_map(|(mut h, sel, neg_bp, liq_bp, k)| {
        if sel == 0 {
            h.cfg.max_negative_position_impact_factor = bp(neg_bp);
            h.cfg.max_position_impact_factor_for_liquidations = bp(liq_bp);
            h.cfg.position_impact = (h.cfg.position_impact.0, h.cfg.position_impact.1, h.cfg.position_impact.2.max(k * 100_000_000_000));
        }
        h
    })
}

/// C13 histories: `position_heavy`, and in one case out of four a kink model whose optimal usage is exactly
/// or above 100 % together with large adverse index moves after the opens, so that the usage factor of a side
/// exceeds 100 % (reserved value grows with the index price, the pool does not).
fn c13_history() -> impl proptest::strategy::Strategy<Value = History> {
    use proptest::prelude::*;
    (position_heavy(24), 0u8..4, prop_oneof![Just(UNIT), (UNIT + 1)..=(2 * UNIT)], 1u128..=1_000_000_000_000, 500i16..=2500, 0u8..NUM_POSITIONS as u8)
        .prop_map(|(mut h, sel, optimum, base, up_bp, pos)| {
            if sel == 0 {
                h.cfg.kink_long = (optimum, base, base.saturating_mul(3));
                h.cfg.kink_short = (optimum, base, base.saturating_mul(3));
                // open close to the reserve limit, then move the index price so that the reserved value outgrows it
                let (is_long, coll_long) = position_sides(pos as usize);
                let _ = coll_long;
                h.ops.insert(0, Op::Increase { pos, collateral: 2_000_000_000, size_usd: 40 });
                h.ops.insert(1, Op::MovePrice { bp: if is_long { up_bp } else { -up_bp / 2 }, index_only: false });
                h.ops.insert(2, Op::Advance { secs: 3600 });
                h.ops.insert(3, Op::UpdateFees);
            }
            h
        })
}

pub fn run_c07(ctx: &mut Ctx) {
    ctx.rule("cases = market configuration + prices + history (<= 30 ops) of increases, partial/full/over-size/capped decreases, collateral-only withdrawals, dust decreases, liquidation attempts, price moves and clock advances over 6 positions covering {long,short} x {long,short collateral}; oracle = after every operation (successful, or failed and reverted) each side's open interest in USD, in tokens and collateral sum per collateral token equal the sums over the position table, and a removed position is all-zero; non-trivial = history with both a partial decrease and a full close");
    let n = ctx.cases(20_000, 1_000_000);
    ctx.search("totals", n, || position_heavy(30), |h, rec| check_history(h, rec, Which::C07));
    ctx.floor("totals:partial_decrease", 200);
    ctx.floor("totals:full_close", 200);
    ctx.floor("totals:promoted_to_full_close", 20);
}

pub fn run_c09(ctx: &mut Ctx) {
    ctx.rule("cases = same generator as C07 with adversarial price moves (one case in three with a negative position impact cap of 0..10 bp for ordinary orders against 50..500 bp for liquidations and a strong impact factor); oracle = check_liquidatable is None after every successful increase (min collateral validated), and (when the liquidation collateral factor is not above the validation factor) the liquidation predicate is None and a real liquidation attempt on a copy of the world is refused; the same validation predicate holds after every decrease that leaves the position open; a successful liquidation implies the position was liquidatable under the liquidation thresholds just before (after the same fee-state update) and closes the whole position; non-trivial = history with a liquidation attempt or a partial decrease");
    ctx.assume("the searches `health*` are the model clauses (vmarket histories); the program-level clauses (liquidate on a fresh / healthy / underwater position, update_adl_state and auto_deleverage gating) are the search `gating`, executed through the real instructions in the svm-lite exchange world");
    let n = ctx.cases(20_000, 1_000_000);
    ctx.search("health", n, c09_history, |h, rec| check_history(h, rec, Which::C09));
    ctx.floor("health:liquidation_succeeded", 50);
    ctx.floor("health:liquidation_rejected_healthy", 50);
    ctx.floor("health:decrease_left_open", 200);
}

pub fn run_c13(ctx: &mut Ctx) {
    ctx.rule("cases = same generator as C07 (kink and exponent borrowing models, skip-smaller-side on/off, clock advances up to 30 days); oracle = cumulative borrowing factor per side never decreases, total_borrowing(side) == sum over open positions of floor(size*factor_at_last_settlement/UNIT) exactly, total_pending_borrowing_fees never fails in its subtraction, nor inside the kink model when the optimal usage is configured at or above 100 % (usage can exceed 100 % after price moves); non-trivial = history with at least one decrease");
    let n = ctx.cases(20_000, 1_000_000);
    ctx.search("borrowing", n, c13_history, |h, rec| check_history(h, rec, Which::C13));
    ctx.floor("borrowing:factor_grew", 500);
    ctx.floor("borrowing:positions_at_different_factors", 100);
}

pub fn run_c12(ctx: &mut Ctx) {
    ctx.rule("rate: cases = open-interest pairs (both > 0, equal, one zero), stored rate, durations 0..1e7 s, funding parameter sets (adaptive with all change types, non-adaptive); oracle = magnitude <= max always, >= min in adaptive mode, larger side pays in non-adaptive mode, computation never fails with both sides open and min <= max | indices: cases = position histories with clock advances; oracle = the four funding and four claimable per-size indices never decrease and every open position's pending funding fees are computable; non-trivial = both sides open with elapsed time / history in which an index grew");
    crate::props::pure::run_c12_rate(ctx);
    let n = ctx.cases(15_000, 750_000);
    ctx.search("indices", n, || position_heavy(30), |h, rec| check_history(h, rec, Which::C12));
    ctx.floor("indices:funding_index_grew", 300);
    ctx.floor("indices:claimable_index_grew", 300);
}
