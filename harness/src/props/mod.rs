use crate::engine::Ctx;

pub mod c01;
pub mod smoke;

pub const REGISTRY: &[(&str, fn(&mut Ctx))] = &[
    ("C01", c01::run),
    ("SMOKE", smoke::run),
];
