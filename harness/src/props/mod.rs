use crate::engine::Ctx;

pub mod c01;
pub mod c04;
pub mod c15;
pub mod c16;
pub mod c17;
pub mod c18;
pub mod c18i;
pub mod c19;
pub mod c19s;
pub mod c19x;
pub mod c19y;
pub mod c20;
pub mod c28;
pub mod c32;
pub mod c33;
pub mod c34;
pub mod c35;
pub mod c39;
pub mod c41;
pub mod c42;
pub mod conv;
pub mod exchange;
pub mod exchange2;
pub mod exchange3;
pub mod glvmodel;
pub mod gt;
pub mod lp;
pub mod lpstake;
pub mod oracle;
pub mod oracle_ix;
pub mod perp;
pub mod pure;
pub mod revertible;
pub mod revertible_vi;
pub mod rvfix;
pub mod sdkdiff;
pub mod smoke;
pub mod timelock;
pub mod treasury;
pub mod w1smoke;

pub const REGISTRY: &[(&str, fn(&mut Ctx))] = &[
    ("C01", c01::run),
    ("C02", pure::run_c02),
    ("C03", pure::run_c03),
    ("C04", c04::run_c04),
    ("C05", c04::run_c05),
    ("C06", lp::run_c06),
    ("C07", perp::run_c07),
    ("C08", lp::run_c08),
    ("C09", run_c09_all),
    ("C10", lp::run_c10),
    ("C11", pure::run_c11),
    ("C12", perp::run_c12),
    ("C13", perp::run_c13),
    ("C14", pure::run_c14),
    ("C15", c15::run),
    ("C16", c16::run),
    ("C17", c17::run),
    ("C18", c18::run),
    ("C24", run_c24_all),
    ("C25", run_c25_all),
    ("C26", conv::run_c26),
    ("C27", conv::run_c27),
    ("C28", c28::run),
    ("C29", run_c29_all),
    ("C30", gt::run_c30),
    ("C31", gt::run_c31),
    ("C32", run_c32_all),
    ("C34", c34::run),
    ("C35", c35::run),
    ("C39", c39::run),
    ("C19", c19::run),
    ("C20", c20::run),
    ("C21", run_c21_all),
    ("C22", run_c22_all),
    ("C23", run_c23_all),
    ("C33", c33::run),
    ("C38", lpstake::run_c38),
    ("C40", sdkdiff::run_c40),
    ("W1", w1smoke::run),
    ("C36", timelock::run_c36),
    ("C37", treasury::run_c37),
    ("C41", c41::run),
    ("C44", exchange::run_c44),
    ("C45", run_c45_all),
    ("C42", c42::run),
    ("C43", conv::run_c43),
    ("SMOKE", smoke::run),
];

/// C09: model clauses (vmarket histories) + program clauses (liquidate / ADL gating through the real
/// instructions in the svm-lite exchange world).
fn run_c09_all(ctx: &mut crate::engine::Ctx) {
    perp::run_c09(ctx);
    exchange::run_c09(ctx);
}

/// C32: fee arithmetic (hook level) + settlement through the real `settle_builder_fee` instruction.
fn run_c32_all(ctx: &mut crate::engine::Ctx) {
    c32::run(ctx);
    exchange::run_c32_settlement(ctx);
}

/// C24/C25/C29: hook-level searches + the instruction paths (real `set_prices_from_price_feed`,
/// `update_price_feed_with_chainlink` through the mock verifier CPI) in svm-lite.
fn run_c24_all(ctx: &mut crate::engine::Ctx) {
    oracle::run_c24(ctx);
    oracle_ix::run_c24_instr(ctx);
}
fn run_c25_all(ctx: &mut crate::engine::Ctx) {
    oracle::run_c25(ctx);
    oracle_ix::run_c25_instr(ctx);
}
fn run_c29_all(ctx: &mut crate::engine::Ctx) {
    oracle::run_c29(ctx);
    oracle_ix::run_c29_instr(ctx);
}

/// C22/C23: base exchange histories + GLV / ADL / closed-state histories and GLV lifecycles.
fn run_c22_all(ctx: &mut crate::engine::Ctx) {
    exchange::run_c22(ctx);
    exchange2::run_c22_glv(ctx);
}
fn run_c23_all(ctx: &mut crate::engine::Ctx) {
    exchange::run_c23(ctx);
    exchange2::run_c23_glv(ctx);
    exchange2::run_c23_decrease(ctx);
    exchange3::run_c23_native(ctx);
}

/// C21: pools / clocks / other state / deferred mint-burn + the virtual inventory buffers.
fn run_c21_all(ctx: &mut crate::engine::Ctx) {
    revertible::run_c21(ctx);
    revertible_vi::run_c21_vi(ctx);
}

/// C45: program clauses (real GLV instructions) + the model-level GLV pricing helpers.
fn run_c45_all(ctx: &mut crate::engine::Ctx) {
    exchange::run_c45(ctx);
    glvmodel::run_c45_model(ctx);
}
