use crate::engine::Ctx;

pub mod c01;

pub const REGISTRY: &[(&str, fn(&mut Ctx))] = &[
    ("C01", c01::run),
];
