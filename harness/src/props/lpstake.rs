//! C38 LP staking rewards follow the APY schedule and unstaking is fair.
//!
//! Three searches:
//! * `apy`     — `compute_time_weighted_apy` (hook re-export) against a bucket-wise BigInt reference;
//! * `reward`  — `calculate_gt_reward_amount` (hook re-export): exact value, saturation, error
//!               conditions and monotonicity in the stake value and in the cost integral;
//! * `unstake` — the real `unstake_lp` instruction in svm-lite on synthesised accounts.

use crate::engine::{Ctx, Rec};
use crate::refmath::{b, floor_div};
use crate::svm::{self, Acct, Svm, Sysvars};
use anchor_lang::solana_program::{instruction::Instruction, program_pack::Pack, pubkey::Pubkey};
use anchor_lang::{AccountDeserialize, Discriminator, InstructionData, Space, ToAccountMetas};
use gmsol_liquidity_provider as lp;
use gmsol_liquidity_provider::verif as hook;
use num_bigint::BigInt;
use num_traits::{ToPrimitive, Zero};
use proptest::prelude::*;
use serde::{Deserialize, Serialize};

const UNIT: u128 = 100_000_000_000_000_000_000;
const WEEK: i64 = 7 * 24 * 3600;
const YEAR: i64 = 31_557_600;
const T0: i64 = 1_700_000_000;
const BUCKETS: usize = 53;

// ---------------------------------------------------------------------------------------------
// APY schedule
// ---------------------------------------------------------------------------------------------

#[derive(Debug, Clone, Serialize, Deserialize)]
pub struct ApyCase {
    pub start: i64,
    /// `now = start + dur` (may be zero or negative).
    pub dur: i64,
    pub gradient: Vec<u128>,
}

fn apy_value() -> impl Strategy<Value = u128> {
    prop_oneof![
        4 => 0u128..=lp::APY_MAX,
        1 => Just(0u128),
        1 => Just(lp::APY_MAX),
        2 => 0u128..=1_000,
        2 => (0u128..=200).prop_map(|p| p * (UNIT / 100)),
    ]
}

fn gradient() -> impl Strategy<Value = Vec<u128>> {
    prop_oneof![
        4 => proptest::collection::vec(apy_value(), BUCKETS),
        1 => apy_value().prop_map(|v| vec![v; BUCKETS]),
        // decreasing schedule (the intended use: loyalty decay)
        2 => (apy_value(), 0u128..=(UNIT / 20)).prop_map(|(top, step)| (0..BUCKETS).map(|i| top.saturating_sub(step * i as u128)).collect()),
        // a single distinguished bucket: makes any index slip visible
        2 => (0usize..BUCKETS, apy_value(), apy_value()).prop_map(|(i, hi, lo)| (0..BUCKETS).map(|j| if j == i { hi } else { lo }).collect()),
        // pairwise distinct values
        1 => (0u128..=1_000_000).prop_map(|base| (0..BUCKETS).map(|i| base + (i as u128 + 1) * 1_000_003).collect()),
    ]
}

fn duration() -> impl Strategy<Value = i64> {
    prop_oneof![
        1 => Just(0i64),
        1 => -(10 * YEAR)..=0i64,
        2 => 1i64..=WEEK,
        3 => 1i64..=(60 * WEEK),
        // exact week multiples and their neighbours, concentrated around the last bucket
        3 => (0i64..=60, -2i64..=2).prop_map(|(w, d)| (w * WEEK + d).max(-3)),
        3 => (50i64..=55, -2i64..=2).prop_map(|(w, d)| w * WEEK + d),
        2 => (53 * WEEK)..=(20 * YEAR),
    ]
}

fn apy_case() -> impl Strategy<Value = ApyCase> {
    ((T0 - 10 * YEAR)..=(T0 + 10 * YEAR), duration(), gradient()).prop_map(|(start, dur, gradient)| ApyCase { start, dur, gradient })
}

/// Reference: average over every elapsed second of the weekly bucket of that second, computed
/// bucket-wise. Second `s` (0-based, `0 <= s < total`) lies in week `s / WEEK`; weeks past the last
/// bucket use the last bucket. Bucket `w < 52` therefore covers `clamp(total - w*WEEK, 0, WEEK)`
/// seconds and bucket 52 covers `max(total - 52*WEEK, 0)` seconds.
fn ref_apy(start: i64, now: i64, g: &[u128]) -> BigInt {
    if now <= start {
        return b(g[0]);
    }
    let total = b(now) - b(start);
    let week = b(WEEK);
    let mut sum = BigInt::zero();
    let mut covered = BigInt::zero();
    for (w, v) in g.iter().enumerate() {
        let begin = &week * b(w as u64);
        let mut secs = &total - &begin;
        if secs <= BigInt::zero() {
            break;
        }
        if w + 1 < g.len() && secs > week {
            secs = week.clone();
        }
        sum += b(*v) * &secs;
        covered += secs;
    }
    assert_eq!(covered, total, "reference partition must cover every second");
    floor_div(&sum, &total)
}

/// Literal per-second average (only for short spans): independent of the bucket-wise reference.
fn brute_apy(total: i64, g: &[u128]) -> BigInt {
    let mut sum = BigInt::zero();
    let mut s = 0i64;
    // walk week by week but count seconds one chunk per hour to stay cheap and still literal in
    // the bucket lookup for each chunk's first and last second
    while s < total {
        let w = ((s / WEEK) as usize).min(g.len() - 1);
        let end_of_week = (s / WEEK + 1) * WEEK;
        let step = (end_of_week.min(total) - s).min(3600);
        let w_last = (((s + step - 1) / WEEK) as usize).min(g.len() - 1);
        assert_eq!(w, w_last);
        sum += b(g[w]) * b(step);
        s += step;
    }
    floor_div(&sum, &b(total))
}

fn check_apy(c: &ApyCase, rec: &mut Rec) -> Result<(), String> {
    if c.gradient.len() != BUCKETS || hook::APY_BUCKETS != BUCKETS {
        return Err(format!("bucket count: program {} vs harness {BUCKETS}", hook::APY_BUCKETS));
    }
    if hook::SECONDS_PER_WEEK != WEEK as u128 {
        return Err("SECONDS_PER_WEEK is not 7 days".into());
    }
    let mut g = [0u128; BUCKETS];
    g.copy_from_slice(&c.gradient);
    let now = c.start + c.dur;
    let got = hook::compute_time_weighted_apy(c.start, now, &g);
    let want = ref_apy(c.start, now, &c.gradient);
    let weeks = if c.dur > 0 { c.dur / WEEK } else { 0 };
    rec.class(if c.dur <= 0 {
        "now<=start"
    } else if weeks == 0 {
        "first_week"
    } else if weeks < 52 {
        "weeks_1_51"
    } else if weeks == 52 {
        "week_52"
    } else {
        "past_last_bucket"
    });
    rec.class_if(c.dur > 0 && c.dur % WEEK == 0, "exact_weeks");
    rec.class_if(c.dur > 0 && c.dur % WEEK != 0 && weeks >= 1, "partial_week_after_full_weeks");
    let distinct = c.gradient.iter().collect::<std::collections::BTreeSet<_>>().len();
    rec.class_if(distinct > 1, "non_constant_gradient");
    rec.nontrivial_if(c.dur > WEEK && distinct > 1);
    if b(got) != want {
        return Err(format!("time-weighted APY start={} now={} (elapsed {} s = {} weeks + {} s): program {got}, reference {want}", c.start, now, c.dur, weeks, c.dur.max(0) % WEEK));
    }
    if c.dur > 0 && c.dur <= 3 * WEEK {
        let brute = brute_apy(c.dur, &c.gradient);
        if brute != want {
            return Err(format!("reference self-check failed: bucket-wise {want} vs per-chunk {brute}"));
        }
        rec.class("brute_force_cross_check");
    }
    // bounds: an average lies between the smallest and largest contributing bucket
    if c.dur > 0 {
        let last = (weeks as usize).min(BUCKETS - 1);
        let touched = &c.gradient[..=last];
        let (lo, hi) = (*touched.iter().min().unwrap(), *touched.iter().max().unwrap());
        if got < lo || got > hi {
            return Err(format!("average {got} outside the range [{lo},{hi}] of the buckets it covers"));
        }
    }
    Ok(())
}

// ---------------------------------------------------------------------------------------------
// Reward amount
// ---------------------------------------------------------------------------------------------

#[derive(Debug, Clone, Serialize, Deserialize)]
pub struct RewardCase {
    pub value: u128,
    pub dvalue: u128,
    pub apy_per_sec: u128,
    pub integral: u128,
    pub dintegral: u128,
    pub duration: i64,
}

/// Log-uniform magnitudes: 10^e..10^(e+1) for a uniformly chosen exponent.
fn log_uniform(max_exp: u32) -> impl Strategy<Value = u128> {
    (0u32..=max_exp).prop_flat_map(|e| 10u128.pow(e)..=(10u128.pow(e) * 9 + (10u128.pow(e) - 1)))
}

fn reward_case() -> impl Strategy<Value = RewardCase> {
    let value = || prop_oneof![
        4 => log_uniform(30),
        4 => UNIT..=(100_000_000 * UNIT),
        2 => 0u128..=1_000_000,
        1 => Just(0u128),
        2 => (100_000_000 * UNIT)..=(u128::MAX / 2),
        1 => (u128::MAX / 2)..=u128::MAX,
    ];
    // APY <= 200 % => per-second factor <= 2e20 / 31_557_600
    let max_per_sec = lp::APY_MAX / YEAR as u128;
    let apy = prop_oneof![
        3 => log_uniform(12).prop_map(move |v| v.min(max_per_sec)),
        5 => 0u128..=max_per_sec,
        1 => Just(max_per_sec),
        1 => Just(0u128),
        1 => 0u128..=1000,
        1 => max_per_sec..=(UNIT * 4),
    ];
    // integral of UNIT/price over the window: price (GT minting cost) ~ 1e16..1e22, window up to years
    let integral = || prop_oneof![
        6 => log_uniform(30),
        4 => 0u128..=(UNIT * 1_000_000_000),
        2 => 0u128..=1_000_000_000_000,
        1 => Just(0u128),
        2 => (UNIT * 1_000_000_000)..=(u128::MAX / 2),
        1 => (u128::MAX / 2)..=u128::MAX,
    ];
    let delta = || prop_oneof![3 => 0u128..=1_000, 3 => 0u128..=(1_000 * UNIT), 1 => Just(0u128), 1 => any::<u128>()];
    (value(), delta(), apy, integral(), delta(), prop_oneof![8 => 0i64..=(20 * YEAR), 1 => Just(0i64), 1 => i64::MIN..0i64])
        .prop_map(|(value, dvalue, apy_per_sec, integral, dintegral, duration)| RewardCase { value, dvalue, apy_per_sec, integral, dintegral, duration })
}

#[derive(Debug, Clone, PartialEq, Eq)]
enum RefReward {
    Amount(u64),
    Overflow,
    Rejected,
}

/// floor(floor(value*apy/UNIT) * integral / UNIT), saturated at u64::MAX; the two intermediate
/// results are u128 quantities, so exceeding u128 is an arithmetic error (not a saturation).
fn ref_reward(value: u128, duration: i64, apy: u128, integral: u128) -> RefReward {
    if duration < 0 {
        return RefReward::Rejected;
    }
    let unit = b(UNIT);
    let per_sec = floor_div(&(b(value) * b(apy)), &unit);
    if per_sec.to_u128().is_none() {
        return RefReward::Overflow;
    }
    let raw = floor_div(&(per_sec * b(integral)), &unit);
    if raw.to_u128().is_none() {
        return RefReward::Overflow;
    }
    RefReward::Amount(raw.to_u64().unwrap_or(u64::MAX))
}

fn program_reward(value: u128, duration: i64, apy: u128, integral: u128) -> Result<RefReward, String> {
    match hook::calculate_gt_reward_amount(value, duration, apy, integral) {
        Ok(v) => Ok(RefReward::Amount(v)),
        Err(e) => {
            let code = match &e {
                anchor_lang::error::Error::AnchorError(a) => a.error_code_number,
                anchor_lang::error::Error::ProgramError(_) => 0,
            };
            let unauthorized = 6000 + lp::ErrorCode::Unauthorized as u32;
            let overflow = 6000 + lp::ErrorCode::MathOverflow as u32;
            if code == unauthorized {
                Ok(RefReward::Rejected)
            } else if code == overflow {
                Ok(RefReward::Overflow)
            } else {
                Err(format!("unexpected error {e}"))
            }
        }
    }
}

fn check_reward(c: &RewardCase, rec: &mut Rec) -> Result<(), String> {
    svm::init();
    let want = ref_reward(c.value, c.duration, c.apy_per_sec, c.integral);
    let got = program_reward(c.value, c.duration, c.apy_per_sec, c.integral)?;
    match &want {
        RefReward::Rejected => rec.class("negative_duration_rejected"),
        RefReward::Overflow => rec.class("u128_overflow_error"),
        RefReward::Amount(u64::MAX) => rec.class("saturated"),
        RefReward::Amount(0) => rec.class("zero_reward"),
        RefReward::Amount(_) => rec.class("positive_reward"),
    }
    if got != want {
        return Err(format!("reward(value={}, duration={}, apy/s={}, integral={}): program {got:?}, reference {want:?}", c.value, c.duration, c.apy_per_sec, c.integral));
    }
    if c.duration < 0 {
        return Ok(());
    }
    // metamorphic: non-decreasing in the stake value and in the cost integral (an error counts as
    // "above everything": once the smaller input overflows, the larger one must too)
    let rank = |r: &RefReward| -> u128 {
        match r {
            RefReward::Amount(v) => *v as u128,
            _ => u128::MAX,
        }
    };
    if let Some(v2) = c.value.checked_add(c.dvalue) {
        let bigger = program_reward(v2, c.duration, c.apy_per_sec, c.integral)?;
        if rank(&bigger) < rank(&got) {
            return Err(format!("reward decreased when the stake value grew from {} to {v2}: {got:?} -> {bigger:?} (apy/s={}, integral={})", c.value, c.apy_per_sec, c.integral));
        }
        rec.class_if(rank(&bigger) > rank(&got), "strictly_more_for_larger_stake");
    }
    if let Some(i2) = c.integral.checked_add(c.dintegral) {
        let bigger = program_reward(c.value, c.duration, c.apy_per_sec, i2)?;
        if rank(&bigger) < rank(&got) {
            return Err(format!("reward decreased when the cost integral grew from {} to {i2}: {got:?} -> {bigger:?} (value={}, apy/s={})", c.integral, c.value, c.apy_per_sec));
        }
        rec.class_if(rank(&bigger) > rank(&got), "strictly_more_for_longer_integral");
    }
    rec.nontrivial_if(matches!(want, RefReward::Amount(v) if v > 0));
    Ok(())
}

// ---------------------------------------------------------------------------------------------
// unstake_lp through svm-lite
// ---------------------------------------------------------------------------------------------

#[derive(Debug, Clone, Serialize, Deserialize)]
pub struct UnstakeCase {
    pub staked: u64,
    pub value: u128,
    /// Requested amount as a 16-bit fraction of `staked` (mapped to 1..=staked), or beyond.
    pub request: Request,
    pub min_stake_value: u128,
    pub claim_enabled: bool,
    pub dust: u64,
    pub token_2022: bool,
    pub decimals: u8,
    pub user_balance: u64,
    pub elapsed: u32,
    /// The owner is the transaction fee payer (its account is writable).
    pub owner_pays_fees: bool,
    /// Cost integral accrued between the position's snapshot and the controller's frozen snapshot
    /// (0 = no reward, no GT mint CPI).
    pub integral: u128,
    /// Seconds between the stake start and the moment the controller was disabled.
    pub staked_for: u32,
    /// Seed of the APY gradient.
    pub gradient_seed: u64,
}

#[derive(Debug, Clone, Serialize, Deserialize)]
pub enum Request {
    Full,
    Fraction(u16),
    AllButOne,
    One,
    Zero,
    TooMuch(u8),
}

fn unstake_case() -> impl Strategy<Value = UnstakeCase> {
    let staked = prop_oneof![3 => 1u64..=1_000_000_000_000, 1 => 1u64..=10, 1 => 1_000_000_000_000u64..=(u64::MAX / 4)];
    let value = prop_oneof![4 => 0u128..=(1_000_000 * UNIT), 1 => 0u128..=1000, 1 => Just(0u128), 1 => (1_000_000 * UNIT)..=(u128::MAX / 2), 1 => (u128::MAX / 2)..=u128::MAX];
    let request = prop_oneof![
        2 => Just(Request::Full),
        5 => any::<u16>().prop_map(Request::Fraction),
        1 => Just(Request::AllButOne),
        1 => Just(Request::One),
        1 => Just(Request::Zero),
        1 => (1u8..=255).prop_map(Request::TooMuch),
    ];
    let min = prop_oneof![2 => Just(0u128), 3 => 0u128..=(1_000_000 * UNIT), 1 => Just(UNIT), 1 => any::<u128>()];
    (
        staked,
        value,
        request,
        min,
        prop_oneof![3 => Just(true), 2 => Just(false)],
        prop_oneof![2 => Just(0u64), 1 => 1u64..=1_000_000],
        any::<bool>(),
        0u8..=12,
        prop_oneof![Just(0u64), 0u64..=1_000_000_000],
        0u32..=(100 * WEEK as u32),
        (Just(true), prop_oneof![2 => Just(0u128), 3 => log_uniform(26)], prop_oneof![1 => 0u32..=(2 * WEEK as u32), 2 => 0u32..=(70 * WEEK as u32)], any::<u64>()),
    )
        .prop_map(|(staked, value, request, min_stake_value, claim_enabled, dust, token_2022, decimals, user_balance, elapsed, (owner_pays_fees, integral, staked_for, gradient_seed))| UnstakeCase {
            staked,
            value,
            request,
            min_stake_value,
            claim_enabled,
            dust,
            token_2022,
            decimals,
            user_balance,
            elapsed,
            owner_pays_fees,
            integral,
            staked_for,
            gradient_seed,
        })
}

fn put_key(out: &mut Vec<u8>, k: &Pubkey) {
    out.extend_from_slice(k.as_ref());
}

/// Borsh bytes of `GlobalState` (private `reserved` field prevents a struct literal).
fn global_state_bytes(authority: &Pubkey, gradient: &[u128; BUCKETS], min_stake_value: u128, claim_enabled: bool, bump: u8) -> Vec<u8> {
    let mut d = lp::GlobalState::DISCRIMINATOR.to_vec();
    put_key(&mut d, authority);
    put_key(&mut d, &Pubkey::default());
    for v in gradient {
        d.extend_from_slice(&v.to_le_bytes());
    }
    d.extend_from_slice(&min_stake_value.to_le_bytes());
    d.push(claim_enabled as u8);
    d.push(bump);
    d.extend_from_slice(&300u32.to_le_bytes());
    d.extend_from_slice(&0u32.to_le_bytes());
    d.resize(8 + lp::GlobalState::INIT_SPACE, 0);
    d
}

#[allow(clippy::too_many_arguments)]
fn controller_bytes(global_state: &Pubkey, mint: &Pubkey, total_positions: u64, is_enabled: bool, disabled_at: i64, disabled_cum: u128, bump: u8) -> Vec<u8> {
    let mut d = lp::LpTokenController::DISCRIMINATOR.to_vec();
    put_key(&mut d, global_state);
    put_key(&mut d, mint);
    d.extend_from_slice(&0u64.to_le_bytes());
    d.extend_from_slice(&total_positions.to_le_bytes());
    d.push(is_enabled as u8);
    d.extend_from_slice(&disabled_at.to_le_bytes());
    d.extend_from_slice(&disabled_cum.to_le_bytes());
    d.push(bump);
    d.extend_from_slice(&0u32.to_le_bytes());
    d.resize(8 + lp::LpTokenController::INIT_SPACE, 0);
    d
}

#[allow(clippy::too_many_arguments)]
fn position_bytes(owner: &Pubkey, controller: &Pubkey, mint: &Pubkey, vault: &Pubkey, id: u64, amount: u64, value: u128, start: i64, cum: u128, bump: u8) -> Vec<u8> {
    let mut d = lp::Position::DISCRIMINATOR.to_vec();
    put_key(&mut d, owner);
    put_key(&mut d, controller);
    put_key(&mut d, mint);
    put_key(&mut d, vault);
    d.extend_from_slice(&id.to_le_bytes());
    d.extend_from_slice(&amount.to_le_bytes());
    d.extend_from_slice(&value.to_le_bytes());
    d.extend_from_slice(&start.to_le_bytes());
    d.extend_from_slice(&cum.to_le_bytes());
    d.push(bump);
    d.extend_from_slice(&0u32.to_le_bytes());
    d.resize(8 + lp::Position::INIT_SPACE, 0);
    d
}

fn mint_bytes(supply: u64, decimals: u8) -> Vec<u8> {
    let m = spl_token::state::Mint { mint_authority: None.into(), supply, decimals, is_initialized: true, freeze_authority: None.into() };
    let mut d = vec![0u8; spl_token::state::Mint::LEN];
    m.pack_into_slice(&mut d);
    d
}

fn token_bytes(mint: &Pubkey, owner: &Pubkey, amount: u64) -> Vec<u8> {
    let a = spl_token::state::Account {
        mint: *mint,
        owner: *owner,
        amount,
        delegate: None.into(),
        state: spl_token::state::AccountState::Initialized,
        is_native: None.into(),
        delegated_amount: 0,
        close_authority: None.into(),
    };
    let mut d = vec![0u8; spl_token::state::Account::LEN];
    a.pack_into_slice(&mut d);
    d
}

fn token_amount(data: &[u8]) -> Option<u64> {
    spl_token::state::Account::unpack(data.get(..spl_token::state::Account::LEN)?).ok().map(|a| a.amount)
}

fn check_unstake(c: &UnstakeCase, rec: &mut Rec) -> Result<(), String> {
    let mut vm = Svm::new();
    let now = T0 + c.elapsed as i64;
    svm::set_sysvars(Sysvars { unix_timestamp: now, ..Default::default() });
    let pid = lp::ID;
    let token_program = if c.token_2022 { spl_token_2022::ID } else { spl_token::ID };
    let owner = svm::key_of("c38-owner");
    let stranger = svm::key_of("c38-authority");
    vm.fund(owner, 10_000_000_000);
    let (global_state, gs_bump) = Pubkey::find_program_address(&[lp::GLOBAL_STATE_SEED], &pid);
    let lp_mint = svm::key_of("c38-lp-mint");
    let controller_index = 0u64;
    let (controller, ctl_bump) = Pubkey::find_program_address(&[lp::LP_TOKEN_CONTROLLER_SEED, global_state.as_ref(), lp_mint.as_ref(), &controller_index.to_le_bytes()], &pid);
    let position_id = 7u64;
    let (position, pos_bump) = Pubkey::find_program_address(&[lp::POSITION_SEED, controller.as_ref(), owner.as_ref(), &position_id.to_le_bytes()], &pid);
    let (vault, _) = Pubkey::find_program_address(&[lp::VAULT_SEED, position.as_ref()], &pid);
    let store = svm::key_of("c38-store");
    let user_lp = svm::key_of("c38-user-lp");
    let (event_authority, _) = Pubkey::find_program_address(&[b"__event_authority"], &gmsol_store::ID);

    // The controller is disabled: the reward window ends at `disabled_at` with the controller's frozen
    // cost snapshot, and no CPI is needed to refresh the cost factor. With a non-zero integral the
    // reward is minted through the real `mint_gt_reward` CPI into a GT-initialised store in which the
    // LP global state holds the GT_CONTROLLER role.
    let cum = 123_456_789u128 * UNIT;
    let mut gradient = [0u128; BUCKETS];
    for (i, g) in gradient.iter_mut().enumerate() {
        *g = crate::props::c16::value_for(c.gradient_seed, i) % (lp::APY_MAX + 1);
    }
    let disabled_at = T0;
    let start = disabled_at - c.staked_for as i64;
    // expected reward (reference arithmetic); keep it mintable (the GT cost curve is C30's subject)
    let per_sec = (ref_apy(start, disabled_at, &gradient) / b(YEAR)).to_u128().ok_or("reference apy does not fit")?;
    let mut integral = c.integral;
    let mut expected = ref_reward(c.value, c.staked_for as i64, per_sec, integral);
    while matches!(expected, RefReward::Amount(v) if v > 1_000_000_000_000) {
        integral /= 1000;
        expected = ref_reward(c.value, c.staked_for as i64, per_sec, integral);
    }
    let rent = 5_000_000u64;
    let acct = |data: Vec<u8>, owner: Pubkey| Acct { lamports: rent, data, owner, executable: false };
    vm.set_account(global_state, acct(global_state_bytes(&stranger, &gradient, c.min_stake_value, c.claim_enabled, gs_bump), pid));
    vm.set_account(controller, acct(controller_bytes(&global_state, &lp_mint, 3, false, disabled_at, cum, ctl_bump), pid));
    vm.set_account(position, acct(position_bytes(&owner, &controller, &lp_mint, &vault, position_id, c.staked, c.value, start, cum - integral, pos_bump), pid));
    let vault_before = c.staked.checked_add(c.dust).ok_or("generator: vault overflow")?;
    let supply = (vault_before as u128 + c.user_balance as u128).min(u64::MAX as u128) as u64;
    vm.set_account(lp_mint, acct(mint_bytes(supply, c.decimals), token_program));
    vm.set_account(vault, acct(token_bytes(&lp_mint, &global_state, vault_before), token_program));
    vm.set_account(user_lp, acct(token_bytes(&lp_mint, &owner, c.user_balance), token_program));
    // GT store and GT user account
    let mut st = <gmsol_store::states::Store as bytemuck::Zeroable>::zeroed();
    st.init(svm::key_of("c38-store-authority"), "", 255, svm::key_of("c38-r"), svm::key_of("c38-h")).map_err(|e| e.to_string())?;
    gmsol_store::verif::gt_init(&mut st, 7, UNIT, UNIT / 100, 1_000_000_000_000_000, &[100, 200, 300]).map_err(|e| format!("gt init: {e}"))?;
    st.enable_role("GT_CONTROLLER").map_err(|e| e.to_string())?;
    st.grant(&global_state, "GT_CONTROLLER").map_err(|e| e.to_string())?;
    let mut store_data = <gmsol_store::states::Store as Discriminator>::DISCRIMINATOR.to_vec();
    store_data.extend_from_slice(bytemuck::bytes_of(&st));
    vm.set_account(store, acct(store_data, gmsol_store::ID));
    let (gt_user, user_bump) = Pubkey::find_program_address(&[b"user", store.as_ref(), owner.as_ref()], &gmsol_store::ID);
    let mut user = <gmsol_store::states::UserHeader as bytemuck::Zeroable>::zeroed();
    gmsol_store::verif::user_init(&mut user, &store, &owner, user_bump).map_err(|e| e.to_string())?;
    let mut user_data = <gmsol_store::states::UserHeader as Discriminator>::DISCRIMINATOR.to_vec();
    user_data.extend_from_slice(bytemuck::bytes_of(&user));
    vm.set_account(gt_user, acct(user_data, gmsol_store::ID));
    let gt_balance = |vm: &Svm| -> u64 { svm::read_zero_copy::<gmsol_programs::gmsol_store::accounts::UserHeader>(vm.data(&gt_user)).map(|u| u.gt.amount).unwrap_or(0) };

    let request = match c.request {
        Request::Full => c.staked,
        Request::Fraction(f) => 1 + ((f as u128 * (c.staked as u128 - 1)) >> 16) as u64,
        Request::AllButOne => (c.staked - 1).max(1),
        Request::One => 1,
        Request::Zero => 0,
        Request::TooMuch(k) => c.staked.saturating_add(k as u64),
    };
    let mut ix = Instruction {
        program_id: pid,
        accounts: lp::accounts::UnstakeLp {
            global_state,
            controller,
            lp_mint,
            store,
            gt_program: gmsol_store::ID,
            position,
            position_vault: vault,
            owner,
            gt_user,
            user_lp_token: user_lp,
            event_authority,
            token_program,
        }
        .to_account_metas(None),
        data: lp::instruction::UnstakeLp { _position_id: position_id, unstake_amount: request }.data(),
    };
    // `owner` is declared as a plain `Signer` (read-only in the generated metas) although a full exit
    // pays the rent of the closed vault and position to it. On a cluster this works when the owner
    // is also the fee payer (always writable); that is what `owner_pays_fees` emulates.
    if c.owner_pays_fees {
        for m in ix.accounts.iter_mut().filter(|m| m.pubkey == owner) {
            m.is_writable = true;
        }
    }
    let before = vm.accounts.clone();
    let res = vm.process(&ix);

    // ---- reference ----
    let remaining = c.staked.saturating_sub(request);
    let invalid = request == 0 || request > c.staked || (!c.claim_enabled && request != c.staked);
    let new_value: Option<u128> = if remaining == 0 { Some(0) } else { floor_div(&(b(c.value) * b(remaining)), &b(c.staked)).to_u128() };
    let full_exit = remaining == 0 || new_value.map(|v| v < c.min_stake_value).unwrap_or(false);
    rec.class_if(!c.claim_enabled, "claims_disabled");
    rec.class_if(c.dust > 0, "dust_in_vault");
    let reward = match expected {
        RefReward::Amount(v) => v,
        _ => {
            rec.class("reward_overflow_rejects_unstake");
            if res.is_ok() || vm.accounts != before {
                return Err(format!("the reward computation overflows (value={}, apy/s={per_sec}, integral={integral}) but unstake went through", c.value));
            }
            return Ok(());
        }
    };
    rec.class(if reward > 0 { "with_gt_reward" } else { "zero_reward" });
    if invalid {
        rec.class(if request == 0 {
            "rejected_zero"
        } else if request > c.staked {
            "rejected_more_than_staked"
        } else {
            "rejected_partial_while_claims_disabled"
        });
        if res.is_ok() {
            return Err(format!("unstake of {request} out of {} accepted (claim_enabled={})", c.staked, c.claim_enabled));
        }
        if vm.accounts != before {
            return Err("rejected unstake changed accounts".into());
        }
        rec.nontrivial_if(!c.claim_enabled && request != 0 && request < c.staked);
        return Ok(());
    }
    if let Err(e) = &res {
        return Err(format!("valid unstake of {request} out of {} failed: {e:?} (claim_enabled={}, min_stake_value={}, value={})", c.staked, c.claim_enabled, c.min_stake_value, c.value));
    }
    let minted = gt_balance(&vm);
    if minted != reward {
        return Err(format!("unstake minted {minted} GT, the schedule gives {reward} (value={}, staked for {} s, avg apy/s={per_sec}, integral={integral})", c.value, c.staked_for));
    }
    let user_after = token_amount(vm.data(&user_lp)).ok_or("user token account unreadable")?;
    let received = user_after.checked_sub(c.user_balance).ok_or("user balance decreased")?;
    if full_exit {
        rec.class(if remaining == 0 { "full_exit_requested" } else { "full_exit_below_min_value" });
        if received != vault_before {
            return Err(format!("full exit paid {received}, vault held {vault_before} (staked {} + dust {})", c.staked, c.dust));
        }
        if vm.get(&vault).is_some() {
            return Err("vault token account still exists after a full exit".into());
        }
        if vm.get(&position).map(|a| a.owner == pid && !a.data.iter().all(|x| *x == 0)).unwrap_or(false) {
            let p = lp::Position::try_deserialize(&mut &vm.data(&position)[..]);
            if p.is_ok() {
                return Err("position account still open after a full exit".into());
            }
        }
        let ctl = lp::LpTokenController::try_deserialize(&mut &vm.data(&controller)[..]).map_err(|e| e.to_string())?;
        if ctl.total_positions != 2 {
            return Err(format!("controller counts {} positions after closing one of 3", ctl.total_positions));
        }
        // rent of vault and position goes to the owner
        let owner_after = vm.get(&owner).map(|a| a.lamports).unwrap_or(0);
        if owner_after != 10_000_000_000 + 2 * rent {
            return Err(format!("owner holds {owner_after} lamports after the full exit, expected rent of vault and position back"));
        }
        rec.nontrivial();
    } else {
        rec.class("partial");
        let new_value = new_value.ok_or("reference: proportional value does not fit")?;
        if received != request {
            return Err(format!("partial unstake of {request} paid {received}"));
        }
        let vault_after = token_amount(vm.data(&vault)).ok_or("vault unreadable")?;
        if vault_after != vault_before - request {
            return Err(format!("vault holds {vault_after} after paying {request} out of {vault_before}"));
        }
        let p = lp::Position::try_deserialize(&mut &vm.data(&position)[..]).map_err(|e| e.to_string())?;
        if p.staked_amount != remaining {
            return Err(format!("position keeps {} staked, expected {remaining}", p.staked_amount));
        }
        if p.staked_value_usd != new_value {
            return Err(format!("position keeps value {} after unstaking {request}/{}, expected floor({}*{remaining}/{}) = {new_value}", p.staked_value_usd, c.staked, c.value, c.staked));
        }
        rec.class_if(b(c.value) * b(remaining) % b(c.staked) != BigInt::zero(), "partial_with_rounding");
        if p.stake_start_time != start || p.cum_inv_cost != cum || p.owner != owner {
            return Err("partial unstake changed unrelated position fields".into());
        }
        let ctl = lp::LpTokenController::try_deserialize(&mut &vm.data(&controller)[..]).map_err(|e| e.to_string())?;
        if ctl.total_positions != 3 {
            return Err("partial unstake changed the controller's position count".into());
        }
        rec.nontrivial();
    }
    // token conservation
    let vault_left = vm.get(&vault).and_then(|a| token_amount(&a.data)).unwrap_or(0);
    if vault_left as u128 + user_after as u128 != vault_before as u128 + c.user_balance as u128 {
        return Err("LP tokens were created or destroyed by unstake".into());
    }
    Ok(())
}

pub fn run_c38(ctx: &mut Ctx) {
    ctx.rule("apy: start within +-10 years of 2023-11, now = start + d with d from {<=0, < 1 week, up to 60 weeks, exact week multiples +-2 s (dense around weeks 50..55), up to 20 years}, 53-bucket gradients <= 200 % (random, constant, decreasing, one distinguished bucket, pairwise distinct); oracle = BigInt bucket-wise average (bucket w<52 covers clamp(total-w*WEEK,0,WEEK) seconds, bucket 52 the rest), floor; now<=start => bucket 0; cross-checked against a literal chunk walk for spans <= 3 weeks; non-trivial = more than a week elapsed on a non-constant gradient. reward: values/integrals from 0 to u128::MAX, per-second APY up to 200 %/year and beyond; oracle = floor(floor(value*apy/1e20)*integral/1e20) saturated at u64::MAX, Err exactly when duration<0 or an intermediate exceeds u128; metamorphic: value+dv and integral+di never pay less; non-trivial = positive reward. unstake: real unstake_lp instruction in svm-lite on synthesised GlobalState/controller/position/vault accounts (SPL Token and Token-2022), requests {full, fraction, all-but-one, one, zero, too much}, claims on/off, min stake value, dust in the vault; reward minted by the real mint_gt_reward CPI == reference schedule (time-weighted APY / seconds-per-year applied to value and cost integral) also for non-zero integrals; oracle = partial pays exactly the request and keeps floor(value*remaining/amount), full exit (requested, or remaining value below the minimum) sweeps the whole vault, closes vault and position and decrements the controller; claims disabled => only the full amount accepted; rejected calls change nothing; non-trivial = accepted unstake or a partial request rejected because claims are disabled");
    ctx.assume("compute_time_weighted_apy / calculate_gt_reward_amount are reached through additive verif re-exports; the unstake path runs with a DISABLED controller (reward window ends at disabled_at with the frozen cost snapshot), so the enabled-controller CPI update_gt_cumulative_inv_cost_factor is not exercised; rewards are kept <= 1e12 GT base units so that the GT cost curve (C30) is not stressed; the store is synthesised (Store::init + gt_init hook + GT_CONTROLLER granted to the LP global state); the owner is made writable as a fee payer would be; stake_gm/stake_glv/claim_gt/calculate_gt_reward instructions are not covered");
    let n = ctx.cases(150_000, 7_500_000);
    ctx.search("apy", n, apy_case, check_apy);
    ctx.search("reward", n, reward_case, check_reward);
    let m = ctx.cases(5_000, 250_000);
    ctx.search("unstake", m, unstake_case, check_unstake);
    ctx.floor("apy:past_last_bucket", n / 20);
    ctx.floor("apy:week_52", n / 100);
    ctx.floor("apy:now<=start", n / 40);
    ctx.floor("apy:partial_week_after_full_weeks", n / 10);
    ctx.floor("apy:exact_weeks", n / 40);
    ctx.floor("reward:saturated", n / 50);
    ctx.floor("reward:u128_overflow_error", n / 100);
    ctx.floor("reward:positive_reward", n / 10);
    ctx.floor("reward:strictly_more_for_larger_stake", n / 50);
    ctx.floor("reward:strictly_more_for_longer_integral", n / 50);
    ctx.floor("unstake:partial", m / 10);
    ctx.floor("unstake:partial_with_rounding", m / 30);
    ctx.floor("unstake:full_exit_requested", m / 20);
    ctx.floor("unstake:full_exit_below_min_value", m / 30);
    ctx.floor("unstake:rejected_partial_while_claims_disabled", m / 30);
    ctx.floor("unstake:dust_in_vault", m / 10);
    ctx.floor("unstake:with_gt_reward", m / 10);
}
