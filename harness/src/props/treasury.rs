//! C37 Treasury factors stay valid and GT buyback payouts are proportional (real instructions in svm-lite).
//!
//! Part 1 ("factors"): treasury `set_gt_factor` / `set_buyback_factor` through the real instructions.
//! Part 2 ("payout"): the real `complete_gt_exchange` instruction (store `close_gt_exchange` CPI and
//! SPL token `transfer_checked` CPIs signed by the GT bank PDA) on a world built with the real
//! store / treasury instructions; only the bank confirmation (`confirm_gt_buyback`, which needs a
//! price oracle) is replaced by the store `confirm_gt_exchange_vault_v2` instruction plus the real
//! `GtBank::confirm_unchecked` / `reserve_balances` applied to the account through the verif hook.

use crate::engine::{Ctx, Rec};
use crate::svm::{self, Acct, Svm, Sysvars};
use anchor_lang::solana_program::{
    instruction::{AccountMeta, Instruction},
    program_error::ProgramError,
    program_option::COption,
    program_pack::Pack,
    pubkey::Pubkey,
    system_program,
};
use anchor_lang::{InstructionData, ToAccountMetas};
use gmsol_treasury::states::{Config, GtBank};
use num_bigint::BigInt;
use num_traits::ToPrimitive;
use proptest::prelude::*;
use serde::{Deserialize, Serialize};

const UNIT: u128 = 100_000_000_000_000_000_000;
const T_ADMIN: &str = "TREASURY_ADMIN";
const T_KEEPER: &str = "TREASURY_KEEPER";
const GT_CONTROLLER: &str = "GT_CONTROLLER";
const MARKET_KEEPER: &str = "MARKET_KEEPER";
const WINDOW: i64 = 24 * 60 * 60;
const T0: i64 = 1_700_000_000;

fn admin() -> Pubkey {
    svm::key_of("c37-admin")
}
fn stranger() -> Pubkey {
    svm::key_of("c37-stranger")
}
fn keeper_only() -> Pubkey {
    svm::key_of("c37-keeper-only")
}
fn claimant(i: usize) -> Pubkey {
    svm::key_of(&format!("c37-claimant-{i}"))
}

fn store_ix(accounts: Vec<AccountMeta>, data: Vec<u8>) -> Instruction {
    Instruction { program_id: gmsol_store::ID, accounts, data }
}
fn tr_ix(accounts: Vec<AccountMeta>, data: Vec<u8>) -> Instruction {
    Instruction { program_id: gmsol_treasury::ID, accounts, data }
}

struct Base {
    vm: Svm,
    store: Pubkey,
    config: Pubkey,
    receiver: Pubkey,
}

/// store `initialize`, roles, `transfer_receiver`, treasury `initialize_config`.
fn base_world() -> Result<Base, String> {
    let mut vm = Svm::new();
    for k in [admin(), stranger(), keeper_only()] {
        vm.fund(k, 1_000_000_000_000);
    }
    svm::set_sysvars(Sysvars { unix_timestamp: T0, ..Default::default() });
    let (store, _) = Pubkey::find_program_address(&[b"data_store", &gmsol_utils::to_seed("")], &gmsol_store::ID);
    vm.process(&store_ix(
        gmsol_store::accounts::Initialize { payer: admin(), authority: None, receiver: None, holding: None, store, system_program: system_program::ID }.to_account_metas(None),
        gmsol_store::instruction::Initialize { key: String::new() }.data(),
    ))
    .map_err(|e| format!("setup: store initialize failed: {e:?}"))?;
    for r in [T_ADMIN, T_KEEPER, GT_CONTROLLER, MARKET_KEEPER] {
        vm.process(&store_ix(gmsol_store::accounts::EnableRole { authority: admin(), store }.to_account_metas(None), gmsol_store::instruction::EnableRole { role: r.to_string() }.data()))
            .map_err(|e| format!("setup: enable_role {r} failed: {e:?}"))?;
        vm.process(&store_ix(gmsol_store::accounts::GrantRole { authority: admin(), store }.to_account_metas(None), gmsol_store::instruction::GrantRole { user: admin(), role: r.to_string() }.data()))
            .map_err(|e| format!("setup: grant_role {r} failed: {e:?}"))?;
    }
    vm.process(&store_ix(gmsol_store::accounts::GrantRole { authority: admin(), store }.to_account_metas(None), gmsol_store::instruction::GrantRole { user: keeper_only(), role: T_KEEPER.to_string() }.data()))
        .map_err(|e| format!("setup: grant_role failed: {e:?}"))?;
    let (config, _) = Pubkey::find_program_address(&[b"config", store.as_ref()], &gmsol_treasury::ID);
    let (receiver, _) = Pubkey::find_program_address(&[b"receiver", config.as_ref()], &gmsol_treasury::ID);
    vm.process(&store_ix(
        gmsol_store::accounts::TransferReceiver { authority: admin(), store, next_receiver: receiver }.to_account_metas(None),
        gmsol_store::instruction::TransferReceiver {}.data(),
    ))
    .map_err(|e| format!("setup: transfer_receiver failed: {e:?}"))?;
    vm.process(&tr_ix(
        gmsol_treasury::accounts::InitializeConfig { payer: admin(), store, config, receiver, store_program: gmsol_store::ID, system_program: system_program::ID }.to_account_metas(None),
        gmsol_treasury::instruction::InitializeConfig {}.data(),
    ))
    .map_err(|e| format!("setup: treasury initialize_config failed: {e:?}"))?;
    Ok(Base { vm, store, config, receiver })
}

fn read_config(vm: &Svm, config: &Pubkey) -> Result<Config, String> {
    svm::read_zero_copy::<Config>(vm.data(config)).ok_or_else(|| "treasury config unreadable".to_string())
}

fn set_factor_ix(b: &Base, gt: bool, by: Pubkey, factor: u128) -> Instruction {
    let accounts = gmsol_treasury::accounts::UpdateConfig { authority: by, store: b.store, config: b.config, store_program: gmsol_store::ID }.to_account_metas(None);
    let data = if gt { gmsol_treasury::instruction::SetGtFactor { factor }.data() } else { gmsol_treasury::instruction::SetBuybackFactor { factor }.data() };
    tr_ix(accounts, data)
}

// ---------------------------------------------------------------------------------------------
// Part 1: factor setters
// ---------------------------------------------------------------------------------------------

#[derive(Debug, Clone, Serialize, Deserialize)]
pub struct FactorOp {
    pub gt: bool,
    pub factor: u128,
    /// 0 treasury admin, 1 stranger (no membership), 2 member without the role
    pub by: u8,
}

#[derive(Debug, Clone, Serialize, Deserialize)]
pub struct FactorCase {
    pub ops: Vec<FactorOp>,
}

fn factor_value() -> impl Strategy<Value = u128> {
    prop_oneof![
        3 => Just(UNIT),
        3 => Just(UNIT + 1),
        2 => Just(UNIT - 1),
        1 => Just(0u128),
        3 => 0u128..=UNIT,
        2 => (UNIT + 1)..=(2 * UNIT),
        2 => crate::gens::factor_u128(UNIT),
        1 => Just(u128::MAX),
        1 => any::<u128>(),
    ]
}

fn factor_case() -> impl Strategy<Value = FactorCase> {
    let op = (any::<bool>(), factor_value(), prop_oneof![8 => Just(0u8), 1 => Just(1u8), 1 => Just(2u8)]).prop_map(|(gt, factor, by)| FactorOp { gt, factor, by });
    proptest::collection::vec(op, 1..12).prop_map(|mut ops| {
        // make "same value again" reachable
        if ops.len() >= 4 {
            let f = ops[0].factor;
            let g = ops[0].gt;
            ops[3].factor = f;
            ops[3].gt = g;
        }
        FactorCase { ops }
    })
}

fn check_factors(c: &FactorCase, rec: &mut Rec) -> Result<(), String> {
    let r = check_factors_inner(c, rec);
    svm::set_sysvars(Sysvars::default());
    r
}

fn check_factors_inner(c: &FactorCase, rec: &mut Rec) -> Result<(), String> {
    let mut b = base_world()?;
    let mut model = [0u128, 0u128]; // [gt, buyback]
    for (step, op) in c.ops.iter().enumerate() {
        let by = match op.by {
            0 => admin(),
            1 => stranger(),
            _ => keeper_only(),
        };
        let slot = if op.gt { 0 } else { 1 };
        let name = if op.gt { "set_gt_factor" } else { "set_buyback_factor" };
        let before = b.vm.accounts.clone();
        let ix = set_factor_ix(&b, op.gt, by, op.factor);
        let got = b.vm.process(&ix);
        let authorised = op.by == 0;
        let expect_ok = authorised && op.factor <= UNIT && op.factor != model[slot];
        match &got {
            Ok(()) if op.factor > UNIT => return Err(format!("step {step}: {name}({}) accepted although it is above 100% ({UNIT})", op.factor)),
            Ok(()) if !expect_ok => return Err(format!("step {step}: {name}({}) by caller kind {} accepted, the model refuses it (current value {})", op.factor, op.by, model[slot])),
            Err(e) if expect_ok => return Err(format!("step {step}: {name}({}) refused with {e:?} although it is at most 100% and differs from the current value {}", op.factor, model[slot])),
            Err(e) => {
                if svm::is_panic(e) {
                    return Err(format!("step {step}: {name}({}) panicked", op.factor));
                }
                if b.vm.accounts != before {
                    return Err(format!("step {step}: {name}({}) refused with {e:?} but accounts changed", op.factor));
                }
                rec.class_if(authorised && op.factor == UNIT + 1, "refused_unit_plus_one");
                rec.class_if(authorised && op.factor > UNIT, "refused_above_unit");
                rec.class_if(authorised && op.factor <= UNIT, "refused_same_value");
                rec.class_if(!authorised && op.factor <= UNIT, "refused_unauthorised");
            }
            Ok(()) => {
                model[slot] = op.factor;
                rec.class_if(op.factor == UNIT, "accepted_exactly_unit");
                rec.class_if(op.factor == UNIT - 1, "accepted_unit_minus_one");
                rec.class_if(op.factor < UNIT, "accepted_below_unit");
            }
        }
        let cfg = read_config(&b.vm, &b.config)?;
        if cfg.gt_factor() != model[0] || cfg.buyback_factor() != model[1] {
            return Err(format!("step {step}: after {name}({}) the config holds gt {} / buyback {}, model {} / {}", op.factor, cfg.gt_factor(), cfg.buyback_factor(), model[0], model[1]));
        }
        if cfg.gt_factor() > UNIT || cfg.buyback_factor() > UNIT {
            return Err(format!("step {step}: stored factor above 100%: gt {} buyback {}", cfg.gt_factor(), cfg.buyback_factor()));
        }
    }
    rec.nontrivial_if(c.ops.iter().any(|o| o.by == 0 && (o.factor == UNIT || o.factor == UNIT + 1)));
    Ok(())
}

// ---------------------------------------------------------------------------------------------
// Part 2: GT bank payouts through complete_gt_exchange
// ---------------------------------------------------------------------------------------------

#[derive(Debug, Clone, Serialize, Deserialize)]
pub struct TokenSpec {
    /// amount sitting in the receiver vault when it is deposited
    pub amount: u64,
    pub decimals: u8,
    pub token_2022: bool,
}

#[derive(Debug, Clone, Serialize, Deserialize)]
pub struct ClaimantSpec {
    pub gt: u64,
    /// a second request into the same exchange (adds up)
    pub more: u64,
    /// claim order key
    pub order: u16,
}

#[derive(Debug, Clone, Serialize, Deserialize)]
pub struct PayoutCase {
    pub gt_factor: u128,
    pub tokens: Vec<TokenSpec>,
    pub claimants: Vec<ClaimantSpec>,
    /// buyback reservation applied at confirmation: balances *= numerator / denominator
    pub reserve: Option<(u128, u128)>,
    pub early_claim: bool,
    pub double_claim: bool,
    pub foreign_claim: bool,
}

fn amount() -> impl Strategy<Value = u64> {
    prop_oneof![
        1 => Just(0u64),
        3 => 1u64..=1000,
        4 => 1u64..=1_000_000_000_000,
        2 => crate::gens::u64_mix(),
        1 => (0u64..=3).prop_map(|d| u64::MAX - d),
    ]
}

fn gt_amount() -> impl Strategy<Value = u64> {
    prop_oneof![
        1 => Just(0u64),
        4 => 1u64..=10,
        4 => 1u64..=1_000_000,
        3 => 1u64..=1_000_000_000_000_000_000,
    ]
}

fn payout_case() -> impl Strategy<Value = PayoutCase> {
    let token = (amount(), 0u8..=9, prop_oneof![3 => Just(false), 1 => Just(true)]).prop_map(|(amount, decimals, token_2022)| TokenSpec { amount, decimals, token_2022 });
    let cl = (gt_amount(), prop_oneof![3 => Just(0u64), 1 => 1u64..=1_000_000], any::<u16>()).prop_map(|(gt, more, order)| ClaimantSpec { gt, more, order });
    (
        prop_oneof![3 => Just(UNIT), 1 => 0u128..=UNIT, 1 => Just(UNIT / 3)],
        proptest::collection::vec(token, 1..=4),
        proptest::collection::vec(cl, 2..=6),
        prop_oneof![
            2 => Just(None),
            1 => (1u128..=1_000_000, 0u128..=1_000_000).prop_map(|(d, n)| Some((n.min(d), d))),
            1 => (1u128..=u128::MAX / 2, any::<u128>()).prop_map(|(d, n)| Some((n % (d + 1), d))),
        ],
        prop_oneof![3 => Just(false), 1 => Just(true)],
        prop_oneof![3 => Just(false), 1 => Just(true)],
        prop_oneof![3 => Just(false), 1 => Just(true)],
    )
        .prop_map(|(gt_factor, tokens, claimants, reserve, early_claim, double_claim, foreign_claim)| PayoutCase { gt_factor, tokens, claimants, reserve, early_claim, double_claim, foreign_claim })
}

fn token_program(t: &TokenSpec) -> Pubkey {
    if t.token_2022 {
        spl_token_2022::ID
    } else {
        spl_token::ID
    }
}

fn mint_acct(t: &TokenSpec) -> Acct {
    let m = spl_token::state::Mint { mint_authority: COption::Some(admin()), supply: u64::MAX, decimals: t.decimals, is_initialized: true, freeze_authority: COption::None };
    let mut data = vec![0u8; spl_token::state::Mint::LEN];
    spl_token::state::Mint::pack(m, &mut data).unwrap();
    Acct { lamports: 10_000_000, data, owner: token_program(t), executable: false }
}

fn token_acct(t: &TokenSpec, mint: Pubkey, owner: Pubkey, amount: u64) -> Acct {
    let a = spl_token::state::Account {
        mint,
        owner,
        amount,
        delegate: COption::None,
        state: spl_token::state::AccountState::Initialized,
        is_native: COption::None,
        delegated_amount: 0,
        close_authority: COption::None,
    };
    let mut data = vec![0u8; spl_token::state::Account::LEN];
    spl_token::state::Account::pack(a, &mut data).unwrap();
    Acct { lamports: 10_000_000, data, owner: token_program(t), executable: false }
}

fn token_amount(vm: &Svm, key: &Pubkey) -> Result<u64, String> {
    let d = vm.data(key);
    if d.len() < 72 {
        return Err(format!("token account {key} missing"));
    }
    Ok(u64::from_le_bytes(d[64..72].try_into().unwrap()))
}

fn ata(wallet: &Pubkey, mint: &Pubkey, t: &TokenSpec) -> Pubkey {
    spl_associated_token_account::get_associated_token_address_with_program_id(wallet, mint, &token_program(t))
}

fn read_bank(vm: &Svm, bank: &Pubkey) -> Result<GtBank, String> {
    svm::read_zero_copy::<GtBank>(vm.data(bank)).ok_or_else(|| "gt bank unreadable".to_string())
}

/// `remaining_confirmed_gt_amount`, read at its offset in the account (8 disc + 16 + 32 + 32).
fn bank_remaining(vm: &Svm, bank: &Pubkey) -> Result<u64, String> {
    let d = vm.data(bank);
    if d.len() < 96 {
        return Err("gt bank missing".into());
    }
    Ok(u64::from_le_bytes(d[88..96].try_into().unwrap()))
}

fn floor_mul_div(a: u128, b: u128, d: u128) -> Option<BigInt> {
    if d == 0 {
        return None;
    }
    Some(BigInt::from(a) * BigInt::from(b) / BigInt::from(d))
}

fn event_authority() -> Pubkey {
    Pubkey::find_program_address(&[b"__event_authority"], &gmsol_store::ID).0
}

fn check_payout(c: &PayoutCase, rec: &mut Rec) -> Result<(), String> {
    let r = check_payout_inner(c, rec);
    svm::set_sysvars(Sysvars::default());
    r
}

fn check_payout_inner(c: &PayoutCase, rec: &mut Rec) -> Result<(), String> {
    let mut b = base_world()?;
    let store = b.store;
    let config = b.config;
    let n_tokens = c.tokens.len();
    let n_cl = c.claimants.len();
    let step = |vm: &mut Svm, what: &str, ix: Instruction| -> Result<(), String> { vm.process(&ix).map_err(|e| format!("setup: {what} failed: {e:?}")) };

    // --- treasury vault config, factor ---
    let (tvc, _) = Pubkey::find_program_address(&[b"treasury_vault_config", config.as_ref(), &0u16.to_le_bytes()], &gmsol_treasury::ID);
    step(
        &mut b.vm,
        "initialize_treasury_vault_config",
        tr_ix(
            gmsol_treasury::accounts::InitializeTreasuryVaultConfig { authority: admin(), store, config, treasury_vault_config: tvc, store_program: gmsol_store::ID, system_program: system_program::ID }.to_account_metas(None),
            gmsol_treasury::instruction::InitializeTreasuryVaultConfig { index: 0 }.data(),
        ),
    )?;
    step(
        &mut b.vm,
        "set_treasury_vault_config",
        tr_ix(
            gmsol_treasury::accounts::SetTreasuryVaultConfig { authority: admin(), store, config, treasury_vault_config: tvc, store_program: gmsol_store::ID }.to_account_metas(None),
            gmsol_treasury::instruction::SetTreasuryVaultConfig {}.data(),
        ),
    )?;
    if c.gt_factor != 0 {
        let ix = set_factor_ix(&b, true, admin(), c.gt_factor);
        step(&mut b.vm, "set_gt_factor", ix)?;
    }
    // the config PDA closes GT exchanges on behalf of the owners
    step(
        &mut b.vm,
        "grant GT_CONTROLLER to the treasury config",
        store_ix(gmsol_store::accounts::GrantRole { authority: admin(), store }.to_account_metas(None), gmsol_store::instruction::GrantRole { user: config, role: GT_CONTROLLER.to_string() }.data()),
    )?;

    // --- GT state, users, exchange vault, requests ---
    step(
        &mut b.vm,
        "initialize_gt",
        store_ix(
            gmsol_store::accounts::InitializeGt { authority: admin(), store, system_program: system_program::ID }.to_account_metas(None),
            gmsol_store::instruction::InitializeGt { decimals: 7, initial_minting_cost: UNIT, grow_factor: UNIT, grow_step: u64::MAX, ranks: vec![10, 100, 1000] }.data(),
        ),
    )?;
    let index = T0 / WINDOW;
    let (vault, _) = Pubkey::find_program_address(&[b"gt_exchange_vault", store.as_ref(), &index.to_le_bytes(), &(WINDOW as u32).to_le_bytes()], &gmsol_store::ID);
    step(
        &mut b.vm,
        "prepare_gt_exchange_vault",
        store_ix(
            gmsol_store::accounts::PrepareGtExchangeVault { payer: admin(), store, vault, system_program: system_program::ID }.to_account_metas(None),
            gmsol_store::instruction::PrepareGtExchangeVault { time_window_index: index }.data(),
        ),
    )?;
    let mut gts: Vec<u64> = vec![];
    let mut exchanges: Vec<Pubkey> = vec![];
    for (i, cl) in c.claimants.iter().enumerate() {
        let owner = claimant(i);
        b.vm.fund(owner, 1_000_000_000_000);
        let (user, _) = Pubkey::find_program_address(&[b"user", store.as_ref(), owner.as_ref()], &gmsol_store::ID);
        step(
            &mut b.vm,
            "prepare_user",
            store_ix(gmsol_store::accounts::PrepareUser { owner, store, user, system_program: system_program::ID }.to_account_metas(None), gmsol_store::instruction::PrepareUser {}.data()),
        )?;
        let total = cl.gt + cl.more;
        step(
            &mut b.vm,
            "mint_gt_reward",
            store_ix(
                gmsol_store::accounts::MintGtReward { authority: admin(), store, user, event_authority: event_authority(), program: gmsol_store::ID }.to_account_metas(None),
                gmsol_store::instruction::MintGtReward { amount: total + 5 }.data(),
            ),
        )?;
        let (exchange, _) = Pubkey::find_program_address(&[b"gt_exchange", vault.as_ref(), owner.as_ref()], &gmsol_store::ID);
        for (nth, part) in [cl.gt, cl.more].into_iter().enumerate() {
            if nth == 1 && part == 0 {
                continue;
            }
            step(
                &mut b.vm,
                "request_gt_exchange",
                store_ix(
                    gmsol_store::accounts::RequestGtExchange { owner, store, user, vault, exchange, system_program: system_program::ID, event_authority: event_authority(), program: gmsol_store::ID }.to_account_metas(None),
                    gmsol_store::instruction::RequestGtExchange { amount: part }.data(),
                ),
            )?;
        }
        gts.push(total);
        exchanges.push(exchange);
    }
    let total_gt: u64 = gts.iter().sum();

    // --- tokens, GT bank, deposits ---
    let (bank, _) = Pubkey::find_program_address(&[b"gt_bank", tvc.as_ref(), vault.as_ref()], &gmsol_treasury::ID);
    step(
        &mut b.vm,
        "prepare_gt_bank",
        tr_ix(
            gmsol_treasury::accounts::PrepareGtBank { authority: admin(), store, config, treasury_vault_config: tvc, gt_exchange_vault: vault, gt_bank: bank, store_program: gmsol_store::ID, system_program: system_program::ID }.to_account_metas(None),
            gmsol_treasury::instruction::PrepareGtBank {}.data(),
        ),
    )?;
    let mut mints = vec![];
    let mut expected_balance: Vec<u64> = vec![];
    for (j, t) in c.tokens.iter().enumerate() {
        let mint = svm::key_of(&format!("c37-mint-{j}"));
        b.vm.set_account(mint, mint_acct(t));
        step(
            &mut b.vm,
            "insert_token_to_treasury_vault",
            tr_ix(
                gmsol_treasury::accounts::InsertTokenToTreasuryVault { authority: admin(), store, config, treasury_vault_config: tvc, token: mint, store_program: gmsol_store::ID }.to_account_metas(None),
                gmsol_treasury::instruction::InsertTokenToTreasuryVault {}.data(),
            ),
        )?;
        step(
            &mut b.vm,
            "toggle_token_flag",
            tr_ix(
                gmsol_treasury::accounts::ToggleTokenFlag { authority: admin(), store, config, treasury_vault_config: tvc, token: mint, store_program: gmsol_store::ID }.to_account_metas(None),
                gmsol_treasury::instruction::ToggleTokenFlag { flag: "allow_deposit".to_string(), value: true }.data(),
            ),
        )?;
        let receiver_vault = ata(&b.receiver, &mint, t);
        let treasury_vault = ata(&tvc, &mint, t);
        let bank_vault = ata(&bank, &mint, t);
        b.vm.set_account(receiver_vault, token_acct(t, mint, b.receiver, t.amount));
        b.vm.set_account(treasury_vault, token_acct(t, mint, tvc, 0));
        b.vm.set_account(bank_vault, token_acct(t, mint, bank, 0));
        // the GT share of a deposit: floor(amount * gt_factor / 100%), the rest goes to the treasury
        let share = floor_mul_div(t.amount as u128, c.gt_factor, UNIT).and_then(|x| x.to_u64()).ok_or("share")?;
        if t.token_2022 {
            // deposit_to_treasury_vault derives its associated token accounts with the legacy token
            // program id, so a Token-2022 mint can never be deposited (ConstraintAssociated). The
            // Token-2022 branch of complete_gt_exchange is still exercised on a synthesised deposit.
            b.vm.set_account(receiver_vault, token_acct(t, mint, b.receiver, 0));
            b.vm.set_account(treasury_vault, token_acct(t, mint, tvc, t.amount - share));
            b.vm.set_account(bank_vault, token_acct(t, mint, bank, share));
            let mut bank_state = read_bank(&b.vm, &bank)?;
            gmsol_treasury::verif::gt_bank_record_transferred_in(&mut bank_state, &mint, share).map_err(|e| format!("record_transferred_in failed: {e:?}"))?;
            let mut acct = b.vm.get(&bank).cloned().ok_or("bank missing")?;
            acct.data[8..8 + std::mem::size_of::<GtBank>()].copy_from_slice(bytemuck::bytes_of(&bank_state));
            b.vm.set_account(bank, acct);
            mints.push(mint);
            expected_balance.push(share);
            continue;
        }
        step(
            &mut b.vm,
            "deposit_to_treasury_vault",
            tr_ix(
                gmsol_treasury::accounts::DepositToTreasuryVault {
                    authority: admin(),
                    store,
                    config,
                    treasury_vault_config: tvc,
                    receiver: b.receiver,
                    gt_exchange_vault: vault,
                    gt_bank: bank,
                    token: mint,
                    receiver_vault,
                    treasury_vault,
                    gt_bank_vault: bank_vault,
                    store_program: gmsol_store::ID,
                    token_program: token_program(t),
                    associated_token_program: spl_associated_token_account::ID,
                }
                .to_account_metas(None),
                gmsol_treasury::instruction::DepositToTreasuryVault {}.data(),
            ),
        )?;
        let in_bank = token_amount(&b.vm, &bank_vault)?;
        let in_treasury = token_amount(&b.vm, &treasury_vault)?;
        if in_bank != share || in_treasury != t.amount - share || token_amount(&b.vm, &receiver_vault)? != 0 {
            return Err(format!("deposit of {} at GT factor {}: bank vault got {in_bank}, treasury vault {in_treasury}; expected {share} and {}", t.amount, c.gt_factor, t.amount - share));
        }
        let recorded = read_bank(&b.vm, &bank)?.get_balance(&mint).unwrap_or(0);
        if recorded != share {
            return Err(format!("deposit of {} at GT factor {}: bank records {recorded}, expected {share}", t.amount, c.gt_factor));
        }
        mints.push(mint);
        expected_balance.push(share);
    }

    let complete_ix = |vm: &Svm, owner: Pubkey, exchange: Pubkey| -> Result<Instruction, String> {
        let bank_state = read_bank(vm, &bank)?;
        let order: Vec<Pubkey> = bank_state.tokens().collect();
        let mut metas = gmsol_treasury::accounts::CompleteGtExchange {
            owner,
            store,
            config,
            treasury_vault_config: tvc,
            gt_exchange_vault: vault,
            gt_bank: bank,
            exchange,
            store_program: gmsol_store::ID,
            token_program: spl_token::ID,
            token_2022_program: spl_token_2022::ID,
        }
        .to_account_metas(None);
        // the owner pays the fees: writable signer (it also receives the rent of the closed exchange)
        metas[0].is_writable = true;
        let spec_of = |mint: &Pubkey| -> Result<&TokenSpec, String> { mints.iter().position(|m| m == mint).map(|j| &c.tokens[j]).ok_or_else(|| "bank lists an unknown token".to_string()) };
        for mint in &order {
            metas.push(AccountMeta::new_readonly(*mint, false));
        }
        for mint in &order {
            metas.push(AccountMeta::new(ata(&bank, mint, spec_of(mint)?), false));
        }
        for mint in &order {
            metas.push(AccountMeta::new(ata(&owner, mint, spec_of(mint)?), false));
        }
        Ok(tr_ix(metas, gmsol_treasury::instruction::CompleteGtExchange {}.data()))
    };

    // targets
    for i in 0..n_cl {
        for (j, t) in c.tokens.iter().enumerate() {
            b.vm.set_account(ata(&claimant(i), &mints[j], t), token_acct(t, mints[j], claimant(i), 0));
        }
    }

    // claims before the confirmation are refused
    if c.early_claim {
        let before = b.vm.accounts.clone();
        let ix = complete_ix(&b.vm, claimant(0), exchanges[0])?;
        match b.vm.process(&ix) {
            Ok(()) => return Err("complete_gt_exchange accepted before the GT exchange vault was confirmed".into()),
            Err(e) => {
                if svm::is_panic(&e) {
                    return Err("complete_gt_exchange panicked before the confirmation".into());
                }
                if b.vm.accounts != before {
                    return Err("refused early claim changed accounts".into());
                }
            }
        }
        rec.class("early_claim_refused");
    }

    // --- confirmation (next time window) ---
    svm::set_sysvars(Sysvars { unix_timestamp: T0 + WINDOW, ..Default::default() });
    step(
        &mut b.vm,
        "confirm_gt_exchange_vault_v2",
        store_ix(
            gmsol_store::accounts::ConfirmGtExchangeVault { authority: admin(), store, vault, event_authority: event_authority(), program: gmsol_store::ID }.to_account_metas(None),
            gmsol_store::instruction::ConfirmGtExchangeVaultV2 { buyback_value: 0, buyback_price: None }.data(),
        ),
    )?;
    {
        let confirmed: gmsol_store::states::gt::GtExchangeVault = svm::read_zero_copy(b.vm.data(&vault)).ok_or("vault unreadable")?;
        if confirmed.amount() != total_gt || !confirmed.is_confirmed() {
            return Err(format!("exchange vault holds {} GT (confirmed {}), requests add up to {total_gt}", confirmed.amount(), confirmed.is_confirmed()));
        }
        let mut bank_state = read_bank(&b.vm, &bank)?;
        gmsol_treasury::verif::gt_bank_confirm(&mut bank_state, confirmed.amount()).map_err(|e| format!("GtBank::confirm_unchecked failed: {e:?}"))?;
        if let Some((num, den)) = c.reserve {
            gmsol_treasury::verif::gt_bank_reserve_balances(&mut bank_state, &num, &den).map_err(|e| format!("GtBank::reserve_balances({num}, {den}) failed: {e:?}"))?;
            for (j, mint) in mints.iter().enumerate() {
                let want = floor_mul_div(expected_balance[j] as u128, num, den).and_then(|x| x.to_u64()).ok_or("reserve")?;
                let got = bank_state.get_balance(mint).unwrap_or(0);
                if got != want {
                    return Err(format!("reserve_balances({num}, {den}) turned {} into {got}, expected {want}", expected_balance[j]));
                }
                expected_balance[j] = want;
            }
            rec.class("reserve_applied");
        }
        let mut acct = b.vm.get(&bank).cloned().ok_or("bank missing")?;
        acct.data[8..8 + std::mem::size_of::<GtBank>()].copy_from_slice(bytemuck::bytes_of(&bank_state));
        b.vm.set_account(bank, acct);
    }
    if bank_remaining(&b.vm, &bank)? != total_gt {
        return Err(format!("bank confirmed with {} GT, vault has {total_gt}", bank_remaining(&b.vm, &bank)?));
    }

    // --- claims ---
    let initial = expected_balance.clone();
    let mut order: Vec<usize> = (0..n_cl).collect();
    order.sort_by_key(|i| (c.claimants[*i].order, *i));
    let mut remaining = total_gt;
    let mut balances = expected_balance.clone();
    let mut paid_total: Vec<u128> = vec![0; n_tokens];
    let mut nondivisible = false;
    let mut last_got_dust = false;
    for (k, &i) in order.iter().enumerate() {
        let owner = claimant(i);
        let g = gts[i];
        if c.foreign_claim && k == 0 && n_cl >= 2 {
            // somebody else's exchange
            let other = order[1];
            let before = b.vm.accounts.clone();
            let ix = complete_ix(&b.vm, owner, exchanges[other])?;
            if b.vm.process(&ix).is_ok() {
                return Err(format!("claimant {i} completed the exchange of claimant {other}"));
            }
            if b.vm.accounts != before {
                return Err("refused foreign claim changed accounts".into());
            }
            rec.class("foreign_claim_refused");
        }
        let ix = complete_ix(&b.vm, owner, exchanges[i])?;
        let vault_before: Vec<u64> = (0..n_tokens).map(|j| token_amount(&b.vm, &ata(&bank, &mints[j], &c.tokens[j]))).collect::<Result<_, _>>()?;
        b.vm.process(&ix).map_err(|e| format!("claim {k} (claimant {i}, {g} GT of remaining {remaining}, balances {balances:?}): complete_gt_exchange failed: {e:?}"))?;
        if b.vm.get(&exchanges[i]).is_some() {
            return Err(format!("claim {k}: the exchange account of claimant {i} still exists"));
        }
        let bank_state = read_bank(&b.vm, &bank)?;
        for j in 0..n_tokens {
            let t = &c.tokens[j];
            let pay = if g == 0 || balances[j] == 0 {
                0u64
            } else {
                floor_mul_div(balances[j] as u128, g as u128, remaining as u128).and_then(|x| x.to_u64()).ok_or_else(|| format!("claim {k}: reference payout not representable"))?
            };
            if g != 0 && (BigInt::from(balances[j]) * BigInt::from(g)) % BigInt::from(remaining) != BigInt::from(0) {
                nondivisible = true;
            }
            let got = token_amount(&b.vm, &ata(&owner, &mints[j], t))?;
            let vault_now = token_amount(&b.vm, &ata(&bank, &mints[j], t))?;
            let recorded = bank_state.get_balance(&mints[j]).unwrap_or(0);
            if got != pay {
                return Err(format!("claim {k} (claimant {i}, {g} GT of remaining {remaining}), token {j}: received {got}, expected floor({} * {g} / {remaining}) = {pay}", balances[j]));
            }
            if vault_before[j] - vault_now != pay {
                return Err(format!("claim {k}, token {j}: the bank vault lost {}, the claimant received {pay}", vault_before[j] - vault_now));
            }
            if recorded != balances[j] - pay {
                return Err(format!("claim {k}, token {j}: the bank records {recorded}, expected {} - {pay}", balances[j]));
            }
            if pay > balances[j] {
                return Err(format!("claim {k}, token {j}: paid {pay} out of {}", balances[j]));
            }
            // at least the floor share of the original balance
            let floor_share = floor_mul_div(initial[j] as u128, g as u128, total_gt.max(1) as u128).and_then(|x| x.to_u64()).unwrap_or(0);
            if g != 0 && pay < floor_share {
                return Err(format!("claim {k}, token {j}: received {pay}, less than floor({} * {g} / {total_gt}) = {floor_share}", initial[j]));
            }
            if k + 1 == n_cl && g != 0 && pay > floor_share {
                last_got_dust = true;
            }
            balances[j] -= pay;
            paid_total[j] += pay as u128;
        }
        remaining -= g;
        let rem_now = bank_remaining(&b.vm, &bank)?;
        if rem_now != remaining {
            return Err(format!("claim {k}: remaining confirmed GT is {rem_now}, expected {remaining}"));
        }
        if c.double_claim && k == 0 {
            let before = b.vm.accounts.clone();
            let ix = complete_ix(&b.vm, owner, exchanges[i])?;
            if b.vm.process(&ix).is_ok() {
                return Err(format!("claimant {i} completed the same exchange twice"));
            }
            if b.vm.accounts != before {
                return Err("refused second claim changed accounts".into());
            }
            rec.class("double_claim_refused");
        }
    }
    // the last claim drains the bank
    for j in 0..n_tokens {
        if paid_total[j] > initial[j] as u128 {
            return Err(format!("token {j}: paid {} in total out of {}", paid_total[j], initial[j]));
        }
        if total_gt != 0 && balances[j] != 0 {
            return Err(format!("token {j}: {} left in the bank after the last claim (initial {}, GT amounts {gts:?}, order {order:?})", balances[j], initial[j]));
        }
    }
    if remaining != 0 {
        return Err(format!("{remaining} confirmed GT left after all claims"));
    }
    rec.class_if(n_cl >= 3, "three_or_more_claimants");
    rec.class_if(nondivisible, "non_divisible");
    rec.class_if(last_got_dust, "last_claim_collects_rounding_dust");
    rec.class_if(c.tokens.iter().any(|t| t.token_2022), "token_2022_synthesised_deposit");
    rec.class_if(n_tokens >= 3, "three_or_more_tokens");
    rec.class_if(gts.iter().any(|g| *g == 0), "zero_gt_claimant");
    rec.class_if(c.gt_factor != UNIT, "gt_factor_below_unit");
    rec.class_if(initial.iter().any(|x| *x > u32::MAX as u64) && gts.iter().any(|g| *g > u32::MAX as u64), "wide_products");
    rec.nontrivial_if(n_cl >= 3 && nondivisible);
    Ok(())
}

pub fn run_c37(ctx: &mut Ctx) {
    ctx.rule("factors: 1..11 calls of the real treasury set_gt_factor / set_buyback_factor instructions (world: store initialize, roles, transfer_receiver, treasury initialize_config) with values 0, around and far above 100% (1e20), repeated values, by the treasury admin, a stranger and a member without the role; oracle: accepted exactly when caller is TREASURY_ADMIN, value <= 1e20 and differs from the stored one; never accepted above 1e20; stored factors equal the model and stay <= 1e20; refusals change nothing. payout: world built with real instructions (treasury vault config, set_gt_factor, initialize_gt, prepare_user, mint_gt_reward, prepare_gt_exchange_vault, request_gt_exchange (1-2 per claimant), prepare_gt_bank, insert_token / toggle_token_flag, deposit_to_treasury_vault over synthesised SPL token / token-2022 accounts, confirm_gt_exchange_vault_v2 in the next window), 1..4 tokens with balances 0..u64::MAX, 2..6 claimants with GT 0..1e18 in a generated order, optional buyback reservation; every claim runs the real complete_gt_exchange; oracle (BigInt): deposit splits floor(amount*gt_factor/1e20) to the bank; each claim receives per token floor(balance*gt/remaining), vault, target and recorded balances move by exactly that, never more than the bank holds, at least floor(initial*gt/total), remaining GT decreases by gt, the exchange is closed, the last claim leaves 0; early, double and foreign claims are refused without changes. Non-trivial (factors) = the admin sets exactly 100% or 100% + 1; (payout) = at least 3 claimants and a non-divisible share");
    ctx.assume("svm-lite is not the Solana runtime; the GT bank is confirmed by the store confirm_gt_exchange_vault_v2 instruction plus GtBank::confirm_unchecked / reserve_balances applied to the account through the verif hook instead of treasury confirm_gt_buyback (which needs token map, oracle and price feeds); SPL mints and token accounts are synthesised with the SPL `Pack` layout; the claimant is the fee payer (writable signer)");
    let n = ctx.cases(1_500, 75_000);
    ctx.search("factors", n, factor_case, check_factors);
    for (class, min) in [("accepted_exactly_unit", 150), ("accepted_unit_minus_one", 60), ("accepted_below_unit", 300), ("refused_unit_plus_one", 150), ("refused_above_unit", 300), ("refused_same_value", 60), ("refused_unauthorised", 100)] {
        ctx.floor(&format!("factors:{class}"), min);
    }
    let n = ctx.cases(300, 15_000);
    ctx.search("payout", n, payout_case, check_payout);
    for (class, min) in [
        ("three_or_more_claimants", 125),
        ("non_divisible", 150),
        ("last_claim_collects_rounding_dust", 60),
        ("token_2022_synthesised_deposit", 60),
        ("three_or_more_tokens", 80),
        ("zero_gt_claimant", 15),
        ("reserve_applied", 60),
        ("wide_products", 30),
        ("early_claim_refused", 30),
        ("double_claim_refused", 30),
        ("foreign_claim_refused", 30),
        ("gt_factor_below_unit", 50),
    ] {
        ctx.floor(&format!("payout:{class}"), min);
    }
}
