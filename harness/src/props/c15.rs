//! C15 Single-token pools account for every token exactly once (program pool and SDK pool).

use crate::engine::{Ctx, Rec};
use crate::gens::*;
use borsh::BorshDeserialize;
use gmsol_model::{Balance, Pool as _};
use gmsol_programs::gmsol_store::types::Pool as SdkPool;
use gmsol_store::states::market::pool::Pool as StorePool;
use proptest::prelude::*;
use serde::{Deserialize, Serialize};

#[derive(Debug, Clone, Serialize, Deserialize)]
pub struct Case {
    pub pure_pool: bool,
    pub long: u128,
    pub short: u128,
    /// (on short side?, delta) ; `None` delta = cancel amounts
    pub ops: Vec<(bool, Option<i128>)>,
}

fn case() -> impl Strategy<Value = Case> {
    (
        prop_oneof![3 => Just(true), 1 => Just(false)],
        u128_mix(),
        u128_mix(),
        proptest::collection::vec((any::<bool>(), prop_oneof![8 => i128_mix().prop_map(Some), 1 => Just(None)]), 1..12),
    )
        .prop_map(|(pure_pool, long, short, ops)| Case { pure_pool, long, short: if pure_pool { 0 } else { short }, ops })
}

fn store_pool(pure_pool: bool, long: u128, short: u128) -> StorePool {
    // public borsh layout: is_pure u8, 15 bytes padding, long u128, short u128
    let mut bytes = vec![pure_pool as u8];
    bytes.extend_from_slice(&[0u8; 15]);
    bytes.extend_from_slice(&long.to_le_bytes());
    bytes.extend_from_slice(&short.to_le_bytes());
    StorePool::try_from_slice(&bytes).expect("pool layout")
}

fn sdk_pool(pure_pool: bool, long: u128, short: u128) -> SdkPool {
    SdkPool { is_pure: pure_pool as u8, padding: [0; 15], long_token_amount: long, short_token_amount: short }
}

fn raw(p: &StorePool) -> (u128, u128) {
    let bytes = borsh::BorshSerialize::try_to_vec(p).expect("serialize");
    (u128::from_le_bytes(bytes[16..32].try_into().unwrap()), u128::from_le_bytes(bytes[32..48].try_into().unwrap()))
}

fn check(c: &Case, rec: &mut Rec) -> Result<(), String> {
    let mut sp = store_pool(c.pure_pool, c.long, c.short);
    let mut kp = sdk_pool(c.pure_pool, c.long, c.short);
    // reference: pure => one total; impure => two amounts
    let (mut rl, mut rs) = (c.long, c.short);
    rec.class(if c.pure_pool { "pure" } else { "impure" });
    let views = |sp: &StorePool, kp: &SdkPool, rl: u128, rs: u128, step: usize| -> Result<(), String> {
        let (l, s) = (sp.long_amount().map_err(|e| e.to_string())?, sp.short_amount().map_err(|e| e.to_string())?);
        let (kl, ks) = (kp.long_amount().map_err(|e| e.to_string())?, kp.short_amount().map_err(|e| e.to_string())?);
        if (l, s) != (kl, ks) {
            return Err(format!("step {step}: program pool views ({l},{s}) differ from SDK pool views ({kl},{ks})"));
        }
        if c.pure_pool {
            let total = rl;
            if l.checked_add(s) != Some(total) && !(l as u128).checked_add(s).is_none() {
                return Err(format!("step {step}: pure pool views {l}+{s} != stored total {total}"));
            }
            if l != total / 2 + total % 2 || s != total / 2 {
                return Err(format!("step {step}: pure pool views ({l},{s}) are not (ceil, floor) halves of {total}"));
            }
            if raw(sp) != (total, 0) {
                return Err(format!("step {step}: pure pool storage {:?}, expected ({total}, 0)", raw(sp)));
            }
        } else if (l, s) != (rl, rs) || raw(sp) != (rl, rs) {
            return Err(format!("step {step}: impure pool ({l},{s}) != reference ({rl},{rs})"));
        }
        if (kp.long_token_amount, kp.short_token_amount) != raw(sp) {
            return Err(format!("step {step}: SDK storage differs from program storage"));
        }
        Ok(())
    };
    views(&sp, &kp, rl, rs, 0)?;
    for (i, (on_short, delta)) in c.ops.iter().enumerate() {
        let step = i + 1;
        match delta {
            Some(d) => {
                let target_is_total = c.pure_pool || !*on_short;
                let cur = if target_is_total { rl } else { rs };
                let expect = cur.checked_add_signed(*d);
                let r1 = if *on_short { sp.apply_delta_to_short_amount(d) } else { sp.apply_delta_to_long_amount(d) };
                let r2 = if *on_short { kp.apply_delta_to_short_amount(d) } else { kp.apply_delta_to_long_amount(d) };
                if r1.is_ok() != r2.is_ok() {
                    return Err(format!("step {step}: program pool {:?} vs SDK pool {:?}", r1.is_ok(), r2.is_ok()));
                }
                match (expect, r1) {
                    (Some(n), Ok(())) => {
                        if target_is_total { rl = n } else { rs = n }
                    }
                    (None, Err(_)) => rec.class("overflow_rejected"),
                    (Some(_), Err(e)) => return Err(format!("step {step}: delta {d} rejected although it fits: {e}")),
                    (None, Ok(())) => return Err(format!("step {step}: delta {d} accepted although it over/underflows")),
                }
                rec.class_if(c.pure_pool && *on_short, "pure_short_side_delta");
            }
            None => {
                let r1 = sp.checked_cancel_amounts().map_err(|e| format!("step {step}: program cancel failed: {e}"))?;
                let r2 = match kp.checked_cancel_amounts() {
                    Ok(r) => r,
                    Err(e) => {
                        // The SDK pool uses the model's default netting, which converts the amounts to
                        // the signed type. Out of scope for this property when the pool is not a
                        // single-token pool and an amount exceeds i128::MAX (it fails, never mis-nets).
                        if !c.pure_pool && (rl > i128::MAX as u128 || rs > i128::MAX as u128) {
                            rec.class("sdk_cancel_rejected_impure_above_i128_max");
                            return Ok(());
                        }
                        return Err(format!("step {step}: SDK cancel failed: {e}"));
                    }
                };
                sp = r1;
                kp = r2;
                if c.pure_pool {
                    rl &= 1;
                } else if rl >= rs {
                    (rl, rs) = (rl - rs, 0);
                } else {
                    (rl, rs) = (0, rs - rl);
                }
                rec.class("cancel");
            }
        }
        views(&sp, &kp, rl, rs, step)?;
    }
    rec.nontrivial_if(c.pure_pool && (c.long % 2 == 1 || c.long > i128::MAX as u128));
    rec.class_if(c.pure_pool && c.long % 2 == 1, "odd_total");
    rec.class_if(c.long > i128::MAX as u128, "above_i128_max");
    Ok(())
}

pub fn run(ctx: &mut Ctx) {
    ctx.rule("cases = pure (3/4) and impure pools with initial totals from the u128 mixture (incl. > i128::MAX, odd) and 1..11 operations: signed delta (i128 mixture incl. MIN/MAX) on the long or short side, or cancel; oracle = one u128 total (two amounts when impure) with checked arithmetic; long == ceil(total/2), short == floor(total/2), storage == (total, 0), deltas change the total by exactly the delta or are rejected leaving it unchanged, cancel leaves total & 1; the program's Pool (built from its public borsh layout) and the SDK's declare_program Pool must agree after every step; non-trivial = pure pool with odd total or total > i128::MAX");
    let n = ctx.cases(200_000, 10_000_000);
    ctx.search("pools", n, case, check);
    ctx.floor("pools:odd_total", 5_000);
    ctx.floor("pools:above_i128_max", 5_000);
    ctx.floor("pools:pure_short_side_delta", 5_000);
}
