//! C19 policy table, part 4 (after c19x and c19s): the exchange instructions of the store (deposits, withdrawals, shifts, orders,
//! positions, keeper execution, liquidation, ADL, GLV), the timelock program, the rest of the treasury
//! program and the rest of the liquidity-provider program.
//!
//! The runner of `c19.rs` hands every entry a fresh W1 world in which the signer already holds the roles of
//! its caller class. Entries of this file that need markets with liquidity switch to the exchange world W2:
//! `Cx::enter` clones the seeded W2 world, re-creates the signer's identity there (same roles, granted by the
//! W2 admin through the real `grant_role`; the W1 store authority becomes the W2 store authority through the
//! real two-step transfer), the entry prepares its prerequisite state with the world's own users and keepers,
//! and `Cx::done` swaps the W2 account map into the world the runner executes and compares.
//!
//! Policy sources: `#[access_control]` attributes and `# Errors` doc comments of programs/store/src/lib.rs,
//! programs/timelock/src/lib.rs, programs/treasury/src/lib.rs; `has_one` / `constraint` attributes of the
//! account structs for the owner-only instructions.

use super::c19::{Auth, Entry, Expect, Rng};
use crate::svm;
use crate::world1::{self, codes, World1, ROLES};
use crate::world2::{self as w2, ata, ata2022, vault_of, DepositRef, GlvActionRef, GlvInfo, OrderKind, OrderRef, ShiftRef, WithdrawalRef, World as X};
use anchor_lang::solana_program::{
    instruction::{AccountMeta, Instruction},
    pubkey::Pubkey,
    system_instruction, system_program,
};
use anchor_lang::{InstructionData, ToAccountMetas};
use gmsol_store::accounts as sa;
use gmsol_store::instruction as si;
use gmsol_store::CoreError;
use gmsol_utils::role::RoleKey;

const MK: &str = RoleKey::MARKET_KEEPER;
const OK_: &str = RoleKey::ORDER_KEEPER;
const OC: &str = RoleKey::ORACLE_CONTROLLER;
const GC: &str = RoleKey::GT_CONTROLLER;

/// SPL token `TokenError::OwnerMismatch`: the signer is neither owner nor delegate of the source account.
const SPL_OWNER_MISMATCH: u32 = 4;

fn other(label: &str) -> Pubkey {
    svm::key_of(&format!("c19y-{label}"))
}

fn core(e: CoreError) -> u32 {
    u32::from(e)
}

/// A small number that differs between the caller classes of the runner (no role / each single role / the
/// store authority): lets the one-seed table pass spread the variants of an entry over its callers.
fn salt(w: &World1, s: &Pubkey) -> usize {
    let st = w.store();
    ROLES.iter().position(|r| st.has_role(s, r).unwrap_or(false)).unwrap_or(ROLES.len()) + st.is_authority(s) as usize
}

fn swap_key(ix: &mut Instruction, from: Pubkey, to: Pubkey) {
    for m in ix.accounts.iter_mut() {
        if m.pubkey == from {
            m.pubkey = to;
        }
    }
}

// ------------------------------------------------------------------------------------ W2 bridge

/// The exchange world with the signer's identity ported into it.
struct Cx<'a> {
    w: &'a mut World1,
    x: X,
    s: Pubkey,
    /// Current authority of the store inside `x`.
    auth: Pubkey,
}

impl<'a> Cx<'a> {
    /// `extra_roles`: roles outside the store's own role list (treasury roles …) to port as well.
    fn enter(w: &'a mut World1, s: Pubkey, extra_roles: &[&str]) -> Result<Self, String> {
        let st = w.store();
        let x = X::seeded()?;
        let auth = x.admin;
        let mut cx = Cx { w, x, s, auth };
        if cx.x.vm.get(&s).is_none() {
            cx.x.vm.fund(s, 1_000_000_000_000);
        }
        for r in ROLES.iter().chain(extra_roles.iter()) {
            if st.has_role(&s, r).unwrap_or(false) {
                cx.grant(s, r)?;
            }
        }
        if st.is_authority(&s) {
            let store = cx.x.store;
            cx.run("transfer_store_authority", w2::ix(sa::TransferStoreAuthority { authority: auth, store, next_authority: s }, si::TransferStoreAuthority {}, vec![]))?;
            cx.run("accept_store_authority", w2::ix(sa::AcceptStoreAuthority { next_authority: s, store }, si::AcceptStoreAuthority {}, vec![]))?;
            cx.auth = s;
        }
        Ok(cx)
    }

    fn run(&mut self, what: &str, ix: Instruction) -> Result<(), String> {
        self.x.vm.process(&ix).map_err(|e| format!("c19y prep: {what} failed: {e:?}"))
    }

    fn all(&mut self, what: &str, ixs: Vec<Instruction>) -> Result<(), String> {
        for ix in ixs {
            self.run(what, ix)?;
        }
        Ok(())
    }

    /// Grant `role` (enabled first if the W2 store does not know it) through the real instructions.
    fn grant(&mut self, who: Pubkey, role: &str) -> Result<(), String> {
        let (authority, store) = (self.auth, self.x.store);
        let _ = self.x.vm.process(&w2::ix(sa::EnableRole { authority, store }, si::EnableRole { role: role.to_string() }, vec![]));
        self.run("grant_role", w2::ix(sa::GrantRole { authority, store }, si::GrantRole { user: who, role: role.to_string() }, vec![]))
    }

    /// One second later, with fresh prices.
    fn tick(&mut self) -> Result<(), String> {
        self.x.advance(1);
        self.x.refresh_prices()
    }

    /// Hand the prepared exchange world to the runner.
    fn done(self, ix: Instruction) -> Result<Instruction, String> {
        let Cx { w, x, .. } = self;
        w.vm = x.vm;
        Ok(ix)
    }

    /// Make `who` a trader: lamports, funded token accounts for both pool tokens, a user account.
    fn trader(&mut self, who: Pubkey) -> Result<(), String> {
        if self.x.vm.get(&who).is_none() {
            self.x.vm.fund(who, 1_000_000_000_000);
        }
        let (lm, sm, admin) = (self.x.long_mint, self.x.short_mint, self.x.admin);
        for (mint, amount) in [(lm, 10_000u64 * 1_000_000_000), (sm, 1_000_000u64 * 1_000_000)] {
            if self.x.vm.get(&ata(&who, &mint)).is_none() {
                self.run("create ATA", spl_associated_token_account::instruction::create_associated_token_account(&who, &who, &mint, &spl_token::ID))?;
                let i = spl_token::instruction::mint_to(&spl_token::ID, &mint, &ata(&who, &mint), &admin, &[], amount).map_err(|e| e.to_string())?;
                self.run("mint_to", i)?;
            }
        }
        let user = self.x.user_account(&who);
        if self.x.vm.get(&user).is_none() {
            let store = self.x.store;
            self.run("prepare_user", w2::ix(sa::PrepareUser { owner: who, store, user, system_program: system_program::ID }, si::PrepareUser {}, vec![]))?;
        }
        Ok(())
    }

    /// Move `amount` market tokens of market `m` from the seed liquidity provider to `who`.
    fn give_market_tokens(&mut self, who: Pubkey, m: usize, amount: u64) -> Result<(), String> {
        let lp = self.x.user(2);
        let mt = self.x.markets[m].token;
        if who == lp {
            return Ok(());
        }
        let i = self.x.ix_prepare_ata(who, who, mt);
        self.run("market token ATA", i)?;
        let i = spl_token::instruction::transfer(&spl_token::ID, &ata(&lp, &mt), &ata(&who, &mt), &lp, &[], amount).map_err(|e| e.to_string())?;
        self.run("market token transfer", i)
    }

    /// The trade event buffer an executing keeper needs (anyone may create their own).
    fn event_buffer(&mut self, authority: Pubkey) -> Result<(), String> {
        let event = self.x.trade_event_of(&authority);
        if self.x.vm.get(&event).is_none() {
            let store = self.x.store;
            self.run("prepare_trade_event_buffer", w2::ix(sa::PrepareTradeEventBuffer { authority, store, event, system_program: system_program::ID }, si::PrepareTradeEventBuffer { index: 0 }, vec![]))?;
        }
        Ok(())
    }

    /// A GLV over markets 0 and 2 with deposits allowed.
    fn glv(&mut self) -> Result<GlvInfo, String> {
        let g = self.x.glv_info(0);
        let keeper = self.x.keeper;
        let i = self.x.ix_initialize_glv(keeper, &g, &[0, 2]);
        self.run("initialize_glv", i)?;
        for m in [0, 2] {
            let i = self.x.ix_toggle_glv_deposit_allowed(keeper, &g, m, true);
            self.run("toggle_glv_market_flag", i)?;
        }
        Ok(g)
    }

    /// Complete GLV deposit of `amount` market tokens of market `m` by `owner` (who must hold them).
    fn glv_deposit(&mut self, g: &GlvInfo, owner: Pubkey, m: usize, amount: u64) -> Result<(), String> {
        let keeper = self.x.keeper;
        let r = self.x.glv_deposit_ref(owner, m, amount);
        let ixs = self.x.ixs_prepare_glv_deposit(g, &r);
        self.all("prepare glv deposit", ixs)?;
        let i = self.x.ix_create_glv_deposit(g, &r);
        self.run("create_glv_deposit", i)?;
        self.tick()?;
        let i = self.x.ix_execute_glv_deposit(g, &r, keeper, true);
        self.run("execute_glv_deposit", i)?;
        let i = self.x.ix_close_glv_deposit(g, &r, owner);
        self.run("close_glv_deposit", i)
    }

    /// Open a position of `owner` in market `m` through a real increase order; returns the order reference.
    fn open_position(&mut self, owner: Pubkey, m: usize, is_long: bool, collateral_is_long: bool, collateral_usd: u64, leverage: u128) -> Result<OrderRef, String> {
        let keeper = self.x.keeper;
        let info = self.x.markets[m].clone();
        let token = if collateral_is_long { info.long } else { info.short };
        // long token: $100, 9 decimals; short token: $1, 6 decimals
        let amount = if token == self.x.long_mint { collateral_usd * 10_000_000 } else { collateral_usd * 1_000_000 };
        let size = collateral_usd as u128 * leverage * w2::USD;
        let r = self.x.increase_order_ref(owner, m, is_long, collateral_is_long, token, vec![], amount, size);
        let ixs = self.x.ixs_prepare_order(&r);
        self.all("prepare increase order", ixs)?;
        let i = self.x.ix_create_order(&r);
        self.run("create_order_v2 (increase)", i)?;
        self.tick()?;
        let i = self.x.ix_execute_order(&r, keeper, 0, true);
        self.run("execute increase order", i)?;
        let i = self.x.ix_close_order(&r, owner);
        self.run("close increase order", i)?;
        Ok(r)
    }

    /// A pending market-decrease order for (part of) the position opened by `open`.
    fn pending_decrease(&mut self, open: &OrderRef, fraction_pct: u128) -> Result<OrderRef, String> {
        let r = self.x.decrease_order_ref(open.owner, open.market, open.is_long, open.is_collateral_long, open.final_output_token, vec![], 0, open.size * fraction_pct / 100);
        let ixs = self.x.ixs_prepare_order(&r);
        self.all("prepare decrease order", ixs)?;
        let i = self.x.ix_create_order(&r);
        self.run("create_order_v2 (decrease)", i)?;
        Ok(r)
    }

    fn move_index_price(&mut self, m: usize, pct: i128) -> Result<(), String> {
        let index = self.x.markets[m].index;
        let (mid, sp) = self.x.prices[&index];
        self.x.set_price(&index, (mid as i128 * (100 + pct) / 100).max(1) as u128, sp);
        self.tick()
    }
}

// ------------------------------------------------------------------------------------ actions

const N_KINDS: u8 = 6;
const K_DEPOSIT: u8 = 0;
const K_WITHDRAWAL: u8 = 1;
const K_SHIFT: u8 = 2;
const K_ORDER: u8 = 3;
const K_GLV_DEPOSIT: u8 = 4;
const K_GLV_WITHDRAWAL: u8 = 5;

enum Act {
    Deposit(DepositRef),
    Withdrawal(WithdrawalRef),
    Shift(ShiftRef),
    Order(OrderRef),
    GlvDeposit(GlvInfo, GlvActionRef),
    GlvWithdrawal(GlvInfo, GlvActionRef),
}

impl Act {
    fn execute(&self, x: &X, by: Pubkey, throw: bool) -> Instruction {
        match self {
            Act::Deposit(r) => x.ix_execute_deposit(r, by, 0, throw),
            Act::Withdrawal(r) => x.ix_execute_withdrawal(r, by, 0, throw),
            Act::Shift(r) => x.ix_execute_shift(r, by, 0, throw),
            Act::Order(r) => x.ix_execute_order(r, by, 0, throw),
            Act::GlvDeposit(g, r) => x.ix_execute_glv_deposit(g, r, by, throw),
            Act::GlvWithdrawal(g, r) => x.ix_execute_glv_withdrawal(g, r, by, throw),
        }
    }
    fn close(&self, x: &X, by: Pubkey) -> Instruction {
        match self {
            Act::Deposit(r) => x.ix_close_deposit(r, by),
            Act::Withdrawal(r) => x.ix_close_withdrawal(r, by),
            Act::Shift(r) => x.ix_close_shift(r, by),
            Act::Order(r) => x.ix_close_order(r, by),
            Act::GlvDeposit(g, r) => x.ix_close_glv_deposit(g, r, by),
            Act::GlvWithdrawal(g, r) => x.ix_close_glv_withdrawal(g, r, by),
        }
    }
}

const MT_UNITS: u64 = 10_000_000_000;

impl Cx<'_> {
    /// A pending action of the given kind owned by `owner` (a trader), created with real instructions.
    fn pending(&mut self, kind: u8, owner: Pubkey, r: &mut Rng) -> Result<Act, String> {
        let (lm, sm) = (self.x.long_mint, self.x.short_mint);
        Ok(match kind % N_KINDS {
            K_DEPOSIT => {
                let m = [0usize, 1, 2, 3][r.below(4)];
                let d = match r.below(3) {
                    0 => self.x.deposit_ref(owner, m, Some(lm), Some(sm), 20_000_000 * (1 + r.below(50) as u64), 2_000_000 * (1 + r.below(50) as u64)),
                    1 => self.x.deposit_ref(owner, m, Some(lm), None, 20_000_000 * (1 + r.below(50) as u64), 0),
                    _ => self.x.deposit_ref(owner, m, None, Some(sm), 0, 2_000_000 * (1 + r.below(50) as u64)),
                };
                let ixs = self.x.ixs_prepare_deposit(&d);
                self.all("prepare deposit", ixs)?;
                let i = self.x.ix_create_deposit(&d);
                self.run("create_deposit", i)?;
                Act::Deposit(d)
            }
            K_WITHDRAWAL => {
                let m = [0usize, 1, 2, 3][r.below(4)];
                let amount = MT_UNITS * (1 + r.below(20) as u64);
                self.give_market_tokens(owner, m, amount)?;
                let wd = self.x.withdrawal_ref(owner, m, amount);
                let ixs = self.x.ixs_prepare_withdrawal(&wd);
                self.all("prepare withdrawal", ixs)?;
                let i = self.x.ix_create_withdrawal(&wd);
                self.run("create_withdrawal", i)?;
                Act::Withdrawal(wd)
            }
            K_SHIFT => {
                let (from, to) = [(0usize, 2usize), (2, 0), (1, 3), (0, 1)][r.below(4)];
                let amount = MT_UNITS * (1 + r.below(20) as u64);
                self.give_market_tokens(owner, from, amount)?;
                let sh = self.x.shift_ref(owner, from, to, amount);
                let ixs = self.x.ixs_prepare_shift(&sh);
                self.all("prepare shift", ixs)?;
                let i = self.x.ix_create_shift(&sh);
                self.run("create_shift", i)?;
                Act::Shift(sh)
            }
            K_ORDER => {
                let o = if r.bool() {
                    self.x.swap_order_ref(owner, 0, lm, false, vec![0], 10_000_000 * (1 + r.below(100) as u64))
                } else {
                    self.x.swap_order_ref(owner, 0, sm, true, vec![0], 1_000_000 * (1 + r.below(100) as u64))
                };
                let ixs = self.x.ixs_prepare_order(&o);
                self.all("prepare swap order", ixs)?;
                let i = self.x.ix_create_order(&o);
                self.run("create_order_v2", i)?;
                Act::Order(o)
            }
            K_GLV_DEPOSIT => {
                let g = self.glv()?;
                let m = [0usize, 2][r.below(2)];
                let amount = MT_UNITS * (1 + r.below(20) as u64);
                self.give_market_tokens(owner, m, amount)?;
                let a = self.x.glv_deposit_ref(owner, m, amount);
                let ixs = self.x.ixs_prepare_glv_deposit(&g, &a);
                self.all("prepare glv deposit", ixs)?;
                let i = self.x.ix_create_glv_deposit(&g, &a);
                self.run("create_glv_deposit", i)?;
                Act::GlvDeposit(g, a)
            }
            _ => {
                let g = self.glv()?;
                let m = [0usize, 2][r.below(2)];
                let amount = MT_UNITS * (2 + r.below(20) as u64);
                self.give_market_tokens(owner, m, amount)?;
                self.glv_deposit(&g, owner, m, amount)?;
                let have = w2::token_amount(&self.x.vm, &ata2022(&owner, &g.glv_token));
                if have == 0 {
                    return Err("c19y prep: the GLV deposit minted nothing".into());
                }
                let a = self.x.glv_withdrawal_ref(owner, m, have / (1 + r.below(3) as u64));
                let ixs = self.x.ixs_prepare_glv_withdrawal(&g, &a);
                self.all("prepare glv withdrawal", ixs)?;
                let i = self.x.ix_create_glv_withdrawal(&g, &a);
                self.run("create_glv_withdrawal", i)?;
                Act::GlvWithdrawal(g, a)
            }
        })
    }
}

/// `execute_*`: "authority … is not an ORDER_KEEPER" — a pending action of a user, executed by the signer.
fn execute_build(w: &mut World1, s: Pubkey, r: &mut Rng, kind: u8) -> Result<Instruction, String> {
    let mut cx = Cx::enter(w, s, &[])?;
    let owner = cx.x.user(r.below(2));
    let act = cx.pending(kind, owner, r)?;
    cx.tick()?;
    let ix = act.execute(&cx.x, s, r.bool());
    cx.done(ix)
}

/// `close_*`: "executor … is neither the owner nor an ORDER_KEEPER", and "not in a cancelled or completed
/// state when closed by a non-owner".
///
/// authorised: the owner (pending or terminal action), or a holder of ORDER_KEEPER on a terminal action;
/// unauthorised: a non-owner without ORDER_KEEPER (pending or terminal), or a non-owner that holds
/// ORDER_KEEPER on a pending action.
fn close_build(w: &mut World1, s: Pubkey, a: bool, r: &mut Rng, kind: u8) -> Result<Instruction, String> {
    let v = (r.below(2) + salt(w, &s)) % 2 == 0;
    let mut cx = Cx::enter(w, s, &[])?;
    let (owner_is_signer, terminal, keeper_role) = match (a, v) {
        (true, true) => (true, r.bool(), false),
        (true, false) => (false, true, true),
        (false, true) => (false, r.bool(), false),
        (false, false) => (false, false, true),
    };
    let owner = if owner_is_signer { s } else { cx.x.user(r.below(2)) };
    if owner_is_signer {
        cx.trader(s)?;
    }
    if keeper_role {
        cx.grant(s, OK_)?;
    }
    let act = cx.pending(kind, owner, r)?;
    if terminal {
        cx.tick()?;
        let keeper = cx.x.keeper;
        let ix = act.execute(&cx.x, keeper, false);
        cx.run("execute before close", ix)?;
    }
    let ix = act.close(&cx.x, s);
    cx.done(ix)
}

/// `create_*`: no privilege by design, the signer acts on its own accounts; a signer that names somebody
/// else's token account as the source is stopped by the token program (the signer is not its owner).
fn create_build(w: &mut World1, s: Pubkey, a: bool, r: &mut Rng, kind: u8) -> Result<Instruction, String> {
    let mut cx = Cx::enter(w, s, &[])?;
    cx.trader(s)?;
    let victim = cx.x.user(r.below(2));
    let (lm, sm) = (cx.x.long_mint, cx.x.short_mint);
    let mut sources: Vec<Pubkey> = vec![];
    let mut ix = match kind {
        K_DEPOSIT => {
            sources.extend([lm, sm]);
            let m = [0usize, 1, 2, 3][r.below(4)];
            let d = match r.below(3) {
                0 => cx.x.deposit_ref(s, m, Some(lm), Some(sm), 20_000_000 * (1 + r.below(50) as u64), 2_000_000 * (1 + r.below(50) as u64)),
                1 => cx.x.deposit_ref(s, m, Some(lm), None, 20_000_000 * (1 + r.below(50) as u64), 0),
                _ => cx.x.deposit_ref(s, m, None, Some(sm), 0, 2_000_000 * (1 + r.below(50) as u64)),
            };
            let ixs = cx.x.ixs_prepare_deposit(&d);
            cx.all("prepare deposit", ixs)?;
            cx.x.ix_create_deposit(&d)
        }
        K_WITHDRAWAL => {
            let m = [0usize, 1, 2, 3][r.below(4)];
            let amount = MT_UNITS * (1 + r.below(20) as u64);
            cx.give_market_tokens(s, m, amount)?;
            cx.give_market_tokens(victim, m, amount)?;
            sources.push(cx.x.markets[m].token);
            let wd = cx.x.withdrawal_ref(s, m, amount);
            let ixs = cx.x.ixs_prepare_withdrawal(&wd);
            cx.all("prepare withdrawal", ixs)?;
            cx.x.ix_create_withdrawal(&wd)
        }
        K_SHIFT => {
            let (from, to) = [(0usize, 2usize), (2, 0), (1, 3), (0, 1)][r.below(4)];
            let amount = MT_UNITS * (1 + r.below(20) as u64);
            cx.give_market_tokens(s, from, amount)?;
            cx.give_market_tokens(victim, from, amount)?;
            sources.push(cx.x.markets[from].token);
            let sh = cx.x.shift_ref(s, from, to, amount);
            let ixs = cx.x.ixs_prepare_shift(&sh);
            cx.all("prepare shift", ixs)?;
            cx.x.ix_create_shift(&sh)
        }
        K_GLV_DEPOSIT => {
            let g = cx.glv()?;
            let m = [0usize, 2][r.below(2)];
            let amount = MT_UNITS * (1 + r.below(20) as u64);
            cx.give_market_tokens(s, m, amount)?;
            cx.give_market_tokens(victim, m, amount)?;
            sources.push(cx.x.markets[m].token);
            let d = cx.x.glv_deposit_ref(s, m, amount);
            let ixs = cx.x.ixs_prepare_glv_deposit(&g, &d);
            cx.all("prepare glv deposit", ixs)?;
            cx.x.ix_create_glv_deposit(&g, &d)
        }
        _ => {
            let g = cx.glv()?;
            let m = [0usize, 2][r.below(2)];
            let amount = MT_UNITS * (2 + r.below(20) as u64);
            for who in [s, victim] {
                cx.give_market_tokens(who, m, amount)?;
                cx.glv_deposit(&g, who, m, amount)?;
            }
            let have = w2::token_amount(&cx.x.vm, &ata2022(&s, &g.glv_token));
            let wd = cx.x.glv_withdrawal_ref(s, m, have / (1 + r.below(3) as u64));
            let ixs = cx.x.ixs_prepare_glv_withdrawal(&g, &wd);
            cx.all("prepare glv withdrawal", ixs)?;
            let mut ix = cx.x.ix_create_glv_withdrawal(&g, &wd);
            if !a {
                swap_key(&mut ix, ata2022(&s, &g.glv_token), ata2022(&victim, &g.glv_token));
            }
            ix
        }
    };
    if !a {
        // the source token account(s) of the signer -> the victim's
        for mint in sources {
            swap_key(&mut ix, ata(&s, &mint), ata(&victim, &mint));
        }
    }
    cx.done(ix)
}

fn feeds_of(x: &X, m: usize) -> Vec<AccountMeta> {
    x.execute_remaining(m, &[])
}

/// Remaining accounts of GLV pricing / GLV shifts: the GLV's markets, their market tokens, the feeds of
/// the sorted token set.
fn glv_remaining(x: &X, g: &GlvInfo) -> Vec<AccountMeta> {
    let ms = x.glv_markets(g);
    let mut out: Vec<AccountMeta> = ms.iter().map(|m| AccountMeta::new_readonly(x.markets[*m].market, false)).collect();
    out.extend(ms.iter().map(|m| AccountMeta::new_readonly(x.markets[*m].token, false)));
    let mut tokens = std::collections::BTreeSet::new();
    for m in &ms {
        tokens.extend([x.markets[*m].index, x.markets[*m].long, x.markets[*m].short]);
    }
    out.extend(tokens.iter().map(|t| AccountMeta::new_readonly(x.feeds[t], false)));
    out
}

/// A new oracle buffer whose authority is `authority`.
fn new_oracle(cx: &mut Cx, authority: Pubkey) -> Result<Pubkey, String> {
    let oracle = other("oracle");
    let keeper = cx.x.keeper;
    let store = cx.x.store;
    let space = 8 + std::mem::size_of::<gmsol_store::states::Oracle>();
    cx.run("create oracle account", system_instruction::create_account(&keeper, &oracle, world1::rent(space), space as u64, &gmsol_store::ID))?;
    cx.run("initialize_oracle", w2::ix(sa::InitializeOracle { payer: keeper, authority, store, oracle, system_program: system_program::ID }, si::InitializeOracle {}, vec![]))?;
    Ok(oracle)
}

fn glv_shift_address(x: &X, funder: &Pubkey, nonce: &[u8; 32]) -> Pubkey {
    Pubkey::find_program_address(&[b"shift", x.store.as_ref(), funder.as_ref(), nonce], &gmsol_store::ID).0
}

struct GlvShiftRef {
    g: GlvInfo,
    from: usize,
    to: usize,
    shift: Pubkey,
    nonce: [u8; 32],
    funder: Pubkey,
    amount: u64,
}

fn ix_create_glv_shift(x: &X, r: &GlvShiftRef) -> Instruction {
    let (f, t) = (&x.markets[r.from], &x.markets[r.to]);
    w2::ix(
        sa::CreateGlvShift {
            authority: r.funder,
            store: x.store,
            glv: r.g.glv,
            from_market: f.market,
            to_market: t.market,
            glv_shift: r.shift,
            from_market_token: f.token,
            to_market_token: t.token,
            from_market_token_vault: ata(&r.g.glv, &f.token),
            to_market_token_vault: ata(&r.g.glv, &t.token),
            system_program: system_program::ID,
            token_program: spl_token::ID,
            associated_token_program: spl_associated_token_account::ID,
        },
        si::CreateGlvShift { nonce: r.nonce, params: gmsol_store::ops::shift::CreateShiftParams { execution_lamports: w2::EXEC_LAMPORTS, from_market_token_amount: r.amount, min_to_market_token_amount: 0 } },
        vec![],
    )
}

fn ix_execute_glv_shift(x: &X, r: &GlvShiftRef, authority: Pubkey, throw: bool) -> Instruction {
    let (f, t) = (&x.markets[r.from], &x.markets[r.to]);
    let tokens: std::collections::BTreeSet<Pubkey> = [f.index, f.long, f.short, t.index, t.long, t.short].into_iter().collect();
    let remaining = tokens.iter().map(|t| AccountMeta::new_readonly(x.feeds[t], false)).collect();
    w2::ix(
        sa::ExecuteGlvShift {
            authority,
            store: x.store,
            token_map: x.token_map,
            oracle: x.oracle,
            glv: r.g.glv,
            from_market: f.market,
            to_market: t.market,
            glv_shift: r.shift,
            from_market_token: f.token,
            to_market_token: t.token,
            from_market_token_glv_vault: ata(&r.g.glv, &f.token),
            to_market_token_glv_vault: ata(&r.g.glv, &t.token),
            from_market_token_vault: vault_of(&x.store, &f.token),
            token_program: spl_token::ID,
            chainlink_program: None,
            event_authority: x.event_authority,
            program: gmsol_store::ID,
        },
        si::ExecuteGlvShift { execution_lamports: 0, throw_on_execution_error: throw },
        remaining,
    )
}

fn ix_close_glv_shift(x: &X, r: &GlvShiftRef, authority: Pubkey) -> Instruction {
    let (f, t) = (&x.markets[r.from], &x.markets[r.to]);
    w2::ix(
        sa::CloseGlvShift {
            authority,
            funder: r.funder,
            store: x.store,
            store_wallet: x.store_wallet,
            glv: r.g.glv,
            glv_shift: r.shift,
            from_market_token: f.token,
            to_market_token: t.token,
            system_program: system_program::ID,
            token_program: spl_token::ID,
            associated_token_program: spl_associated_token_account::ID,
            event_authority: x.event_authority,
            program: gmsol_store::ID,
        },
        si::CloseGlvShift { reason: "test".into() },
        vec![],
    )
}

/// A GLV holding market tokens of market 0, and a shift 0 -> 2 funded by `funder` (not yet created).
fn glv_shift_setup(cx: &mut Cx, funder: Pubkey, r: &mut Rng) -> Result<GlvShiftRef, String> {
    let g = cx.glv()?;
    let lp = cx.x.user(2);
    let amount = MT_UNITS * (10 + r.below(20) as u64);
    cx.glv_deposit(&g, lp, 0, amount)?;
    let nonce = cx.x.next_nonce();
    Ok(GlvShiftRef { shift: glv_shift_address(&cx.x, &funder, &nonce), g, from: 0, to: 2, nonce, funder, amount: amount / (2 + r.below(3) as u64) })
}

macro_rules! e {
    ($name:literal, $auth:expr, $build:expr) => {
        Entry { program: "store", name: $name, auth: $auth, expect: Expect::Ok, build: $build }
    };
}

fn store_table() -> Vec<Entry> {
    use Auth::*;
    vec![
        // ---------------------------------------------------------------- create (signer's own accounts)
        e!("create_deposit", Key(vec![SPL_OWNER_MISMATCH]), |w, s, a, r| create_build(w, s, a, r, K_DEPOSIT)),
        e!("create_withdrawal", Key(vec![SPL_OWNER_MISMATCH]), |w, s, a, r| create_build(w, s, a, r, K_WITHDRAWAL)),
        e!("create_shift", Key(vec![SPL_OWNER_MISMATCH]), |w, s, a, r| create_build(w, s, a, r, K_SHIFT)),
        e!("create_glv_deposit", Key(vec![SPL_OWNER_MISMATCH]), |w, s, a, r| create_build(w, s, a, r, K_GLV_DEPOSIT)),
        e!("create_glv_withdrawal", Key(vec![SPL_OWNER_MISMATCH]), |w, s, a, r| create_build(w, s, a, r, K_GLV_WITHDRAWAL)),
        e!("prepare_position", Key(vec![codes::CONSTRAINT_SEEDS]), |w, s, a, r| {
            // "position address is not a valid PDA derived from the owner": somebody else's position address
            let mut cx = Cx::enter(w, s, &[])?;
            let owner = if a { s } else { cx.x.user(0) };
            let (lm, sm) = (cx.x.long_mint, cx.x.short_mint);
            let m = [0usize, 2][r.below(2)];
            let (is_long, coll_long) = (r.bool(), r.bool());
            let o = cx.x.increase_order_ref(owner, m, is_long, coll_long, if coll_long { lm } else { sm }, vec![], 1_000_000, 10 * w2::USD);
            let mut ix = cx.x.ix_prepare_position(&o);
            swap_key(&mut ix, owner, s);
            ix.accounts[0].is_signer = true;
            cx.done(ix)
        }),
        e!("create_order_v2", Key(vec![SPL_OWNER_MISMATCH, codes::CONSTRAINT_HAS_ONE, codes::CONSTRAINT_SEEDS, core(CoreError::OwnerMismatched)]), |w, s, a, r| {
            // "user … does not correspond to the owner", "position … not owned by the owner", "source account
            // … with owner as the authority"
            let salt = salt(w, &s);
            let mut cx = Cx::enter(w, s, &[])?;
            cx.trader(s)?;
            let victim = cx.x.user(0);
            let (lm, sm) = (cx.x.long_mint, cx.x.short_mint);
            let increase = r.bool();
            let o = if increase {
                let coll_long = r.bool();
                let o = cx.x.increase_order_ref(s, [0usize, 2][r.below(2)], r.bool(), coll_long, if coll_long { lm } else { sm }, vec![], if coll_long { 1_000_000_000 } else { 100_000_000 }, 300 * w2::USD);
                // the victim's position of the same kind exists as well
                let mut vo = o.clone();
                vo.owner = victim;
                vo.position = Some(cx.x.position_of(&victim, o.market, o.is_collateral_long, o.is_long));
                let i = cx.x.ix_prepare_position(&vo);
                cx.run("prepare_position (victim)", i)?;
                o
            } else {
                cx.x.swap_order_ref(s, 0, lm, false, vec![0], 10_000_000 * (1 + r.below(100) as u64))
            };
            let ixs = cx.x.ixs_prepare_order(&o);
            cx.all("prepare order", ixs)?;
            let mut ix = cx.x.ix_create_order(&o);
            if !a {
                let n = if increase { 3 } else { 2 };
                match (r.below(n) + salt) % n {
                    0 => {
                        for mint in [lm, sm] {
                            swap_key(&mut ix, ata(&s, &mint), ata(&victim, &mint));
                        }
                    }
                    1 => swap_key(&mut ix, cx.x.user_account(&s), cx.x.user_account(&victim)),
                    _ => swap_key(&mut ix, o.position.unwrap(), cx.x.position_of(&victim, o.market, o.is_collateral_long, o.is_long)),
                }
            }
            cx.done(ix)
        }),
        e!("update_order_v2", Key(vec![core(CoreError::OwnerMismatched)]), |w, s, a, r| {
            // "owner must be a signer and the owner of the order"
            let mut cx = Cx::enter(w, s, &[])?;
            cx.trader(s)?;
            let owner = if a { s } else { cx.x.user(0) };
            let lm = cx.x.long_mint;
            let mut o = cx.x.swap_order_ref(owner, 0, lm, false, vec![0], 10_000_000 * (1 + r.below(100) as u64));
            o.kind = OrderKind::LimitSwap;
            o.min_output = Some(1 + r.below(1000) as u128);
            let ixs = cx.x.ixs_prepare_order(&o);
            cx.all("prepare limit swap", ixs)?;
            let i = cx.x.ix_create_order(&o);
            cx.run("create_order_v2 (limit swap)", i)?;
            let ix = w2::ix(
                sa::UpdateOrderV2 {
                    owner: s,
                    store: cx.x.store,
                    market: cx.x.markets[0].market,
                    order: o.order,
                    callback_authority: None,
                    callback_program: None,
                    callback_shared_data_account: None,
                    callback_partitioned_data_account: None,
                    event_authority: cx.x.event_authority,
                    program: gmsol_store::ID,
                },
                si::UpdateOrderV2 { params: gmsol_store::states::order::UpdateOrderParams { size_delta_value: None, acceptable_price: None, trigger_price: None, min_output: Some(1 + r.below(5000) as u128), valid_from_ts: None } },
                vec![],
            );
            cx.done(ix)
        }),
        e!("set_should_keep_position_account", Key(vec![core(CoreError::OwnerMismatched)]), |w, s, a, r| {
            let mut cx = Cx::enter(w, s, &[])?;
            cx.trader(s)?;
            let owner = if a { s } else { cx.x.user(0) };
            let Act::Order(o) = cx.pending(K_ORDER, owner, r)? else { unreachable!() };
            let ix = w2::ix(sa::SetShouldKeepPositionAccount { owner: s, order: o.order }, si::SetShouldKeepPositionAccount { keep: r.bool() }, vec![]);
            cx.done(ix)
        }),
        e!("close_empty_position", Key(vec![codes::CONSTRAINT_HAS_ONE]), |w, s, a, r| {
            // "owner must sign the transaction and own the position"
            let mut cx = Cx::enter(w, s, &[])?;
            let owner = if a { s } else { cx.x.user(0) };
            let (lm, sm) = (cx.x.long_mint, cx.x.short_mint);
            let coll_long = r.bool();
            let o = cx.x.increase_order_ref(owner, [0usize, 2][r.below(2)], r.bool(), coll_long, if coll_long { lm } else { sm }, vec![], 1_000_000, 10 * w2::USD);
            let i = cx.x.ix_prepare_position(&o);
            cx.run("prepare_position", i)?;
            cx.x.advance(1 + r.below(100) as i64);
            let ix = w2::ix(sa::CloseEmptyPosition { owner: s, store: cx.x.store, position: o.position.unwrap() }, si::CloseEmptyPosition {}, vec![]);
            cx.done(ix)
        }),
        e!("prepare_trade_event_buffer", Key(vec![codes::CONSTRAINT_SEEDS]), |w, s, a, r| {
            // the buffer address is derived from the authority: somebody else's buffer is rejected
            let cx = Cx::enter(w, s, &[])?;
            let event = if a { cx.x.trade_event_of(&s) } else { cx.x.trade_event_of(&[cx.x.keeper, cx.x.keeper2][r.below(2)]) };
            let ix = w2::ix(sa::PrepareTradeEventBuffer { authority: s, store: cx.x.store, event, system_program: system_program::ID }, si::PrepareTradeEventBuffer { index: 0 }, vec![]);
            cx.done(ix)
        }),
        e!("settle_builder_fee", Permissionless, |w, s, _a, r| {
            // "Permissionless: any signer may invoke it, no role is required"
            let mut cx = Cx::enter(w, s, &[])?;
            let owner = cx.x.user(0);
            let builder = cx.x.user_account(&cx.x.user(1));
            let keeper = cx.x.keeper;
            let Act::Order(o) = cx.pending(K_ORDER, owner, r)? else { unreachable!() };
            cx.tick()?;
            let i = cx.x.ix_execute_order(&o, keeper, 0, true);
            cx.run("execute swap", i)?;
            let i = cx.x.ix_prepare_ata(keeper, builder, o.final_output_token);
            cx.run("claim vault", i)?;
            let escrow = w2::token_amount(&cx.x.vm, &ata(&o.order, &o.final_output_token));
            let recorded = if r.bool() { escrow / (1 + r.below(10) as u64) } else { 0 };
            if recorded != 0 {
                cx.x.patch_builder_fee(&o.order, &builder, recorded)?;
            }
            let mut ix = cx.x.ix_settle_builder_fee(&o, Some(builder));
            // the caller pays the transaction: listed as an extra signer (the instruction itself names none)
            ix.accounts.push(AccountMeta::new(s, true));
            cx.done(ix)
        }),
        e!("get_market_token_value", Key(vec![codes::CONSTRAINT_HAS_ONE]), |w, s, a, r| {
            // "authority must be a signer and be the authority of the oracle buffer account"
            let mut cx = Cx::enter(w, s, &[])?;
            let authority = if a { s } else { cx.x.keeper2 };
            let oracle = new_oracle(&mut cx, authority)?;
            cx.tick()?;
            let m = r.below(6);
            let info = cx.x.markets[m].clone();
            let ix = w2::ix(
                sa::GetMarketTokenValue { authority: s, store: cx.x.store, token_map: cx.x.token_map, oracle, market: info.market, market_token: info.token, event_authority: cx.x.event_authority, program: gmsol_store::ID },
                si::GetMarketTokenValue { amount: 1 + r.next() % 1_000_000_000_000, pnl_factor: "max_after_deposit".into(), maximize: r.bool(), max_age: 60, emit_event: r.bool() },
                feeds_of(&cx.x, m),
            );
            cx.done(ix)
        }),
        e!("get_glv_token_value", Key(vec![codes::CONSTRAINT_HAS_ONE]), |w, s, a, r| {
            let mut cx = Cx::enter(w, s, &[])?;
            let authority = if a { s } else { cx.x.keeper2 };
            let oracle = new_oracle(&mut cx, authority)?;
            let g = cx.glv()?;
            let lp = cx.x.user(2);
            cx.glv_deposit(&g, lp, 0, MT_UNITS * (1 + r.below(20) as u64))?;
            cx.tick()?;
            let ix = w2::ix(
                sa::GetGlvTokenValue { authority: s, store: cx.x.store, token_map: cx.x.token_map, oracle, glv: g.glv, glv_token: g.glv_token, event_authority: cx.x.event_authority, program: gmsol_store::ID },
                si::GetGlvTokenValue { amount: 1 + r.next() % 1_000_000_000, maximize: r.bool(), max_age: 60, emit_event: r.bool() },
                glv_remaining(&cx.x, &g),
            );
            cx.done(ix)
        }),
        // ---------------------------------------------------------------- close (owner, or ORDER_KEEPER once terminal)
        e!("close_deposit", Key(vec![core(CoreError::PermissionDenied)]), |w, s, a, r| close_build(w, s, a, r, K_DEPOSIT)),
        e!("close_withdrawal", Key(vec![core(CoreError::PermissionDenied)]), |w, s, a, r| close_build(w, s, a, r, K_WITHDRAWAL)),
        e!("close_shift", Key(vec![core(CoreError::PermissionDenied)]), |w, s, a, r| close_build(w, s, a, r, K_SHIFT)),
        e!("close_order_v2", Key(vec![core(CoreError::PermissionDenied)]), |w, s, a, r| close_build(w, s, a, r, K_ORDER)),
        e!("close_glv_deposit", Key(vec![core(CoreError::PermissionDenied)]), |w, s, a, r| close_build(w, s, a, r, K_GLV_DEPOSIT)),
        e!("close_glv_withdrawal", Key(vec![core(CoreError::PermissionDenied)]), |w, s, a, r| close_build(w, s, a, r, K_GLV_WITHDRAWAL)),
        // ---------------------------------------------------------------- keeper execution (ORDER_KEEPER)
        e!("execute_deposit", Role(OK_), |w, s, _a, r| execute_build(w, s, r, K_DEPOSIT)),
        e!("execute_withdrawal", Role(OK_), |w, s, _a, r| execute_build(w, s, r, K_WITHDRAWAL)),
        e!("execute_shift", Role(OK_), |w, s, _a, r| execute_build(w, s, r, K_SHIFT)),
        e!("execute_glv_deposit", Role(OK_), |w, s, _a, r| execute_build(w, s, r, K_GLV_DEPOSIT)),
        e!("execute_glv_withdrawal", Role(OK_), |w, s, _a, r| execute_build(w, s, r, K_GLV_WITHDRAWAL)),
        e!("execute_increase_or_swap_order_v2", Role(OK_), |w, s, _a, r| {
            let mut cx = Cx::enter(w, s, &[])?;
            let owner = cx.x.user(r.below(2));
            if r.bool() {
                let act = cx.pending(K_ORDER, owner, r)?;
                cx.tick()?;
                let ix = act.execute(&cx.x, s, r.bool());
                return cx.done(ix);
            }
            let (lm, sm) = (cx.x.long_mint, cx.x.short_mint);
            let coll_long = r.bool();
            let usd = 100 + r.below(900) as u64;
            let o = cx.x.increase_order_ref(owner, [0usize, 2][r.below(2)], r.bool(), coll_long, if coll_long { lm } else { sm }, vec![], if coll_long { usd * 10_000_000 } else { usd * 1_000_000 }, usd as u128 * (1 + r.below(8) as u128) * w2::USD);
            let ixs = cx.x.ixs_prepare_order(&o);
            cx.all("prepare increase order", ixs)?;
            let i = cx.x.ix_create_order(&o);
            cx.run("create_order_v2 (increase)", i)?;
            cx.event_buffer(s)?;
            cx.tick()?;
            let ix = cx.x.ix_execute_order(&o, s, 0, r.bool());
            cx.done(ix)
        }),
        e!("execute_decrease_order_v2", Role(OK_), |w, s, _a, r| {
            let mut cx = Cx::enter(w, s, &[])?;
            let owner = cx.x.user(r.below(2));
            let keeper = cx.x.keeper;
            let open = cx.open_position(owner, [0usize, 2][r.below(2)], r.bool(), r.bool(), 200 + r.below(800) as u64, 1 + r.below(5) as u128)?;
            let dec = cx.pending_decrease(&open, 10 + r.below(91) as u128)?;
            cx.event_buffer(s)?;
            cx.tick()?;
            let ixs = cx.x.ixs_prepare_claimables(keeper, dec.market, owner, dec.is_long);
            cx.all("claimable accounts", ixs)?;
            let ix = cx.x.ix_execute_decrease(&dec, s, 0, r.bool());
            cx.done(ix)
        }),
        e!("liquidate", Role(OK_), |w, s, _a, r| {
            // a 10x position after an adverse move of 9.5 %: below the minimum collateral, not insolvent
            let mut cx = Cx::enter(w, s, &[])?;
            let owner = cx.x.user(r.below(2));
            let keeper = cx.x.keeper;
            let m = [0usize, 2][r.below(2)];
            let is_long = r.bool();
            let open = cx.open_position(owner, m, is_long, false, 500 + r.below(500) as u64, 10)?;
            let index = cx.x.markets[m].index;
            let (mid, sp) = cx.x.prices[&index];
            cx.x.set_price(&index, if is_long { mid * 905 / 1000 } else { mid * 1095 / 1000 }, sp);
            cx.tick()?;
            let l = cx.x.liquidation_ref(s, owner, m, open.is_long, open.is_collateral_long);
            let ixs = cx.x.ixs_prepare_liquidation(&l, keeper);
            cx.all("prepare liquidation", ixs)?;
            cx.event_buffer(s)?;
            let ix = cx.x.ix_liquidate(&l, s, 0);
            cx.done(ix)
        }),
        e!("update_adl_state", Role(OK_), |w, s, _a, r| {
            let mut cx = Cx::enter(w, s, &[])?;
            cx.tick()?;
            let ix = cx.x.ix_update_adl_state(s, [0usize, 1, 2, 3][r.below(4)], r.bool());
            cx.done(ix)
        }),
        e!("auto_deleverage", Role(OK_), |w, s, _a, r| {
            // profitable longs against a 1 % ADL limit: ADL gets enabled and is required
            let mut cx = Cx::enter(w, s, &[])?;
            let owner = cx.x.user(r.below(2));
            let keeper = cx.x.keeper;
            let m = [0usize, 2][r.below(2)];
            let market = cx.x.markets[m].market;
            cx.x.set_market_config(&market, "max_pnl_factor_for_long_adl", w2::USD / 100)?;
            cx.x.set_market_config(&market, "min_pnl_factor_after_long_adl", 0)?;
            let open = cx.open_position(owner, m, true, r.bool(), 5_000 + r.below(5_000) as u64, 5)?;
            cx.move_index_price(m, 60 + r.below(100) as i128)?;
            let i = cx.x.ix_update_adl_state(keeper, m, true);
            cx.run("update_adl_state", i)?;
            if !cx.x.market_state(m).is_adl_enabled(true) {
                return Err("c19y prep: ADL was not enabled".into());
            }
            cx.tick()?;
            let l = cx.x.liquidation_ref(s, owner, m, true, open.is_collateral_long);
            let ixs = cx.x.ixs_prepare_liquidation(&l, keeper);
            cx.all("prepare adl", ixs)?;
            cx.event_buffer(s)?;
            let size = cx.x.position_state(&open.position.unwrap()).ok_or("position missing")?.state.size_in_usd;
            let ix = cx.x.ix_auto_deleverage(&l, s, size / (1 + r.below(4) as u128), 0);
            cx.done(ix)
        }),
        e!("cancel_order_if_no_position", Role(OK_), |w, s, _a, r| {
            // two decrease orders for the whole position: after the first one ran the position account is gone
            let mut cx = Cx::enter(w, s, &[])?;
            let owner = cx.x.user(r.below(2));
            let keeper = cx.x.keeper;
            let open = cx.open_position(owner, [0usize, 2][r.below(2)], r.bool(), r.bool(), 200 + r.below(800) as u64, 1 + r.below(5) as u128)?;
            let first = cx.pending_decrease(&open, 100)?;
            let second = cx.pending_decrease(&open, 100)?;
            cx.tick()?;
            let ixs = cx.x.ixs_prepare_claimables(keeper, first.market, owner, first.is_long);
            cx.all("claimable accounts", ixs)?;
            let i = cx.x.ix_execute_decrease(&first, keeper, 0, true);
            cx.run("execute the closing decrease", i)?;
            let position = open.position.unwrap();
            if cx.x.vm.get(&position).is_some() {
                return Err("c19y prep: the emptied position account still exists".into());
            }
            let ix = w2::ix(sa::CancelOrderIfNoPosition { authority: s, store: cx.x.store, order: second.order, position }, si::CancelOrderIfNoPosition {}, vec![]);
            cx.done(ix)
        }),
        e!("update_closed_state", Role(OK_), |w, s, _a, r| {
            let mut cx = Cx::enter(w, s, &[])?;
            cx.tick()?;
            let m = r.below(6);
            let ix = w2::ix(sa::UpdateClosedState { authority: s, store: cx.x.store, token_map: cx.x.token_map, oracle: cx.x.oracle, market: cx.x.markets[m].market }, si::UpdateClosedState {}, feeds_of(&cx.x, m));
            cx.done(ix)
        }),
        e!("update_fees_state", Role(OK_), |w, s, _a, r| {
            let mut cx = Cx::enter(w, s, &[])?;
            cx.x.advance(r.below(1000) as i64);
            cx.tick()?;
            let m = r.below(6);
            let ix = w2::ix(
                sa::UpdateFeesState { authority: s, store: cx.x.store, token_map: cx.x.token_map, oracle: cx.x.oracle, market: cx.x.markets[m].market, event_authority: cx.x.event_authority, program: gmsol_store::ID },
                si::UpdateFeesState {},
                feeds_of(&cx.x, m),
            );
            cx.done(ix)
        }),
        e!("create_glv_shift", Role(OK_), |w, s, _a, r| {
            let mut cx = Cx::enter(w, s, &[])?;
            let sh = glv_shift_setup(&mut cx, s, r)?;
            let ix = ix_create_glv_shift(&cx.x, &sh);
            cx.done(ix)
        }),
        e!("execute_glv_shift", Role(OK_), |w, s, _a, r| {
            let mut cx = Cx::enter(w, s, &[])?;
            let keeper = cx.x.keeper;
            let sh = glv_shift_setup(&mut cx, keeper, r)?;
            let i = ix_create_glv_shift(&cx.x, &sh);
            cx.run("create_glv_shift", i)?;
            cx.tick()?;
            let ix = ix_execute_glv_shift(&cx.x, &sh, s, r.bool());
            cx.done(ix)
        }),
        e!("close_glv_shift", Role(OK_), |w, s, a, r| {
            // a keeper may close its own (funded) shift at any time, another keeper's only once terminal
            let mut cx = Cx::enter(w, s, &[])?;
            let keeper = cx.x.keeper;
            let own = a && r.bool();
            let sh = glv_shift_setup(&mut cx, if own { s } else { keeper }, r)?;
            let i = ix_create_glv_shift(&cx.x, &sh);
            cx.run("create_glv_shift", i)?;
            if !own || r.bool() {
                cx.tick()?;
                let i = ix_execute_glv_shift(&cx.x, &sh, keeper, false);
                cx.run("execute_glv_shift", i)?;
            }
            let ix = ix_close_glv_shift(&cx.x, &sh, s);
            cx.done(ix)
        }),
        // ---------------------------------------------------------------- GLV management (MARKET_KEEPER)
        e!("initialize_glv", Role(MK), |w, s, _a, r| {
            let cx = Cx::enter(w, s, &[])?;
            let g = cx.x.glv_info(r.below(3) as u16);
            let sets: [&[usize]; 4] = [&[0], &[0, 2], &[1, 3], &[0, 1, 2, 3]];
            let ix = cx.x.ix_initialize_glv(s, &g, sets[r.below(4)]);
            cx.done(ix)
        }),
        e!("update_glv_market_config", Role(MK), |w, s, _a, r| {
            let mut cx = Cx::enter(w, s, &[])?;
            let g = cx.glv()?;
            let ix = cx.x.ix_update_glv_market_config(s, &g, [0usize, 2][r.below(2)], Some(r.next() >> 8), if r.bool() { Some(r.u128() >> 8) } else { None });
            cx.done(ix)
        }),
        e!("toggle_glv_market_flag", Role(MK), |w, s, _a, r| {
            let mut cx = Cx::enter(w, s, &[])?;
            let g = cx.glv()?;
            // (the flag is on after `glv()`; setting a flag to the value it has is refused)
            let ix = cx.x.ix_toggle_glv_deposit_allowed(s, &g, [0usize, 2][r.below(2)], false);
            cx.done(ix)
        }),
        e!("update_glv_config", Role(MK), |w, s, _a, r| {
            let mut cx = Cx::enter(w, s, &[])?;
            let g = cx.glv()?;
            let params = gmsol_store::states::glv::UpdateGlvParams {
                min_tokens_for_first_deposit: Some(1 + r.next() % 1_000_000),
                // (a value equal to the stored one is refused: stay away from the defaults 3600 s, 1 %, 0)
                shift_min_interval_secs: if r.bool() { Some(r.below(3600) as u32) } else { None },
                shift_max_price_impact_factor: if r.bool() { Some(1 + r.u128() % (w2::USD / 200)) } else { None },
                shift_min_value: if r.bool() { Some(1 + r.u128() % (1000 * w2::USD)) } else { None },
            };
            let ix = w2::ix(sa::UpdateGlvConfig { authority: s, store: cx.x.store, glv: g.glv }, si::UpdateGlvConfig { params }, vec![]);
            cx.done(ix)
        }),
        e!("insert_glv_market", Role(MK), |w, s, _a, r| {
            let mut cx = Cx::enter(w, s, &[])?;
            let g = cx.glv()?;
            let ix = cx.x.ix_insert_glv_market(s, &g, [1usize, 3][r.below(2)]);
            cx.done(ix)
        }),
        e!("remove_glv_market", Role(MK), |w, s, _a, r| {
            let mut cx = Cx::enter(w, s, &[])?;
            let g = cx.glv()?;
            let keeper = cx.x.keeper;
            let m = [0usize, 2][r.below(2)];
            let mt = cx.x.markets[m].token;
            // a market can only be removed while deposits into it are disabled
            let i = cx.x.ix_toggle_glv_deposit_allowed(keeper, &g, m, false);
            cx.run("toggle_glv_market_flag", i)?;
            let ix = w2::ix(
                sa::RemoveGlvMarket {
                    authority: s,
                    store: cx.x.store,
                    store_wallet: cx.x.store_wallet,
                    glv: g.glv,
                    market_token: mt,
                    vault: ata(&g.glv, &mt),
                    store_wallet_ata: ata(&cx.x.store_wallet, &mt),
                    token_program: spl_token::ID,
                    associated_token_program: spl_associated_token_account::ID,
                    system_program: system_program::ID,
                },
                si::RemoveGlvMarket {},
                vec![],
            );
            cx.done(ix)
        }),
    ]
}

// ------------------------------------------------------------------------------------ Chainlink price feed update

fn word(x: u128) -> [u8; 32] {
    let mut w = [0u8; 32];
    w[16..].copy_from_slice(&x.to_be_bytes());
    w
}

/// A Data Streams v3 report (feed id, validity window, fees, expiry, price / bid / ask as ABI words) in the
/// full-report frame (three context words, offset, length, blob), snappy-compressed like a client sends it.
fn chainlink_report(feed_id: &Pubkey, observed_at: i64, price: u128, spread: u128) -> Result<Vec<u8>, String> {
    let mut blob = vec![];
    blob.extend_from_slice(feed_id.as_ref());
    for x in [observed_at as u128 - 1, observed_at as u128, 12_345, 678, observed_at as u128 + 60, price, price - spread, price + spread] {
        blob.extend_from_slice(&word(x));
    }
    let mut payload = vec![];
    for i in 0..3u8 {
        payload.extend_from_slice(&[i + 1; 32]);
    }
    payload.extend_from_slice(&word(128));
    payload.extend_from_slice(&word(blob.len() as u128));
    payload.extend_from_slice(&blob);
    gmsol_chainlink_datastreams::utils::Compressor::compress(&payload).map_err(|e| format!("c19y prep: compress: {e}"))
}

/// `update_price_feed_with_chainlink(_idempotent)`: "authority must be a signer and have the PRICE_KEEPER role";
/// the feed must be "authorized for the authority", so every caller owns the feed it updates: callers
/// without the role created it while they still held PRICE_KEEPER (granted and revoked again with the
/// real instructions). The Chainlink verifier program is a stub that accepts every report.
fn chainlink_build(w: &mut World1, s: Pubkey, r: &mut Rng, idempotent: bool) -> Result<Instruction, String> {
    const PK: &str = RoleKey::PRICE_KEEPER;
    let verifier = gmsol_chainlink_datastreams::verifier::ID;
    w.vm.set_account(verifier, svm::Acct { lamports: 1, data: vec![], owner: svm::key_of("native-loader"), executable: true });
    svm::register_processor(verifier, |_pid, _accounts, _data| Ok(()));
    let had = w.store().has_role(&s, PK).unwrap_or(false);
    if !had {
        run_as(w, "grant_role", w.k.ix_grant_role(w.k.admin, s, PK))?;
    }
    let mut id = [0u8; 32];
    id[1] = 3; // report schema v3
    id[2..10].copy_from_slice(&r.next().to_le_bytes());
    let feed_id = Pubkey::new_from_array(id);
    let token = w.k.feeds[r.below(4)].0;
    let provider = gmsol_store::states::PriceProviderKind::ChainlinkDataStreams as u8;
    let index = r.below(3) as u16;
    run_as(w, "initialize_price_feed", w.k.ix_initialize_price_feed(s, index, provider, token, feed_id))?;
    if !had {
        run_as(w, "revoke_role", w.k.ix_revoke_role(w.k.admin, s, PK))?;
    }
    advance(1 + r.below(100) as i64);
    let price = (1 + r.next() % 1_000_000) as u128 * 1_000_000_000_000_000;
    let compressed_report = chainlink_report(&feed_id, svm::sysvars().unix_timestamp, price, price / (2 + r.below(1000) as u128))?;
    let accounts = sa::UpdatePriceFeedWithChainlink {
        authority: s,
        store: w.k.store,
        verifier_account: other("cl-verifier-account"),
        access_controller: other("cl-access-controller"),
        config_account: other("cl-config"),
        price_feed: w.k.price_feed_pda(&s, index, provider, &token),
        chainlink: verifier,
    };
    Ok(if idempotent { pix(gmsol_store::ID, accounts, si::UpdatePriceFeedWithChainlinkIdempotent { compressed_report }) } else { pix(gmsol_store::ID, accounts, si::UpdatePriceFeedWithChainlink { compressed_report }) })
}

fn chainlink_table() -> Vec<Entry> {
    const PK: &str = RoleKey::PRICE_KEEPER;
    vec![
        e!("update_price_feed_with_chainlink", Auth::Role(PK), |w, s, _a, r| chainlink_build(w, s, r, false)),
        e!("update_price_feed_with_chainlink_idempotent", Auth::Role(PK), |w, s, _a, r| chainlink_build(w, s, r, true)),
    ]
}

pub fn table() -> Vec<Entry> {
    let mut t = store_table();
    t.extend(chainlink_table());
    t.extend(timelock_table());
    t.extend(treasury_table());
    t.extend(lp_table());
    t
}

// ------------------------------------------------------------------------------------ W1 helpers

fn fund(w: &mut World1, key: Pubkey) -> Pubkey {
    if w.vm.get(&key).is_none() {
        w.vm.fund(key, 1_000_000_000_000);
    }
    key
}

fn run_as(w: &mut World1, what: &str, ix: Instruction) -> Result<(), String> {
    w.process(&ix).map_err(|e| format!("c19y prep: {what} failed: {e:?}"))
}

fn pix(program_id: Pubkey, accounts: impl ToAccountMetas, data: impl InstructionData) -> Instruction {
    let mut metas = accounts.to_account_metas(None);
    // the first signer pays the transaction fee: the runtime loads it writable (see `world2::ix`)
    if let Some(m) = metas.iter_mut().find(|m| m.is_signer) {
        m.is_writable = true;
    }
    Instruction { program_id, accounts: metas, data: data.data() }
}

/// Enable (if needed) and grant a role with the store authority of W1.
fn grant_w1(w: &mut World1, who: Pubkey, role: &str) -> Result<(), String> {
    let _ = w.process(&w.k.ix_enable_role(w.k.admin, role));
    if w.store().has_role(&who, role).unwrap_or(false) {
        return Ok(());
    }
    run_as(w, "grant_role", w.k.ix_grant_role(w.k.admin, who, role))
}

fn advance(secs: i64) {
    let mut s = svm::sysvars();
    s.unix_timestamp += secs;
    s.slot += (secs as u64) * 2;
    svm::set_sysvars(s);
}

// ------------------------------------------------------------------------------------ timelock
mod tl {
    use super::*;
    use gmsol_timelock::accounts as ta;
    use gmsol_timelock::instruction as ti;
    pub use gmsol_timelock::roles::{TIMELOCKED_ADMIN, TIMELOCKED_MARKET_KEEPER, TIMELOCK_ADMIN, TIMELOCK_KEEPER};
    pub const ID: Pubkey = gmsol_timelock::ID;
    pub const EXEC_ROLES: [&str; 2] = ["ADMIN", "MARKET_KEEPER"];
    pub const TLD: [&str; 2] = [TIMELOCKED_ADMIN, TIMELOCKED_MARKET_KEEPER];

    pub fn executor(store: &Pubkey, role: &str) -> Result<Pubkey, String> {
        let name = gmsol_utils::fixed_str::fixed_str_to_bytes::<{ gmsol_store::states::MAX_ROLE_NAME_LEN }>(role).map_err(|e| format!("role name: {e:?}"))?;
        Ok(Pubkey::find_program_address(&[b"timelock_executor", store.as_ref(), &name], &ID).0)
    }
    pub fn wallet(executor: &Pubkey) -> Pubkey {
        Pubkey::find_program_address(&[b"wallet", executor.as_ref()], &ID).0
    }
    pub fn config(store: &Pubkey) -> Pubkey {
        Pubkey::find_program_address(&[b"timelock_config", store.as_ref()], &ID).0
    }

    pub struct Tl {
        pub executors: [Pubkey; 2],
        pub wallets: [Pubkey; 2],
        pub config: Pubkey,
        /// Holds TIMELOCK_ADMIN, TIMELOCK_KEEPER and both timelocked roles.
        pub officer: Pubkey,
        pub buffers: u32,
    }

    pub fn ix_initialize_executor(w: &World1, payer: Pubkey, role: &str) -> Result<Instruction, String> {
        let executor = executor(&w.k.store, role)?;
        Ok(pix(ID, ta::InitializeExecutor { payer, store: w.k.store, executor, wallet: wallet(&executor), system_program: system_program::ID }, ti::InitializeExecutor { role: role.to_string() }))
    }

    /// Roles, an officer holding all of them, both executors; the MARKET_KEEPER wallet is a MARKET_KEEPER.
    /// The store authority is still the W1 admin afterwards (more roles can be granted).
    pub fn prepare(w: &mut World1) -> Result<Tl, String> {
        let officer = fund(w, other("tl-officer"));
        for r in [TIMELOCK_ADMIN, TIMELOCK_KEEPER, TIMELOCKED_ADMIN, TIMELOCKED_MARKET_KEEPER] {
            grant_w1(w, officer, r)?;
        }
        let mut executors = [Pubkey::default(); 2];
        let mut wallets = [Pubkey::default(); 2];
        for (i, role) in EXEC_ROLES.iter().enumerate() {
            run_as(w, "initialize_executor", ix_initialize_executor(w, w.k.admin, role)?)?;
            executors[i] = executor(&w.k.store, role)?;
            wallets[i] = wallet(&executors[i]);
        }
        grant_w1(w, wallets[1], MK)?;
        Ok(Tl { executors, wallets, config: config(&w.k.store), officer, buffers: 0 })
    }

    pub fn ix_initialize_config(w: &World1, t: &Tl, authority: Pubkey, delay: u32) -> Instruction {
        pix(
            ID,
            ta::InitializeConfig { authority, store: w.k.store, timelock_config: t.config, executor: t.executors[0], wallet: t.wallets[0], store_program: gmsol_store::ID, system_program: system_program::ID },
            ti::InitializeConfig { delay },
        )
    }

    /// Offer the store authority to the ADMIN executor wallet (the first half of the real hand-over).
    pub fn offer_store(w: &mut World1, t: &Tl) -> Result<(), String> {
        run_as(w, "transfer_store_authority", w.k.ix_transfer_store_authority(w.k.admin, t.wallets[0]))
    }

    /// Hand the store to the timelock: from here on the store authority is the ADMIN executor wallet.
    pub fn configure(w: &mut World1, t: &Tl, delay: u32) -> Result<(), String> {
        offer_store(w, t)?;
        run_as(w, "timelock initialize_config", ix_initialize_config(w, t, t.officer, delay))
    }

    /// A buffered call of the probe program: accounts = [executor wallet (signer), some account].
    pub fn ix_create_buffer(w: &World1, t: &mut Tl, authority: Pubkey, exec: usize, data: Vec<u8>) -> (Pubkey, Instruction) {
        t.buffers += 1;
        let buffer = other(&format!("tl-buffer-{}", t.buffers));
        let mut metas = ta::CreateInstructionBuffer {
            authority,
            store: w.k.store,
            executor: t.executors[exec],
            instruction_buffer: buffer,
            instruction_program: svm::probe_program_id(),
            store_program: gmsol_store::ID,
            system_program: system_program::ID,
        }
        .to_account_metas(None);
        // the buffer is a fresh keypair account: it signs its own creation
        for m in metas.iter_mut() {
            if m.pubkey == buffer {
                m.is_signer = true;
            }
        }
        metas.push(AccountMeta::new_readonly(t.wallets[exec], false));
        metas.push(AccountMeta::new(other("tl-target-account"), false));
        let ix = Instruction { program_id: ID, accounts: metas, data: ti::CreateInstructionBuffer { num_accounts: 2, data_len: data.len() as u16, data, signers: vec![0] }.data() };
        (buffer, ix)
    }

    pub fn buffer(w: &mut World1, t: &mut Tl, exec: usize, data: Vec<u8>) -> Result<Pubkey, String> {
        let officer = t.officer;
        let (b, ix) = ix_create_buffer(w, t, officer, exec, data);
        run_as(w, "create_instruction_buffer", ix)?;
        Ok(b)
    }

    pub fn ix_approve(w: &World1, t: &Tl, authority: Pubkey, exec: usize, buffer: Pubkey) -> Instruction {
        pix(ID, ta::ApproveInstruction { authority, store: w.k.store, executor: t.executors[exec], instruction: buffer, store_program: gmsol_store::ID }, ti::ApproveInstruction { role: EXEC_ROLES[exec].to_string() })
    }

    pub fn ix_execute(w: &World1, t: &Tl, authority: Pubkey, exec: usize, buffer: Pubkey) -> Instruction {
        let mut metas = ta::ExecuteInstruction {
            authority,
            store: w.k.store,
            timelock_config: t.config,
            executor: t.executors[exec],
            wallet: t.wallets[exec],
            rent_receiver: t.officer,
            instruction: buffer,
            store_program: gmsol_store::ID,
        }
        .to_account_metas(None);
        // the buffered accounts, then the target program
        metas.push(AccountMeta::new(t.wallets[exec], false));
        metas.push(AccountMeta::new(other("tl-target-account"), false));
        metas.push(AccountMeta::new_readonly(svm::probe_program_id(), false));
        Instruction { program_id: ID, accounts: metas, data: ti::ExecuteInstruction {}.data() }
    }

    fn data(r: &mut Rng) -> Vec<u8> {
        (0..r.below(40)).map(|_| r.next() as u8).collect()
    }

    pub fn table() -> Vec<Entry> {
        let e = |name, auth, build| Entry { program: "timelock", name, auth, expect: Expect::Ok, build };
        vec![
            // no attribute, no role: anyone may create the executor of any role name
            e("initialize_executor", Auth::Permissionless, |w, s, _a, r| ix_initialize_executor(w, s, ["ADMIN", "MARKET_KEEPER", "ORDER_KEEPER", "C19_ROLE"][r.below(4)])),
            // `only(TIMELOCK_ADMIN)`, and the body repeats the check for TIMELOCK_KEEPER and __TLD_ADMIN: the
            // caller must hold all three. Unauthorised variants hold any proper subset of the three.
            e("initialize_config", Auth::Role(TIMELOCK_ADMIN), |w, s, a, r| {
                let t = prepare(w)?;
                let others = [TIMELOCK_KEEPER, TIMELOCKED_ADMIN];
                if a {
                    for role in others {
                        grant_w1(w, s, role)?;
                    }
                } else {
                    // any proper subset of {TIMELOCK_ADMIN, TIMELOCK_KEEPER, __TLD_ADMIN}, "all but one" first
                    let mask = [3usize, 5, 6, 1, 2, 4, 0][(r.below(7) + salt(w, &s)) % 7];
                    for (i, role) in [TIMELOCK_ADMIN, TIMELOCK_KEEPER, TIMELOCKED_ADMIN].iter().enumerate() {
                        if mask & (1 << i) != 0 {
                            grant_w1(w, s, role)?;
                        }
                    }
                }
                offer_store(w, &t)?;
                Ok(ix_initialize_config(w, &t, s, r.below(100_000) as u32))
            }),
            e("increase_delay", Auth::Role(TIMELOCK_ADMIN), |w, s, _a, r| {
                let t = prepare(w)?;
                configure(w, &t, r.below(1000) as u32)?;
                Ok(pix(ID, ta::IncreaseDelay { authority: s, store: w.k.store, timelock_config: t.config, store_program: gmsol_store::ID }, ti::IncreaseDelay { delta: 1 + r.below(100_000) as u32 }))
            }),
            e("create_instruction_buffer", Auth::Role(TIMELOCK_KEEPER), |w, s, _a, r| {
                let mut t = prepare(w)?;
                let d = data(r);
                Ok(ix_create_buffer(w, &mut t, s, r.below(2), d).1)
            }),
            // "approve … by a `__TLD_<role>`": the timelocked role of the executor named in the argument.
            // Unauthorised variants may hold the timelocked role of the *other* executor.
            e("approve_instruction", Auth::Role(TIMELOCKED_MARKET_KEEPER), |w, s, a, r| {
                let mut t = prepare(w)?;
                if !a && (r.below(2) + salt(w, &s)) % 2 == 0 {
                    grant_w1(w, s, TIMELOCKED_ADMIN)?;
                }
                let d = data(r);
                let b = buffer(w, &mut t, 1, d)?;
                Ok(ix_approve(w, &t, s, 1, b))
            }),
            e("approve_instructions", Auth::Role(TIMELOCKED_ADMIN), |w, s, a, r| {
                let mut t = prepare(w)?;
                if !a && (r.below(2) + salt(w, &s)) % 2 == 0 {
                    grant_w1(w, s, TIMELOCKED_MARKET_KEEPER)?;
                }
                let mut metas = ta::ApproveInstructions { authority: s, store: w.k.store, executor: t.executors[0], store_program: gmsol_store::ID }.to_account_metas(None);
                for _ in 0..1 + r.below(3) {
                    let d = data(r);
                    metas.push(AccountMeta::new(buffer(w, &mut t, 0, d)?, false));
                }
                Ok(Instruction { program_id: ID, accounts: metas, data: ti::ApproveInstructions { role: EXEC_ROLES[0].to_string() }.data() })
            }),
            e("cancel_instruction", Auth::Role(TIMELOCK_ADMIN), |w, s, _a, r| {
                let mut t = prepare(w)?;
                let exec = r.below(2);
                let d = data(r);
                let b = buffer(w, &mut t, exec, d)?;
                if r.bool() {
                    run_as(w, "approve_instruction", ix_approve(w, &t, t.officer, exec, b))?;
                }
                Ok(pix(ID, ta::CancelInstruction { authority: s, store: w.k.store, executor: t.executors[exec], rent_receiver: t.officer, instruction: b, store_program: gmsol_store::ID }, ti::CancelInstruction {}))
            }),
            e("cancel_instructions", Auth::Role(TIMELOCK_ADMIN), |w, s, _a, r| {
                let mut t = prepare(w)?;
                let exec = r.below(2);
                let mut metas = ta::CancelInstructions { authority: s, store: w.k.store, executor: t.executors[exec], rent_receiver: t.officer, store_program: gmsol_store::ID }.to_account_metas(None);
                for _ in 0..1 + r.below(3) {
                    let d = data(r);
                    metas.push(AccountMeta::new(buffer(w, &mut t, exec, d)?, false));
                }
                Ok(Instruction { program_id: ID, accounts: metas, data: ti::CancelInstructions {}.data() })
            }),
            e("execute_instruction", Auth::Role(TIMELOCK_KEEPER), |w, s, _a, r| {
                // an approved buffer whose delay has passed
                let mut t = prepare(w)?;
                let delay = r.below(1000) as u32;
                configure(w, &t, delay)?;
                let exec = r.below(2);
                let d = data(r);
                let b = buffer(w, &mut t, exec, d)?;
                run_as(w, "approve_instruction", ix_approve(w, &t, t.officer, exec, b))?;
                advance(delay as i64 + r.below(100) as i64);
                Ok(ix_execute(w, &t, s, exec, b))
            }),
            // bypass instructions
            e("revoke_role", Auth::Role(TIMELOCKED_ADMIN), |w, s, _a, r| {
                // the ADMIN executor wallet must be the store authority: the store is handed to the timelock first
                let t = prepare(w)?;
                let role = [OK_, MK, GC, "C19_BYPASSABLE"][r.below(4)];
                let user = other("tl-revokee");
                grant_w1(w, user, role)?;
                configure(w, &t, r.below(1000) as u32)?;
                Ok(pix(ID, ta::RevokeRole { authority: s, store: w.k.store, executor: t.executors[0], wallet: t.wallets[0], user, store_program: gmsol_store::ID }, ti::RevokeRole { role: role.to_string() }))
            }),
            e("set_expected_price_provider", Auth::Role(TIMELOCKED_MARKET_KEEPER), |w, s, _a, r| {
                let t = prepare(w)?;
                Ok(pix(
                    ID,
                    ta::SetExpectedPriceProvider {
                        authority: s,
                        store: w.k.store,
                        token_map: w.k.token_map,
                        executor: t.executors[1],
                        wallet: t.wallets[1],
                        token: w.k.feeds[r.below(4)].0,
                        store_program: gmsol_store::ID,
                        system_program: system_program::ID,
                    },
                    ti::SetExpectedPriceProvider { new_expected_price_provider: [1u8, 3][r.below(2)] },
                ))
            }),
        ]
    }
}

fn timelock_table() -> Vec<Entry> {
    tl::table()
}
// ------------------------------------------------------------------------------------ treasury (vaults, GT bank, swaps)
mod tr {
    use super::*;
    use gmsol_treasury::accounts as ta;
    use gmsol_treasury::instruction as ti;
    use gmsol_treasury::roles::{TREASURY_ADMIN, TREASURY_KEEPER, TREASURY_WITHDRAWER};
    pub const ID: Pubkey = gmsol_treasury::ID;
    const SP: Pubkey = gmsol_store::ID;

    pub struct Tr {
        pub config: Pubkey,
        pub receiver: Pubkey,
        pub tvc: Pubkey,
        /// Holds TREASURY_ADMIN, TREASURY_KEEPER and TREASURY_WITHDRAWER.
        pub officer: Pubkey,
    }

    pub fn wallet_ata(owner: &Pubkey, mint: &Pubkey) -> Pubkey {
        spl_associated_token_account::get_associated_token_address(owner, mint)
    }

    /// The associated token account of `owner` (created with the real ATA program), plus `amount` minted to it.
    pub fn ata_with(w: &mut World1, owner: Pubkey, mint: Pubkey, amount: u64) -> Result<Pubkey, String> {
        let a = wallet_ata(&owner, &mint);
        if w.vm.get(&a).is_none() {
            run_as(w, "create ATA", spl_associated_token_account::instruction::create_associated_token_account(&w.k.admin, &owner, &mint, &spl_token::ID))?;
        }
        if amount > 0 {
            run_as(w, "mint_to", spl_token::instruction::mint_to(&spl_token::ID, &mint, &a, &w.k.admin, &[], amount).map_err(|e| e.to_string())?)?;
        }
        Ok(a)
    }

    /// Treasury roles and an officer, the store's receiver handed to the treasury, the config, an
    /// authorised treasury vault config.
    pub fn setup(w: &mut World1) -> Result<Tr, String> {
        let config = Pubkey::find_program_address(&[b"config", w.k.store.as_ref()], &ID).0;
        let receiver = Pubkey::find_program_address(&[b"receiver", config.as_ref()], &ID).0;
        let tvc = Pubkey::find_program_address(&[b"treasury_vault_config", config.as_ref(), &0u16.to_le_bytes()], &ID).0;
        let officer = fund(w, other("tr-officer"));
        for r in [TREASURY_ADMIN, TREASURY_KEEPER, TREASURY_WITHDRAWER] {
            grant_w1(w, officer, r)?;
        }
        run_as(w, "transfer_receiver", w.k.ix_transfer_receiver(w.k.receiver, receiver))?;
        run_as(w, "treasury initialize_config", pix(ID, ta::InitializeConfig { payer: w.k.admin, store: w.k.store, config, receiver, store_program: SP, system_program: system_program::ID }, ti::InitializeConfig {}))?;
        run_as(
            w,
            "initialize_treasury_vault_config",
            pix(ID, ta::InitializeTreasuryVaultConfig { authority: officer, store: w.k.store, config, treasury_vault_config: tvc, store_program: SP, system_program: system_program::ID }, ti::InitializeTreasuryVaultConfig { index: 0 }),
        )?;
        run_as(w, "set_treasury_vault_config", pix(ID, ta::SetTreasuryVaultConfig { authority: officer, store: w.k.store, config, treasury_vault_config: tvc, store_program: SP }, ti::SetTreasuryVaultConfig {}))?;
        Ok(Tr { config, receiver, tvc, officer })
    }

    pub fn add_token(w: &mut World1, t: &Tr, mint: Pubkey, deposit: bool, withdrawal: bool) -> Result<(), String> {
        run_as(
            w,
            "insert_token_to_treasury_vault",
            pix(ID, ta::InsertTokenToTreasuryVault { authority: t.officer, store: w.k.store, config: t.config, treasury_vault_config: t.tvc, token: mint, store_program: SP }, ti::InsertTokenToTreasuryVault {}),
        )?;
        for (flag, on) in [("allow_deposit", deposit), ("allow_withdrawal", withdrawal)] {
            if on {
                run_as(
                    w,
                    "toggle_token_flag",
                    pix(ID, ta::ToggleTokenFlag { authority: t.officer, store: w.k.store, config: t.config, treasury_vault_config: t.tvc, token: mint, store_program: SP }, ti::ToggleTokenFlag { flag: flag.to_string(), value: true }),
                )?;
            }
        }
        Ok(())
    }

    pub fn gt(w: &mut World1) -> Result<(), String> {
        if !w.store().gt().is_initialized() {
            let mk = w.k.role_key(MK);
            run_as(w, "initialize_gt", w.k.ix_initialize_gt(mk, 7, 100 * world1::USD / 10_000_000, 101 * world1::USD / 100, 1_000_000_000, vec![10, 100, 1000]))?;
        }
        Ok(())
    }

    /// The GT exchange vault of the current time window.
    pub fn exchange_vault(w: &mut World1) -> Result<(Pubkey, u32), String> {
        let window = w.store().gt().exchange_time_window();
        let idx = svm::sysvars().unix_timestamp / window as i64;
        run_as(w, "prepare_gt_exchange_vault", w.k.ix_prepare_gt_exchange_vault(w.k.admin, idx, window))?;
        Ok((w.k.gt_exchange_vault_pda(idx, window), window))
    }

    pub fn bank_of(t: &Tr, vault: &Pubkey) -> Pubkey {
        Pubkey::find_program_address(&[b"gt_bank", t.tvc.as_ref(), vault.as_ref()], &ID).0
    }

    pub fn ix_prepare_gt_bank(w: &World1, t: &Tr, authority: Pubkey, vault: Pubkey) -> Instruction {
        pix(
            ID,
            ta::PrepareGtBank { authority, store: w.k.store, config: t.config, treasury_vault_config: t.tvc, gt_exchange_vault: vault, gt_bank: bank_of(t, &vault), store_program: SP, system_program: system_program::ID },
            ti::PrepareGtBank {},
        )
    }

    pub fn ix_deposit(w: &World1, t: &Tr, authority: Pubkey, vault: Pubkey, mint: Pubkey) -> Instruction {
        let bank = bank_of(t, &vault);
        pix(
            ID,
            ta::DepositToTreasuryVault {
                authority,
                store: w.k.store,
                config: t.config,
                treasury_vault_config: t.tvc,
                receiver: t.receiver,
                gt_exchange_vault: vault,
                gt_bank: bank,
                token: mint,
                receiver_vault: wallet_ata(&t.receiver, &mint),
                treasury_vault: wallet_ata(&t.tvc, &mint),
                gt_bank_vault: wallet_ata(&bank, &mint),
                store_program: SP,
                token_program: spl_token::ID,
                associated_token_program: spl_associated_token_account::ID,
            },
            ti::DepositToTreasuryVault {},
        )
    }

    /// GT, the exchange vault, its bank, and `mint` as a depositable treasury token with `amount` waiting
    /// in the receiver's vault.
    pub fn deposit_setup(w: &mut World1, t: &Tr, mint: Pubkey, amount: u64, r: &mut Rng) -> Result<Pubkey, String> {
        gt(w)?;
        let (vault, _) = exchange_vault(w)?;
        run_as(w, "prepare_gt_bank", ix_prepare_gt_bank(w, t, t.officer, vault))?;
        add_token(w, t, mint, true, true)?;
        if r.bool() {
            let factor = (1 + r.below(1000) as u128) * world1::USD / 1000;
            run_as(w, "set_gt_factor", pix(ID, ta::UpdateConfig { authority: t.officer, store: w.k.store, config: t.config, store_program: SP }, ti::SetGtFactor { factor }))?;
        }
        ata_with(w, t.receiver, mint, amount)?;
        ata_with(w, t.tvc, mint, 0)?;
        ata_with(w, bank_of(t, &vault), mint, 0)?;
        Ok(vault)
    }

    fn a_mint(w: &World1, r: &mut Rng) -> (Pubkey, u8) {
        if r.bool() {
            (w.k.long_mint, world1::LONG_DECIMALS)
        } else {
            (w.k.short_mint, world1::SHORT_DECIMALS)
        }
    }

    /// Everything `confirm_gt_buyback` needs: a deposit in the bank, a GT exchange request, the config PDA
    /// as oracle and GT controller with its own oracle buffer, the next time window, fresh feed prices.
    /// Returns (vault, oracle, instruction for `authority`).
    pub fn buyback_setup(w: &mut World1, t: &Tr, requester: Pubkey, authority: Pubkey, r: &mut Rng) -> Result<(Pubkey, Instruction), String> {
        let mint = w.k.long_mint;
        let vault = deposit_setup(w, t, mint, 1_000_000 * (1 + r.below(1000) as u64), r)?;
        run_as(w, "deposit_to_treasury_vault", ix_deposit(w, t, t.officer, vault, mint))?;
        // a GT holder asks for an exchange in this window
        fund(w, requester);
        if w.user(&requester).is_none() {
            run_as(w, "prepare_user", w.k.ix_prepare_user(requester))?;
        }
        run_as(w, "mint_gt_reward", w.k.ix_mint_gt_reward(w.k.role_key(GC), requester, 1_000_000))?;
        run_as(w, "request_gt_exchange", w.k.ix_request_gt_exchange(requester, vault, 1 + r.below(1_000_000) as u64))?;
        // the treasury config PDA acts on the store as oracle controller and GT controller
        grant_w1(w, t.config, OC)?;
        grant_w1(w, t.config, GC)?;
        let oracle = other("tr-oracle");
        let space = 8 + std::mem::size_of::<gmsol_store::states::Oracle>();
        run_as(w, "create oracle", system_instruction::create_account(&w.k.admin, &oracle, world1::rent(space), space as u64, &SP))?;
        run_as(w, "initialize_oracle", w.k.ix_initialize_oracle(w.k.admin, t.config, oracle))?;
        // next window, fresh prices
        let window = w.store().gt().exchange_time_window();
        advance(window as i64 + 1);
        let now = svm::sysvars().unix_timestamp;
        let feed = w.k.feeds[0];
        let p = 150u128 * 100_000_000;
        world1::set_feed_price(&mut w.vm, &feed.2, now, p, p - p / 1000, p + p / 1000)?;
        let mut ix = pix(
            ID,
            ta::ConfirmGtBuyback {
                authority,
                store: w.k.store,
                config: t.config,
                treasury_vault_config: t.tvc,
                gt_exchange_vault: vault,
                gt_bank: bank_of(t, &vault),
                token_map: w.k.token_map,
                oracle,
                event_authority: w.k.event_authority,
                store_program: SP,
                chainlink_program: None,
            },
            ti::ConfirmGtBuyback {},
        );
        // feeds of the token set, the treasury's mints, the treasury's vaults
        ix.accounts.push(AccountMeta::new_readonly(feed.2, false));
        ix.accounts.push(AccountMeta::new_readonly(mint, false));
        ix.accounts.push(AccountMeta::new_readonly(wallet_ata(&t.tvc, &mint), false));
        Ok((vault, ix))
    }

    struct Swap {
        order: Pubkey,
        user: Pubkey,
        nonce: [u8; 32],
        amount: u64,
    }

    /// Treasury tokens and funds for a swap long -> short by the receiver through market 0.
    fn swap_setup(w: &mut World1, t: &Tr, r: &mut Rng) -> Result<Swap, String> {
        let (lm, sm) = (w.k.long_mint, w.k.short_mint);
        add_token(w, t, sm, true, false)?;
        fund(w, t.receiver);
        let amount = 1_000_000 * (1 + r.below(1000) as u64);
        ata_with(w, t.receiver, lm, amount * 2)?;
        ata_with(w, t.receiver, sm, 0)?;
        let mut nonce = [0u8; 32];
        nonce[..8].copy_from_slice(&r.next().to_le_bytes());
        let order = world1::pda(&[b"order", w.k.store.as_ref(), t.receiver.as_ref(), &nonce]);
        for mint in [lm, sm] {
            run_as(w, "escrow", w.k.ix_prepare_associated_token_account(w.k.admin, order, mint))?;
        }
        Ok(Swap { order, user: w.k.user_pda(&t.receiver), nonce, amount })
    }

    fn ix_create_swap(w: &World1, t: &Tr, sw: &Swap, authority: Pubkey) -> Instruction {
        let (lm, sm) = (w.k.long_mint, w.k.short_mint);
        let mut ix = pix(
            ID,
            ta::CreateSwapV2 {
                authority,
                store: w.k.store,
                config: t.config,
                treasury_vault_config: t.tvc,
                swap_in_token: lm,
                swap_out_token: sm,
                swap_in_token_receiver_vault: wallet_ata(&t.receiver, &lm),
                market: w.k.markets[0].market,
                receiver: t.receiver,
                user: sw.user,
                swap_in_token_escrow: wallet_ata(&sw.order, &lm),
                swap_out_token_escrow: wallet_ata(&sw.order, &sm),
                order: sw.order,
                event_authority: w.k.event_authority,
                store_program: SP,
                token_program: spl_token::ID,
                associated_token_program: spl_associated_token_account::ID,
                system_program: system_program::ID,
                callback_authority: None,
                callback_program: None,
                callback_shared_data_account: None,
                callback_partitioned_data_account: None,
            },
            ti::CreateSwapV2 { nonce: sw.nonce, swap_path_length: 1, swap_in_amount: sw.amount, min_swap_out_amount: None, callback_version: None },
        );
        ix.accounts.push(AccountMeta::new_readonly(w.k.markets[0].market, false));
        ix
    }

    pub fn table() -> Vec<Entry> {
        let e = |name, auth, build| Entry { program: "treasury", name, auth, expect: Expect::Ok, build };
        vec![
            e("prepare_gt_bank", Auth::Role(TREASURY_KEEPER), |w, s, _a, _r| {
                let t = setup(w)?;
                gt(w)?;
                let (vault, _) = exchange_vault(w)?;
                Ok(ix_prepare_gt_bank(w, &t, s, vault))
            }),
            e("deposit_to_treasury_vault", Auth::Role(TREASURY_KEEPER), |w, s, _a, r| {
                let t = setup(w)?;
                let (mint, _) = a_mint(w, r);
                let vault = deposit_setup(w, &t, mint, r.next() % 1_000_000_000_000, r)?;
                Ok(ix_deposit(w, &t, s, vault, mint))
            }),
            e("withdraw_from_treasury_vault", Auth::Role(TREASURY_WITHDRAWER), |w, s, _a, r| {
                let t = setup(w)?;
                let (mint, decimals) = a_mint(w, r);
                add_token(w, &t, mint, r.bool(), true)?;
                let held = 1 + r.next() % 1_000_000_000_000;
                let treasury_vault = ata_with(w, t.tvc, mint, held)?;
                let target = other("tr-target");
                world1::create_token_account(&mut w.vm, w.k.admin, target, mint, s, w.k.admin, 0).map_err(|e| format!("c19y prep: target account {e:?}"))?;
                Ok(pix(
                    ID,
                    ta::WithdrawFromTreasuryVault { authority: s, store: w.k.store, config: t.config, treasury_vault_config: t.tvc, token: mint, treasury_vault, target, store_program: SP, token_program: spl_token::ID },
                    ti::WithdrawFromTreasuryVault { amount: 1 + r.next() % held, decimals },
                ))
            }),
            e("sync_gt_bank_v2", Auth::Role(TREASURY_WITHDRAWER), |w, s, _a, r| {
                // tokens sent straight to the bank's vault are swept into the treasury vault
                let t = setup(w)?;
                let (mint, _) = a_mint(w, r);
                let vault = deposit_setup(w, &t, mint, 0, r)?;
                let bank = bank_of(&t, &vault);
                ata_with(w, bank, mint, 1 + r.next() % 1_000_000_000)?;
                Ok(pix(
                    ID,
                    ta::SyncGtBank {
                        authority: s,
                        store: w.k.store,
                        config: t.config,
                        treasury_vault_config: t.tvc,
                        gt_bank: bank,
                        token: mint,
                        treasury_vault: wallet_ata(&t.tvc, &mint),
                        gt_bank_vault: wallet_ata(&bank, &mint),
                        store_program: SP,
                        token_program: spl_token::ID,
                        associated_token_program: spl_associated_token_account::ID,
                    },
                    ti::SyncGtBankV2 {},
                ))
            }),
            e("set_referral_reward", Auth::Role(TREASURY_ADMIN), |w, s, _a, r| {
                let t = setup(w)?;
                gt(w)?;
                grant_w1(w, t.config, GC)?;
                let mut f = vec![r.below(1001), r.below(1001), r.below(1001), r.below(1001)];
                f.sort();
                Ok(pix(ID, ta::SetReferralReward { authority: s, store: w.k.store, config: t.config, store_program: SP }, ti::SetReferralReward { factors: f.into_iter().map(|x| x as u128 * world1::USD / 1000).collect() }))
            }),
            e("claim_fees", Auth::Role(TREASURY_KEEPER), |w, s, _a, r| {
                let t = setup(w)?;
                let (mint, _) = a_mint(w, r);
                Ok(pix(
                    ID,
                    ta::ClaimFees {
                        authority: s,
                        store: w.k.store,
                        config: t.config,
                        receiver: t.receiver,
                        market: w.k.markets[r.below(2)].market,
                        token: mint,
                        vault: w.k.market_vault_pda(&mint),
                        receiver_vault: wallet_ata(&t.receiver, &mint),
                        event_authority: w.k.event_authority,
                        store_program: SP,
                        token_program: spl_token::ID,
                        associated_token_program: spl_associated_token_account::ID,
                        system_program: system_program::ID,
                    },
                    ti::ClaimFees { min_amount: 0 },
                ))
            }),
            e("confirm_gt_buyback", Auth::Role(TREASURY_KEEPER), |w, s, _a, r| {
                let t = setup(w)?;
                Ok(buyback_setup(w, &t, other("tr-gt-holder"), s, r)?.1)
            }),
            // no attribute: "owner" signs and must own the exchange (checked by the store's `close_gt_exchange`)
            e("complete_gt_exchange", Auth::Key(vec![codes::CONSTRAINT_HAS_ONE, codes::CONSTRAINT_SEEDS]), |w, s, a, r| {
                let t = setup(w)?;
                let requester = if a { s } else { other("tr-gt-holder") };
                let (vault, confirm) = buyback_setup(w, &t, requester, t.officer, r)?;
                run_as(w, "confirm_gt_buyback", confirm)?;
                let bank = bank_of(&t, &vault);
                let mint = w.k.long_mint;
                let target = ata_with(w, s, mint, 0)?;
                let mut ix = pix(
                    ID,
                    ta::CompleteGtExchange {
                        owner: s,
                        store: w.k.store,
                        config: t.config,
                        treasury_vault_config: t.tvc,
                        gt_exchange_vault: vault,
                        gt_bank: bank,
                        exchange: w.k.gt_exchange_pda(&vault, &requester),
                        store_program: SP,
                        token_program: spl_token::ID,
                        token_2022_program: spl_token_2022::ID,
                    },
                    ti::CompleteGtExchange {},
                );
                ix.accounts[0].is_writable = true;
                ix.accounts.push(AccountMeta::new_readonly(mint, false));
                ix.accounts.push(AccountMeta::new(wallet_ata(&bank, &mint), false));
                ix.accounts.push(AccountMeta::new(target, false));
                Ok(ix)
            }),
            e("create_swap_v2", Auth::Role(TREASURY_KEEPER), |w, s, _a, r| {
                let t = setup(w)?;
                let sw = swap_setup(w, &t, r)?;
                Ok(ix_create_swap(w, &t, &sw, s))
            }),
            e("cancel_swap", Auth::Role(TREASURY_KEEPER), |w, s, _a, r| {
                let t = setup(w)?;
                let sw = swap_setup(w, &t, r)?;
                run_as(w, "create_swap_v2", ix_create_swap(w, &t, &sw, t.officer))?;
                let (lm, sm) = (w.k.long_mint, w.k.short_mint);
                Ok(pix(
                    ID,
                    ta::CancelSwap {
                        authority: s,
                        store: w.k.store,
                        store_wallet: w.k.store_wallet,
                        config: t.config,
                        receiver: t.receiver,
                        user: sw.user,
                        swap_in_token: lm,
                        swap_out_token: sm,
                        swap_in_token_receiver_vault: wallet_ata(&t.receiver, &lm),
                        swap_out_token_receiver_vault: wallet_ata(&t.receiver, &sm),
                        swap_in_token_escrow: wallet_ata(&sw.order, &lm),
                        swap_out_token_escrow: wallet_ata(&sw.order, &sm),
                        order: sw.order,
                        event_authority: w.k.event_authority,
                        store_program: SP,
                        token_program: spl_token::ID,
                        associated_token_program: spl_associated_token_account::ID,
                        system_program: system_program::ID,
                    },
                    ti::CancelSwap {},
                ))
            }),
        ]
    }
}

fn treasury_table() -> Vec<Entry> {
    tr::table()
}
// ------------------------------------------------------------------------------------ liquidity provider (staking)
mod lps {
    use super::*;
    use gmsol_liquidity_provider::accounts as la;
    use gmsol_liquidity_provider::instruction as li;
    use gmsol_liquidity_provider::{GLOBAL_STATE_SEED, LP_TOKEN_CONTROLLER_SEED, POSITION_SEED, VAULT_SEED};
    pub const ID: Pubkey = gmsol_liquidity_provider::ID;

    pub struct Lp {
        pub gs: Pubkey,
        pub controller: Pubkey,
        pub oracle: Pubkey,
        pub mint: Pubkey,
        /// Market whose token is staked (GM), or the GLV.
        pub market: usize,
        pub glv: Option<GlvInfo>,
        pub authority: Pubkey,
    }

    pub fn position_of(lp: &Lp, owner: &Pubkey, id: u64) -> (Pubkey, Pubkey) {
        let position = Pubkey::find_program_address(&[POSITION_SEED, lp.controller.as_ref(), owner.as_ref(), &id.to_le_bytes()], &ID).0;
        let vault = Pubkey::find_program_address(&[VAULT_SEED, position.as_ref()], &ID).0;
        (position, vault)
    }

    /// GT, the staking program's global state (authority = `authority`, GT_CONTROLLER of the store, owner of
    /// its own oracle buffer) and a controller for the token of market `m` or of a GLV over markets 0 and 2.
    pub fn setup(cx: &mut Cx, authority: Pubkey, m: usize, glv: bool) -> Result<Lp, String> {
        let (keeper, store) = (cx.x.keeper, cx.x.store);
        cx.run(
            "initialize_gt",
            w2::ix(sa::InitializeGt { authority: keeper, store, system_program: system_program::ID }, si::InitializeGt { decimals: 7, initial_minting_cost: 100 * w2::USD / 10_000_000, grow_factor: 101 * w2::USD / 100, grow_step: 1_000_000_000, ranks: vec![10, 100, 1000] }, vec![]),
        )?;
        if cx.x.vm.get(&authority).is_none() {
            cx.x.vm.fund(authority, 1_000_000_000_000);
        }
        let gs = Pubkey::find_program_address(&[GLOBAL_STATE_SEED], &ID).0;
        cx.run("lp initialize", pix(ID, la::Initialize { global_state: gs, authority, system_program: system_program::ID }, li::Initialize { min_stake_value: 1000, initial_apy: 1_000_000_000_000_000_000 }))?;
        cx.grant(gs, GC)?;
        let g = if glv { Some(cx.glv()?) } else { None };
        let mint = g.as_ref().map(|g| g.glv_token).unwrap_or(cx.x.markets[m].token);
        let controller = Pubkey::find_program_address(&[LP_TOKEN_CONTROLLER_SEED, gs.as_ref(), mint.as_ref(), &0u64.to_le_bytes()], &ID).0;
        cx.run(
            "create_lp_token_controller",
            pix(ID, la::CreateLpTokenController { global_state: gs, controller, authority, system_program: system_program::ID }, li::CreateLpTokenController { lp_token_mint: mint, controller_index: 0 }),
        )?;
        let oracle = new_oracle(cx, gs)?;
        Ok(Lp { gs, controller, oracle, mint, market: m, glv: g, authority })
    }

    /// Give `who` tokens to stake: market tokens, or GLV tokens through a real GLV deposit.
    pub fn stakeable(cx: &mut Cx, lp: &Lp, who: Pubkey, amount: u64) -> Result<u64, String> {
        cx.give_market_tokens(who, lp.market, amount)?;
        match &lp.glv {
            None => Ok(amount),
            Some(g) => {
                cx.glv_deposit(g, who, lp.market, amount)?;
                Ok(w2::token_amount(&cx.x.vm, &ata2022(&who, &g.glv_token)))
            }
        }
    }

    pub fn ix_stake(x: &X, lp: &Lp, owner: Pubkey, id: u64, amount: u64) -> Instruction {
        let (position, position_vault) = position_of(lp, &owner, id);
        match &lp.glv {
            None => {
                let mut ix = pix(
                    ID,
                    la::StakeGm {
                        global_state: lp.gs,
                        controller: lp.controller,
                        lp_mint: lp.mint,
                        position,
                        position_vault,
                        gt_store: x.store,
                        gt_program: gmsol_store::ID,
                        owner,
                        user_lp_token: ata(&owner, &lp.mint),
                        token_map: x.token_map,
                        oracle: lp.oracle,
                        market: x.markets[lp.market].market,
                        event_authority: x.event_authority,
                        system_program: system_program::ID,
                        token_program: spl_token::ID,
                    },
                    li::StakeGm { position_id: id, gm_staked_amount: amount },
                );
                ix.accounts.extend(feeds_of(x, lp.market));
                ix
            }
            Some(g) => {
                let mut ix = pix(
                    ID,
                    la::StakeGlv {
                        global_state: lp.gs,
                        controller: lp.controller,
                        lp_mint: lp.mint,
                        position,
                        position_vault,
                        gt_store: x.store,
                        gt_program: gmsol_store::ID,
                        owner,
                        user_lp_token: ata2022(&owner, &lp.mint),
                        token_map: x.token_map,
                        oracle: lp.oracle,
                        glv: g.glv,
                        event_authority: x.event_authority,
                        system_program: system_program::ID,
                        token_program: spl_token_2022::ID,
                    },
                    li::StakeGlv { position_id: id, glv_staked_amount: amount },
                );
                ix.accounts.extend(glv_remaining(x, g));
                ix
            }
        }
    }

    fn user_token(lp: &Lp, owner: &Pubkey) -> Pubkey {
        if lp.glv.is_some() {
            ata2022(owner, &lp.mint)
        } else {
            ata(owner, &lp.mint)
        }
    }

    /// A staked position of `owner`, some time ago.
    fn staked(cx: &mut Cx, lp: &Lp, owner: Pubkey, id: u64, r: &mut Rng) -> Result<u64, String> {
        cx.trader(owner)?;
        let amount = stakeable(cx, lp, owner, MT_UNITS * (1 + r.below(20) as u64))?;
        cx.tick()?;
        let i = ix_stake(&cx.x, lp, owner, id, amount);
        cx.run("stake", i)?;
        cx.x.advance(1 + r.below(100_000) as i64);
        Ok(amount)
    }

    fn stake_build(w: &mut World1, s: Pubkey, a: bool, r: &mut Rng, glv: bool) -> Result<Instruction, String> {
        // the signer stakes its own tokens; somebody else's token account is refused (`user_lp_token.owner == owner`)
        let mut cx = Cx::enter(w, s, &[])?;
        let lp = setup(&mut cx, other("lp-authority"), [0usize, 2][r.below(2)], glv)?;
        let victim = cx.x.user(r.below(2));
        cx.trader(s)?;
        let amount = stakeable(&mut cx, &lp, s, MT_UNITS * (1 + r.below(20) as u64))?;
        stakeable(&mut cx, &lp, victim, MT_UNITS * 30)?;
        cx.tick()?;
        let mut ix = ix_stake(&cx.x, &lp, s, r.below(5) as u64, 1 + r.next() % amount);
        if !a {
            swap_key(&mut ix, user_token(&lp, &s), user_token(&lp, &victim));
        }
        cx.done(ix)
    }

    pub fn table() -> Vec<Entry> {
        let e = |name, auth, build| Entry { program: "liquidity-provider", name, auth, expect: Expect::Ok, build };
        let owner_only = || Auth::Key(vec![codes::CONSTRAINT_HAS_ONE, codes::CONSTRAINT_SEEDS]);
        vec![
            e("stake_gm", Auth::Key(vec![codes::CONSTRAINT_RAW]), |w, s, a, r| stake_build(w, s, a, r, false)),
            e("stake_glv", Auth::Key(vec![codes::CONSTRAINT_RAW]), |w, s, a, r| stake_build(w, s, a, r, true)),
            // a pure computation on anybody's position: no signer is named at all
            e("calculate_gt_reward", Auth::Permissionless, |w, s, _a, r| {
                let mut cx = Cx::enter(w, s, &[])?;
                let lp = setup(&mut cx, other("lp-authority"), [0usize, 2][r.below(2)], r.bool())?;
                let owner = cx.x.user(r.below(2));
                let id = r.below(5) as u64;
                staked(&mut cx, &lp, owner, id, r)?;
                let mut ix = pix(
                    ID,
                    la::CalculateGtReward { global_state: lp.gs, controller: lp.controller, gt_store: cx.x.store, gt_program: gmsol_store::ID, position: position_of(&lp, &owner, id).0, owner },
                    li::CalculateGtReward {},
                );
                // the accounts struct declares `#[instruction(position_id: u64)]` although the handler takes no
                // argument: the id has to follow the (empty) argument list by hand
                ix.data.extend_from_slice(&id.to_le_bytes());
                ix.accounts.push(AccountMeta::new(s, true));
                cx.done(ix)
            }),
            // "position … has_one = owner": only the staker claims
            e("claim_gt", owner_only(), |w, s, a, r| {
                let mut cx = Cx::enter(w, s, &[])?;
                let authority = other("lp-authority");
                let lp = setup(&mut cx, authority, [0usize, 2][r.below(2)], r.bool())?;
                cx.run("set_claim_enabled", pix(ID, la::SetClaimEnabled { global_state: lp.gs, authority }, li::SetClaimEnabled { enabled: true }))?;
                cx.trader(s)?;
                let owner = if a { s } else { cx.x.user(r.below(2)) };
                let id = r.below(5) as u64;
                staked(&mut cx, &lp, owner, id, r)?;
                let ix = pix(
                    ID,
                    la::ClaimGt {
                        global_state: lp.gs,
                        controller: lp.controller,
                        store: cx.x.store,
                        gt_program: gmsol_store::ID,
                        position: position_of(&lp, &owner, id).0,
                        owner: s,
                        gt_user: cx.x.user_account(&s),
                        event_authority: cx.x.event_authority,
                    },
                    li::ClaimGt { _position_id: id },
                );
                cx.done(ix)
            }),
            e("unstake_lp", owner_only(), |w, s, a, r| {
                let mut cx = Cx::enter(w, s, &[])?;
                let lp = setup(&mut cx, other("lp-authority"), [0usize, 2][r.below(2)], r.bool())?;
                cx.trader(s)?;
                let owner = if a { s } else { cx.x.user(r.below(2)) };
                let id = r.below(5) as u64;
                let amount = staked(&mut cx, &lp, owner, id, r)?;
                if !a {
                    // the signer has a token account of its own to receive the tokens
                    stakeable(&mut cx, &lp, s, MT_UNITS)?;
                }
                let (position, position_vault) = position_of(&lp, &owner, id);
                let ix = pix(
                    ID,
                    la::UnstakeLp {
                        global_state: lp.gs,
                        controller: lp.controller,
                        lp_mint: lp.mint,
                        store: cx.x.store,
                        gt_program: gmsol_store::ID,
                        position,
                        position_vault,
                        owner: s,
                        gt_user: cx.x.user_account(&s),
                        user_lp_token: user_token(&lp, &s),
                        event_authority: cx.x.event_authority,
                        token_program: if lp.glv.is_some() { spl_token_2022::ID } else { spl_token::ID },
                    },
                    li::UnstakeLp { _position_id: id, unstake_amount: amount },
                );
                cx.done(ix)
            }),
            // `has_one = authority` on the global state
            e("disable_lp_token_controller", Auth::Key(vec![codes::CONSTRAINT_HAS_ONE]), |w, s, a, r| {
                let mut cx = Cx::enter(w, s, &[])?;
                let authority = if a { s } else { other("lp-authority") };
                let lp = setup(&mut cx, authority, [0usize, 2][r.below(2)], r.bool())?;
                let ix = pix(ID, la::DisableLpTokenController { global_state: lp.gs, controller: lp.controller, gt_store: cx.x.store, gt_program: gmsol_store::ID, authority: s }, li::DisableLpTokenController {});
                cx.done(ix)
            }),
        ]
    }
}

fn lp_table() -> Vec<Entry> {
    lps::table()
}

