//! C33 Referral relationships are write-once and never self-referential (real instructions, svm-lite W1).

use crate::engine::{pick, Ctx, Rec};
use crate::svm;
use crate::world1::World1;
use anchor_lang::solana_program::pubkey::Pubkey;
use gmsol_programs::gmsol_store::accounts::{ReferralCodeV2, UserHeader};
use proptest::prelude::*;
use serde::{Deserialize, Serialize};
use std::collections::BTreeMap;

const USERS: usize = 4;
/// Code universe: index 0 is the all-zero (invalid) code.
const CODES: usize = 5;

#[derive(Debug, Clone, Serialize, Deserialize)]
pub enum Op {
    /// `prepare_user` signed by `signer` for the user account of `account_of`.
    Prepare { signer: u8, account_of: u8 },
    /// `smart`: a prepared user without a code and an unused code are taken from the model.
    InitCode { signer: u8, account_of: u8, code: u8, smart: bool },
    /// `smart`: the (user, referrer) pair is drawn from the model according to `mode`
    /// (0 = acceptable pair, 1 = mutual attempt, 2 = self referral, 3 = second referrer) and the code is the
    /// referrer's current code; falls back to the raw indices when the model has no such pair.
    SetReferrer { signer: u8, account_of: u8, referrer: u8, code: u8, smart: bool, mode: u8 },
    Transfer { signer: u8, account_of: u8, code: u8, receiver: u8, smart: bool },
    Cancel { signer: u8, account_of: u8, code: u8, smart: bool },
    /// `smart`: current owner account and code derive from a pending transfer to `signer` if any.
    Accept { signer: u8, current: u8, code: u8, receiver: u8, smart: bool },
}

#[derive(Debug, Clone, Serialize, Deserialize)]
pub struct Case {
    /// Users prepared before the history starts (bitmask).
    pub prepared: u8,
    pub ops: Vec<Op>,
}

fn user() -> impl Strategy<Value = u8> {
    0u8..USERS as u8
}

/// (signer, account_of): mostly the same user.
fn own() -> impl Strategy<Value = (u8, u8)> {
    prop_oneof![7 => user().prop_map(|u| (u, u)), 1 => (user(), user())]
}

fn op() -> impl Strategy<Value = Op> {
    let smart = || prop_oneof![4 => Just(true), 1 => Just(false)];
    prop_oneof![
        2 => own().prop_map(|(signer, account_of)| Op::Prepare { signer, account_of }),
        4 => (own(), 0u8..CODES as u8, smart()).prop_map(|((signer, account_of), code, smart)| Op::InitCode { signer, account_of, code, smart }),
        7 => (own(), user(), 0u8..CODES as u8, smart(), prop_oneof![5 => Just(0u8), 3 => Just(1u8), 1 => Just(2u8), 1 => Just(3u8)]).prop_map(|((signer, account_of), referrer, code, smart, mode)| Op::SetReferrer { signer, account_of, referrer, code, smart, mode }),
        4 => (own(), 0u8..CODES as u8, user(), smart()).prop_map(|((signer, account_of), code, receiver, smart)| Op::Transfer { signer, account_of, code, receiver, smart }),
        2 => (own(), 0u8..CODES as u8, smart()).prop_map(|((signer, account_of), code, smart)| Op::Cancel { signer, account_of, code, smart }),
        4 => (own(), user(), 0u8..CODES as u8, smart()).prop_map(|((signer, receiver), current, code, smart)| Op::Accept { signer, current, code, receiver, smart }),
    ]
}

fn case() -> impl Strategy<Value = Case> {
    (prop_oneof![3 => Just(0x0fu8), 1 => 0u8..16], proptest::collection::vec(op(), 1..24)).prop_map(|(prepared, ops)| Case { prepared, ops })
}

#[derive(Debug, Clone, Copy, PartialEq, Eq)]
struct CodeState {
    owner: usize,
    next_owner: usize,
}

#[derive(Debug, Clone, Default)]
struct Model {
    prepared: [bool; USERS],
    referrer: [Option<usize>; USERS],
    code_of: [Option<usize>; USERS],
    referees: [u128; USERS],
    codes: BTreeMap<usize, CodeState>,
}

fn code_bytes(i: usize) -> [u8; 8] {
    if i == 0 {
        [0; 8]
    } else {
        let mut b = *b"c33code\0";
        b[7] = b'0' + i as u8;
        b
    }
}

fn check(c: &Case, rec: &mut Rec) -> Result<(), String> {
    #![allow(unused_assignments)]
    let mut w = World1::fresh()?;
    let owners: Vec<Pubkey> = (0..USERS).map(|i| svm::key_of(&format!("c33-user-{i}"))).collect();
    for o in &owners {
        w.vm.fund(*o, 1_000_000_000_000);
    }
    let mut m = Model::default();
    for (i, o) in owners.iter().enumerate() {
        if c.prepared & (1 << i) != 0 {
            w.process(&w.k.ix_prepare_user(*o)).map_err(|e| format!("setup prepare_user failed: {e:?}"))?;
            m.prepared[i] = true;
        }
    }
    let zero = Pubkey::default();
    let mut mutual_attempts = 0;
    let mut wrong_accepts = 0;
    let mut accepted = 0;

    for (n, op) in c.ops.iter().enumerate() {
        let before = w.vm.accounts.clone();
        let prev = m.clone();
        let mut accept_signer: Option<usize> = None;
        // (instruction, expected to succeed?, description)
        let (ix, expect_ok, what) = match op {
            Op::Prepare { signer, account_of } => {
                let (s, a) = (*signer as usize, *account_of as usize);
                let mut ix = w.k.ix_prepare_user(owners[s]);
                ix.accounts[2].pubkey = w.k.user_pda(&owners[a]);
                let ok = s == a;
                if ok {
                    m.prepared[a] = true;
                }
                (ix, ok, format!("prepare_user(signer {s}, account of {a})"))
            }
            Op::InitCode { signer, account_of, code, smart } => {
                let (mut s, mut a, mut cd) = (*signer as usize, *account_of as usize, *code as usize);
                if *smart {
                    let free_users: Vec<usize> = (0..USERS).filter(|u| m.prepared[*u] && m.code_of[*u].is_none()).collect();
                    let free_codes: Vec<usize> = (1..CODES).filter(|c| !m.codes.contains_key(c)).collect();
                    if !free_users.is_empty() && !free_codes.is_empty() {
                        a = free_users[a % free_users.len()];
                        s = a;
                        cd = free_codes[cd % free_codes.len()];
                    }
                }
                let mut ix = w.k.ix_initialize_referral_code(owners[s], code_bytes(cd));
                ix.accounts[3].pubkey = w.k.user_pda(&owners[a]);
                let ok = s == a && m.prepared[a] && cd != 0 && !m.codes.contains_key(&cd) && m.code_of[a].is_none();
                if ok {
                    m.codes.insert(cd, CodeState { owner: a, next_owner: a });
                    m.code_of[a] = Some(cd);
                }
                rec.class_if(s == a && m.prepared[a] && cd != 0 && prev.code_of[a].is_some() && !prev.codes.contains_key(&cd), "second_code_attempt");
                (ix, ok, format!("initialize_referral_code(signer {s}, account of {a}, code {cd})"))
            }
            Op::SetReferrer { signer, account_of, referrer, code, smart, mode } => {
                let (mut s, mut a, mut r) = (*signer as usize, *account_of as usize, *referrer as usize);
                if *smart {
                    let mut pairs: Vec<(usize, usize)> = vec![];
                    for x in 0..USERS {
                        for y in 0..USERS {
                            if !m.prepared[x] || m.code_of[y].is_none() {
                                continue;
                            }
                            let hit = match mode {
                                0 => x != y && m.referrer[x].is_none() && m.referrer[y] != Some(x),
                                1 => x != y && m.referrer[y] == Some(x),
                                2 => x == y,
                                _ => x != y && m.referrer[x].is_some() && m.referrer[y] != Some(x),
                            };
                            if hit {
                                pairs.push((x, y));
                            }
                        }
                    }
                    if !pairs.is_empty() {
                        (a, r) = pairs[(a * USERS + r) % pairs.len()];
                        s = a;
                    }
                }
                let cd = if *smart { m.code_of[r].unwrap_or(*code as usize) } else { *code as usize };
                let mut ix = w.k.ix_set_referrer(owners[s], code_bytes(cd), owners[r]);
                ix.accounts[2].pubkey = w.k.user_pda(&owners[a]);
                let code_ok = m.codes.get(&cd).map(|c| c.owner == r).unwrap_or(false) && m.code_of[r] == Some(cd);
                let is_self = r == a;
                let mutual = m.referrer[r] == Some(a);
                let twice = m.referrer[a].is_some();
                let base = s == a && m.prepared[a] && m.prepared[r] && code_ok;
                let ok = base && !is_self && !mutual && !twice;
                if base && mutual && !is_self {
                    mutual_attempts += 1;
                    rec.class("mutual_attempt");
                }
                rec.class_if(base && is_self, "self_attempt");
                rec.class_if(base && twice && !is_self && !mutual, "second_referrer_attempt");
                if ok {
                    m.referrer[a] = Some(r);
                    m.referees[r] += 1;
                    rec.class("referrer_set");
                }
                (ix, ok, format!("set_referrer(signer {s}, account of {a}, code {cd}, referrer account of {r})"))
            }
            Op::Transfer { signer, account_of, code, receiver, smart } => {
                let (mut s, mut a, mut r) = (*signer as usize, *account_of as usize, *receiver as usize);
                if *smart {
                    let holders: Vec<usize> = (0..USERS).filter(|u| m.code_of[*u].is_some()).collect();
                    if !holders.is_empty() {
                        a = holders[a % holders.len()];
                        s = a;
                        let free: Vec<usize> = (0..USERS).filter(|u| *u != a && m.prepared[*u] && m.code_of[*u].is_none()).collect();
                        if !free.is_empty() && *code % 4 != 0 {
                            r = free[r % free.len()];
                        }
                    }
                }
                let cd = if *smart { m.code_of[a].unwrap_or(*code as usize) } else { *code as usize };
                let mut ix = w.k.ix_transfer_referral_code(owners[s], owners[a], code_bytes(cd), owners[r]);
                ix.accounts[0].pubkey = owners[s];
                let owns = m.codes.get(&cd).map(|c| c.owner == a).unwrap_or(false);
                let ok = s == a && m.prepared[a] && owns && r != a && m.prepared[r] && m.code_of[r].is_none() && m.codes[&cd].next_owner != r;
                if ok {
                    m.codes.get_mut(&cd).unwrap().next_owner = r;
                    rec.class("transfer_started");
                }
                rec.class_if(s != a && owns, "transfer_by_non_owner");
                (ix, ok, format!("transfer_referral_code(signer {s}, account of {a}, code {cd}, receiver {r})"))
            }
            Op::Cancel { signer, account_of, code, smart } => {
                let (mut s, mut a) = (*signer as usize, *account_of as usize);
                if *smart {
                    let pending: Vec<usize> = m.codes.values().filter(|st| st.next_owner != st.owner).map(|st| st.owner).collect();
                    if !pending.is_empty() {
                        a = pending[a % pending.len()];
                        s = a;
                    }
                }
                let cd = if *smart { m.code_of[a].unwrap_or(*code as usize) } else { *code as usize };
                let ix = w.k.ix_cancel_referral_code_transfer(owners[s], owners[a], code_bytes(cd));
                let owns = m.codes.get(&cd).map(|c| c.owner == a).unwrap_or(false);
                let ok = s == a && m.prepared[a] && owns && m.codes[&cd].next_owner != a;
                if ok {
                    m.codes.get_mut(&cd).unwrap().next_owner = a;
                    rec.class("transfer_cancelled");
                }
                (ix, ok, format!("cancel_referral_code_transfer(signer {s}, account of {a}, code {cd})"))
            }
            Op::Accept { signer, current, code, receiver, smart } => {
                let (mut s, mut r) = (*signer as usize, *receiver as usize);
                if *smart && *code % 4 != 0 {
                    // let the proposed owner of some pending transfer sign
                    let proposed: Vec<usize> = m.codes.values().filter(|st| st.next_owner != st.owner).map(|st| st.next_owner).collect();
                    if !proposed.is_empty() {
                        s = proposed[s % proposed.len()];
                        r = s;
                    }
                }
                let pending = m.codes.iter().find(|(_, st)| st.next_owner == s && st.owner != s).map(|(c, st)| (*c, st.owner));
                let (cd, a) = match (smart, pending) {
                    (true, Some((c, o))) => (c, o),
                    _ => {
                        let cd = *code as usize;
                        // the accounts struct derives the `user` account from the code's owner; for a random
                        // pick use the code's real owner half of the time so that validation is reached
                        let a = if *smart { m.codes.get(&cd).map(|st| st.owner).unwrap_or(*current as usize) } else { *current as usize };
                        (cd, a)
                    }
                };
                accept_signer = Some(s);
                let ix = w.k.ix_accept_referral_code(owners[s], owners[a], code_bytes(cd), owners[r]);
                let owns = m.codes.get(&cd).map(|c| c.owner == a).unwrap_or(false);
                let ok = owns && m.prepared[a] && m.prepared[r] && r == s && r != a && m.code_of[r].is_none() && m.codes[&cd].next_owner == r;
                if owns && m.prepared[r] && r == s && r != a && m.codes[&cd].next_owner != r {
                    wrong_accepts += 1;
                    rec.class("accept_by_non_recipient");
                }
                rec.class_if(owns && r != s && m.codes[&cd].next_owner == r, "accept_signed_by_third_party");
                if ok {
                    m.codes.get_mut(&cd).unwrap().owner = r;
                    m.code_of[r] = Some(cd);
                    m.code_of[a] = None;
                    accepted += 1;
                    rec.class("transfer_accepted");
                }
                (ix, ok, format!("accept_referral_code(signer {s}, current owner account of {a}, code {cd}, receiver account of {r})"))
            }
        };
        let res = w.process(&ix);
        match (&res, expect_ok) {
            (Ok(()), true) => {}
            (Err(_), false) => {
                if w.vm.accounts != before {
                    return Err(format!("step {n}: rejected {what} changed accounts"));
                }
                m = prev.clone();
            }
            (Ok(()), false) => return Err(format!("step {n}: {what} succeeded but the reference model rejects it (model before: {prev:?})")),
            (Err(e), true) => return Err(format!("step {n}: {what} failed with {e:?} but the reference model accepts it (model before: {prev:?})")),
        }

        // ---- compare the real accounts with the model, and check the property-level invariants
        let mut real_referrer: [Option<usize>; USERS] = [None; USERS];
        for (i, o) in owners.iter().enumerate() {
            let data = w.vm.data(&w.k.user_pda(o));
            if !m.prepared[i] {
                if !data.is_empty() {
                    return Err(format!("step {n}: user account {i} exists although the model never prepared it"));
                }
                continue;
            }
            let u: UserHeader = svm::read_zero_copy(data).ok_or(format!("step {n}: user account {i} unreadable"))?;
            if u.owner != *o || u.store != w.k.store {
                return Err(format!("step {n}: user account {i} has owner/store {} / {}", u.owner, u.store));
            }
            let referrer = if u.referral.referrer == zero { None } else { Some(owners.iter().position(|x| *x == u.referral.referrer).ok_or(format!("step {n}: user {i} has an unknown referrer"))?) };
            real_referrer[i] = referrer;
            if referrer != m.referrer[i] {
                return Err(format!("step {n} ({what}): user {i} has referrer {referrer:?}, model {:?}", m.referrer[i]));
            }
            // write-once
            if let Some(old) = prev.referrer[i] {
                if referrer != Some(old) {
                    return Err(format!("step {n} ({what}): referrer of user {i} changed from {old} to {referrer:?}"));
                }
            }
            if referrer == Some(i) {
                return Err(format!("step {n} ({what}): user {i} refers themselves"));
            }
            let code = if u.referral.code == zero { None } else { Some(u.referral.code) };
            let want = m.code_of[i].map(|cd| w.k.referral_code_pda(&code_bytes(cd)));
            if code != want {
                return Err(format!("step {n} ({what}): user {i} holds code account {code:?}, model {want:?}"));
            }
            if u.referral.referee_count != m.referees[i] {
                return Err(format!("step {n} ({what}): user {i} has referee count {}, model {}", u.referral.referee_count, m.referees[i]));
            }
        }
        for i in 0..USERS {
            if let Some(r) = real_referrer[i] {
                if real_referrer[r] == Some(i) {
                    return Err(format!("step {n} ({what}): users {i} and {r} refer each other"));
                }
            }
        }
        for cd in 0..CODES {
            let key = w.k.referral_code_pda(&code_bytes(cd));
            let data = w.vm.data(&key);
            match m.codes.get(&cd) {
                None => {
                    if !data.is_empty() {
                        return Err(format!("step {n} ({what}): code {cd} exists but the model has no such code"));
                    }
                }
                Some(st) => {
                    let rc: ReferralCodeV2 = svm::read_zero_copy(data).ok_or(format!("step {n}: code account {cd} unreadable"))?;
                    if rc.owner != owners[st.owner] || rc.next_owner != owners[st.next_owner] || rc.code != code_bytes(cd) || rc.store != w.k.store {
                        return Err(format!("step {n} ({what}): code {cd} has owner {} next {}, model owner {} next {}", rc.owner, rc.next_owner, st.owner, st.next_owner));
                    }
                    // exactly one holder, and it is the owner
                    let holders: Vec<usize> = (0..USERS).filter(|i| m.prepared[*i] && svm::read_zero_copy::<UserHeader>(w.vm.data(&w.k.user_pda(&owners[*i]))).map(|u| u.referral.code == key).unwrap_or(false)).collect();
                    if holders != vec![st.owner] {
                        return Err(format!("step {n} ({what}): code {cd} is held by users {holders:?}, owner is {}", st.owner));
                    }
                    // ownership changes only through an accept signed by the proposed owner
                    if let Some(old) = prev.codes.get(&cd) {
                        if old.owner != st.owner {
                            let legit = accept_signer == Some(st.owner) && old.next_owner == st.owner;
                            if !legit {
                                return Err(format!("step {n} ({what}): owner of code {cd} changed from {} to {} without an accept by the proposed owner", old.owner, st.owner));
                            }
                        }
                    }
                }
            }
        }
    }
    rec.nontrivial_if(mutual_attempts > 0 || wrong_accepts > 0);
    rec.class_if(accepted >= 2, "code_moved_twice");
    Ok(())
}

pub fn run(ctx: &mut Ctx) {
    ctx.rule("cases = 4 users (all or a random subset prepared up front) and a history of 1..23 real instructions: prepare_user, initialize_referral_code (5 codes incl. the all-zero one, second code for the same user, code already taken), set_referrer (to self, mutual, twice, with a mismatched code / referrer account), transfer_referral_code / cancel_referral_code_transfer / accept_referral_code by the right and by wrong signers and with mismatched user accounts; 80 % of the referral ops take their code / counterparty from the model so that deep states (pending transfer, accepted transfer, re-issued code) are reached; oracle = reference model (referrer map write-once, never self, never mutual; code -> (owner, next owner); ownership moves only on accept signed by the proposed owner whose account holds no code) compared with the real user and code accounts after every step (referrer, held code, referee count, owner, next owner, exactly one holder per code), a step the model rejects must fail and leave every account byte-identical, a step the model accepts must succeed; non-trivial = history contains a mutual-referral attempt or an accept by a non-recipient");
    ctx.assume("svm-lite is not the Solana runtime; W1 world built with real instructions; user/code accounts are decoded with the IDL-generated types of gmsol-programs");
    let n = ctx.cases(4_000, 200_000);
    ctx.search("referral", n, case, check);
    for (class, min) in [
        ("mutual_attempt", 40),
        ("self_attempt", 40),
        ("second_referrer_attempt", 40),
        ("referrer_set", 300),
        ("transfer_started", 150),
        ("transfer_accepted", 60),
        ("transfer_cancelled", 20),
        ("accept_by_non_recipient", 30),
        ("second_code_attempt", 30),
    ] {
        ctx.floor(&format!("referral:{class}"), min);
    }
}
