//! C16 Every configuration key reads and writes its own setting.

use crate::engine::{Ctx, Rec};
use crate::svm;
use bytemuck::Zeroable;
use gmsol_model::{
    pool::delta::BalanceChange, BaseMarket, BorrowingFeeMarket, PerpMarket, PnlFactorKind,
    PositionImpactMarket, SwapMarket,
};
use gmsol_store::states::market::config::{MarketConfigFlag, MarketConfigKey};
use gmsol_store::states::{AddressKey, AmountKey, FactorKey, Market, Store};
use gmsol_utils::market::MarketFlag;
use proptest::prelude::*;
use serde::{Deserialize, Serialize};
use std::collections::BTreeMap;
use std::str::FromStr;
use strum::IntoEnumIterator;

pub const UNIT: u128 = 100_000_000_000_000_000_000;

/// Read every model parameter of a market through the model traits, under a stable name.
pub fn model_view<M>(m: &M) -> Result<BTreeMap<&'static str, u128>, String>
where
    M: BaseMarket<20, Num = u128, Signed = i128>
        + SwapMarket<20>
        + PositionImpactMarket<20>
        + BorrowingFeeMarket<20>
        + PerpMarket<20>,
{
    let e = |e: gmsol_model::Error| e.to_string();
    let mut v = BTreeMap::new();
    v.insert("max_pool_amount(long)", m.max_pool_amount(true).map_err(e)?);
    v.insert("max_pool_amount(short)", m.max_pool_amount(false).map_err(e)?);
    for (kind, name_l, name_s) in [
        (PnlFactorKind::MaxAfterDeposit, "pnl_factor(deposit,long)", "pnl_factor(deposit,short)"),
        (PnlFactorKind::MaxAfterWithdrawal, "pnl_factor(withdrawal,long)", "pnl_factor(withdrawal,short)"),
        (PnlFactorKind::MaxForTrader, "pnl_factor(trader,long)", "pnl_factor(trader,short)"),
        (PnlFactorKind::ForAdl, "pnl_factor(adl,long)", "pnl_factor(adl,short)"),
        (PnlFactorKind::MinAfterAdl, "pnl_factor(min_after_adl,long)", "pnl_factor(min_after_adl,short)"),
    ] {
        v.insert(name_l, m.pnl_factor_config(kind, true).map_err(e)?);
        v.insert(name_s, m.pnl_factor_config(kind, false).map_err(e)?);
    }
    v.insert("reserve_factor", m.reserve_factor().map_err(e)?);
    v.insert("open_interest_reserve_factor", m.open_interest_reserve_factor().map_err(e)?);
    v.insert("max_open_interest(long)", m.max_open_interest(true).map_err(e)?);
    v.insert("max_open_interest(short)", m.max_open_interest(false).map_err(e)?);
    v.insert("ignore_open_interest_for_usage_factor", m.ignore_open_interest_for_usage_factor().map_err(e)? as u128);
    let si = m.swap_impact_params().map_err(e)?;
    v.insert("swap_impact.exponent", *si.exponent());
    v.insert("swap_impact.positive", *si.positive_factor());
    v.insert("swap_impact.negative", *si.negative_factor());
    let sf = m.swap_fee_params().map_err(e)?;
    v.insert("swap_fee.receiver", *sf.receiver_factor());
    v.insert("swap_fee.positive", sf.fee::<20>(BalanceChange::Improved, &UNIT).ok_or("swap fee")?);
    v.insert("swap_fee.negative", sf.fee::<20>(BalanceChange::Worsened, &UNIT).ok_or("swap fee")?);
    let pi = m.position_impact_params().map_err(e)?;
    v.insert("position_impact.exponent", *pi.exponent());
    v.insert("position_impact.positive", *pi.positive_factor());
    v.insert("position_impact.negative", *pi.negative_factor());
    let pd = m.position_impact_distribution_params().map_err(e)?;
    v.insert("distribution.factor", *pd.distribute_factor());
    v.insert("distribution.min_pool_amount", *pd.min_position_impact_pool_amount());
    let bf = m.borrowing_fee_params().map_err(e)?;
    v.insert("borrowing.receiver", *bf.receiver_factor());
    v.insert("borrowing.factor(long)", *bf.factor(true));
    v.insert("borrowing.factor(short)", *bf.factor(false));
    v.insert("borrowing.exponent(long)", *bf.exponent(true));
    v.insert("borrowing.exponent(short)", *bf.exponent(false));
    v.insert("borrowing.skip_for_smaller_side", bf.skip_borrowing_fee_for_smaller_side() as u128);
    let k = m.borrowing_fee_kink_model_params().map_err(e)?;
    v.insert("kink.optimal_usage(long)", *k.optimal_usage_factor(true));
    v.insert("kink.optimal_usage(short)", *k.optimal_usage_factor(false));
    v.insert("kink.base(long)", *k.base_borrowing_factor(true));
    v.insert("kink.base(short)", *k.base_borrowing_factor(false));
    v.insert("kink.above_optimal(long)", *k.above_optimal_usage_borrowing_factor(true));
    v.insert("kink.above_optimal(short)", *k.above_optimal_usage_borrowing_factor(false));
    let ff = m.funding_fee_params().map_err(e)?;
    v.insert("funding.exponent", *ff.exponent());
    v.insert("funding.factor", *ff.factor());
    v.insert("funding.max_per_second", *ff.max_factor_per_second());
    v.insert("funding.min_per_second", *ff.min_factor_per_second());
    v.insert("funding.increase_per_second", *ff.increase_factor_per_second());
    v.insert("funding.decrease_per_second", *ff.decrease_factor_per_second());
    v.insert("funding.threshold_stable", *ff.threshold_for_stable_funding());
    v.insert("funding.threshold_decrease", *ff.threshold_for_decrease_funding());
    let pp = m.position_params().map_err(e)?;
    v.insert("position.min_size_usd", *pp.min_position_size_usd());
    v.insert("position.min_collateral_value", *pp.min_collateral_value());
    v.insert("position.min_collateral_factor", *pp.min_collateral_factor());
    v.insert("position.min_collateral_factor_for_liquidation", *pp.min_collateral_factor_for_liquidation());
    v.insert("position.max_positive_impact_factor", *pp.max_positive_position_impact_factor());
    v.insert("position.max_negative_impact_factor", *pp.max_negative_position_impact_factor());
    v.insert("position.max_impact_factor_for_liquidations", *pp.max_position_impact_factor_for_liquidations());
    let of = m.order_fee_params().map_err(e)?;
    v.insert("order_fee.receiver", *of.receiver_factor());
    v.insert("order_fee.positive", of.fee::<20>(BalanceChange::Improved, &UNIT).ok_or("order fee")?);
    v.insert("order_fee.negative", of.fee::<20>(BalanceChange::Worsened, &UNIT).ok_or("order fee")?);
    v.insert("min_collateral_factor_for_oi(long)", m.min_collateral_factor_for_open_interest_multiplier(true).map_err(e)?);
    v.insert("min_collateral_factor_for_oi(short)", m.min_collateral_factor_for_open_interest_multiplier(false).map_err(e)?);
    // LiquidationFeeParams has no public getters: read the two fields from its Debug rendering.
    let lf = format!("{:?}", m.liquidation_fee_params().map_err(e)?);
    let field = |name: &str| -> Option<u128> {
        let i = lf.find(&format!("{name}: "))? + name.len() + 2;
        let rest = &lf[i..];
        let end = rest.find(|c: char| !c.is_ascii_digit())?;
        rest[..end].parse().ok()
    };
    // `receiver_factor` contains `factor`: look the longer name up first and cut it out.
    let recv = field("receiver_factor").ok_or("liquidation receiver factor")?;
    let lf2 = lf.replacen("receiver_factor", "rcv", 1);
    let fac = {
        let i = lf2.find("factor: ").ok_or("liquidation factor")? + 8;
        let rest = &lf2[i..];
        let end = rest.find(|c: char| !c.is_ascii_digit()).ok_or("liquidation factor")?;
        rest[..end].parse::<u128>().map_err(|e| e.to_string())?
    };
    v.insert("liquidation_fee.factor", fac);
    v.insert("liquidation_fee.receiver", recv);
    Ok(v)
}

/// Specification: which config key (or flag) feeds which model parameter. Written from the key names
/// and their doc comments; `closed` = market is closed AND the closed-market parameters are enabled.
pub fn spec(closed: bool) -> Vec<(&'static str, Src)> {
    use MarketConfigFlag as F;
    use MarketConfigKey as K;
    use Src::*;
    vec![
        ("max_pool_amount(long)", Key(K::MaxPoolAmountForLongToken)),
        ("max_pool_amount(short)", Key(K::MaxPoolAmountForShortToken)),
        ("pnl_factor(deposit,long)", Key(K::MaxPnlFactorForLongDeposit)),
        ("pnl_factor(deposit,short)", Key(K::MaxPnlFactorForShortDeposit)),
        ("pnl_factor(withdrawal,long)", Key(K::MaxPnlFactorForLongWithdrawal)),
        ("pnl_factor(withdrawal,short)", Key(K::MaxPnlFactorForShortWithdrawal)),
        ("pnl_factor(trader,long)", Key(K::MaxPnlFactorForLongTrader)),
        ("pnl_factor(trader,short)", Key(K::MaxPnlFactorForShortTrader)),
        ("pnl_factor(adl,long)", Key(K::MaxPnlFactorForLongAdl)),
        ("pnl_factor(adl,short)", Key(K::MaxPnlFactorForShortAdl)),
        ("pnl_factor(min_after_adl,long)", Key(K::MinPnlFactorAfterLongAdl)),
        ("pnl_factor(min_after_adl,short)", Key(K::MinPnlFactorAfterShortAdl)),
        ("reserve_factor", Key(K::ReserveFactor)),
        ("open_interest_reserve_factor", Key(K::OpenInterestReserveFactor)),
        ("max_open_interest(long)", Key(K::MaxOpenInterestForLong)),
        ("max_open_interest(short)", Key(K::MaxOpenInterestForShort)),
        ("ignore_open_interest_for_usage_factor", Flag(F::IgnoreOpenInterestForUsageFactor)),
        ("swap_impact.exponent", Key(K::SwapImpactExponent)),
        ("swap_impact.positive", Key(K::SwapImpactPositiveFactor)),
        ("swap_impact.negative", Key(K::SwapImpactNegativeFactor)),
        ("swap_fee.receiver", Key(K::SwapFeeReceiverFactor)),
        ("swap_fee.positive", Key(K::SwapFeeFactorForPositiveImpact)),
        ("swap_fee.negative", Key(K::SwapFeeFactorForNegativeImpact)),
        ("position_impact.exponent", Key(K::PositionImpactExponent)),
        ("position_impact.positive", Key(K::PositionImpactPositiveFactor)),
        ("position_impact.negative", Key(K::PositionImpactNegativeFactor)),
        ("distribution.factor", Key(K::PositionImpactDistributeFactor)),
        ("distribution.min_pool_amount", Key(K::MinPositionImpactPoolAmount)),
        ("borrowing.receiver", Key(K::BorrowingFeeReceiverFactor)),
        ("borrowing.factor(long)", Key(K::BorrowingFeeFactorForLong)),
        ("borrowing.factor(short)", Key(K::BorrowingFeeFactorForShort)),
        ("borrowing.exponent(long)", Key(K::BorrowingFeeExponentForLong)),
        ("borrowing.exponent(short)", Key(K::BorrowingFeeExponentForShort)),
        ("borrowing.skip_for_smaller_side", Flag(if closed { F::MarketClosedSkipBorrowingFeeForSmallerSide } else { F::SkipBorrowingFeeForSmallerSide })),
        ("kink.optimal_usage(long)", Key(K::BorrowingFeeOptimalUsageFactorForLong)),
        ("kink.optimal_usage(short)", Key(K::BorrowingFeeOptimalUsageFactorForShort)),
        ("kink.base(long)", Key(if closed { K::MarketClosedBorrowingFeeBaseFactor } else { K::BorrowingFeeBaseFactorForLong })),
        ("kink.base(short)", Key(if closed { K::MarketClosedBorrowingFeeBaseFactor } else { K::BorrowingFeeBaseFactorForShort })),
        ("kink.above_optimal(long)", Key(if closed { K::MarketClosedBorrowingFeeAboveOptimalUsageFactor } else { K::BorrowingFeeAboveOptimalUsageFactorForLong })),
        ("kink.above_optimal(short)", Key(if closed { K::MarketClosedBorrowingFeeAboveOptimalUsageFactor } else { K::BorrowingFeeAboveOptimalUsageFactorForShort })),
        ("funding.exponent", Key(K::FundingFeeExponent)),
        ("funding.factor", Key(K::FundingFeeFactor)),
        ("funding.max_per_second", Key(K::FundingFeeMaxFactorPerSecond)),
        ("funding.min_per_second", Key(K::FundingFeeMinFactorPerSecond)),
        ("funding.increase_per_second", Key(K::FundingFeeIncreaseFactorPerSecond)),
        ("funding.decrease_per_second", Key(K::FundingFeeDecreaseFactorPerSecond)),
        ("funding.threshold_stable", Key(K::FundingFeeThresholdForStableFunding)),
        ("funding.threshold_decrease", Key(K::FundingFeeThresholdForDecreaseFunding)),
        ("position.min_size_usd", Key(K::MinPositionSizeUsd)),
        ("position.min_collateral_value", Key(K::MinCollateralValue)),
        ("position.min_collateral_factor", Key(K::MinCollateralFactor)),
        ("position.min_collateral_factor_for_liquidation", Key(if closed { K::MarketClosedMinCollateralFactorForLiquidation } else { K::MinCollateralFactorForLiquidation })),
        ("position.max_positive_impact_factor", Key(K::MaxPositivePositionImpactFactor)),
        ("position.max_negative_impact_factor", Key(K::MaxNegativePositionImpactFactor)),
        ("position.max_impact_factor_for_liquidations", Key(K::MaxPositionImpactFactorForLiquidations)),
        ("order_fee.receiver", Key(K::OrderFeeReceiverFactor)),
        ("order_fee.positive", Key(K::OrderFeeFactorForPositiveImpact)),
        ("order_fee.negative", Key(K::OrderFeeFactorForNegativeImpact)),
        ("min_collateral_factor_for_oi(long)", Key(K::MinCollateralFactorForOpenInterestMultiplierForLong)),
        ("min_collateral_factor_for_oi(short)", Key(K::MinCollateralFactorForOpenInterestMultiplierForShort)),
        ("liquidation_fee.factor", Key(K::LiquidationFeeFactor)),
        ("liquidation_fee.receiver", Key(K::LiquidationFeeReceiverFactor)),
    ]
}

#[derive(Clone, Copy)]
pub enum Src {
    Key(MarketConfigKey),
    Flag(MarketConfigFlag),
}

#[derive(Debug, Clone, Serialize, Deserialize)]
pub struct Case {
    pub seed: u64,
    pub closed: bool,
    pub enable_closed_params: bool,
    pub flags: u8,
    pub pure_market: bool,
}

fn case() -> impl Strategy<Value = Case> {
    (any::<u64>(), any::<bool>(), any::<bool>(), 0u8..16, any::<bool>())
        .prop_map(|(seed, closed, enable_closed_params, flags, pure_market)| Case { seed, closed, enable_closed_params, flags, pure_market })
}

/// Distinct pseudo-random non-zero value per (seed, key index).
pub fn value_for(seed: u64, i: usize) -> u128 {
    let mut x = seed ^ 0x9E37_79B9_7F4A_7C15u64.wrapping_mul(i as u64 + 1);
    x ^= x >> 30;
    x = x.wrapping_mul(0xBF58_476D_1CE4_E5B9);
    x ^= x >> 27;
    // keep values distinct by construction: high part random, low part the key index
    (((x as u128) % 1_000_000_007) + 1) * 1_000 + i as u128
}

pub fn configured_market(c: &Case) -> Result<(Market, BTreeMap<MarketConfigKey, u128>), String> {
    let base = crate::props::c17::new_market(&crate::props::c17::Case { pure_market: c.pure_market, enabled: true, seed: (c.seed % 251) as u8, now: 1_700_000_000 })?;
    let mut m = base;
    let mut assigned = BTreeMap::new();
    for (i, key) in MarketConfigKey::iter().enumerate() {
        let v = value_for(c.seed, i);
        *m.get_config_mut(&key.to_string()).map_err(|e| format!("key {key} is not writable: {e}"))? = v;
        assigned.insert(key, v);
    }
    m.set_config_flag(&MarketConfigFlag::SkipBorrowingFeeForSmallerSide.to_string(), c.flags & 1 != 0).map_err(|e| e.to_string())?;
    m.set_config_flag(&MarketConfigFlag::IgnoreOpenInterestForUsageFactor.to_string(), c.flags & 2 != 0).map_err(|e| e.to_string())?;
    m.set_config_flag(&MarketConfigFlag::MarketClosedSkipBorrowingFeeForSmallerSide.to_string(), c.flags & 4 != 0).map_err(|e| e.to_string())?;
    m.set_config_flag(&MarketConfigFlag::EnableMarketClosedParams.to_string(), c.enable_closed_params).map_err(|e| e.to_string())?;
    m.set_flag(MarketFlag::Closed, c.closed);
    Ok((m, assigned))
}

pub fn compare_view(view: &BTreeMap<&'static str, u128>, m: &Market, assigned: &BTreeMap<MarketConfigKey, u128>, closed: bool, who: &str) -> Result<(), String> {
    let table = spec(closed);
    for (name, src) in &table {
        let expected = match src {
            Src::Key(k) => assigned[k],
            Src::Flag(f) => m.get_config_flag_by_key(*f) as u128,
        };
        let got = *view.get(name).ok_or_else(|| format!("{who}: accessor {name} missing"))?;
        if got != expected {
            let named = match src {
                Src::Key(k) => k.to_string(),
                Src::Flag(f) => f.to_string(),
            };
            return Err(format!("{who}: model parameter {name} = {got}, but its key {named} holds {expected} (closed-params active: {closed})"));
        }
    }
    if view.len() != table.len() {
        return Err(format!("{who}: {} accessors vs {} table rows", view.len(), table.len()));
    }
    Ok(())
}

fn check(c: &Case, rec: &mut Rec) -> Result<(), String> {
    svm::init();
    let (m, assigned) = configured_market(c)?;
    // (i) read back through every key, by name and by variant
    for (key, v) in &assigned {
        let got = *m.get_config_by_key(*key).ok_or_else(|| format!("key {key} unreadable"))?;
        if got != *v {
            return Err(format!("key {key}: wrote {v}, read {got}"));
        }
        if *m.get_config(&key.to_string()).map_err(|e| e.to_string())? != *v {
            return Err(format!("key {key}: read by name differs"));
        }
        // (iv) name <-> variant round trip
        if MarketConfigKey::from_str(&key.to_string()).map_err(|_| format!("key {key} does not parse"))? != *key {
            return Err(format!("key name {key} parses to a different variant"));
        }
    }
    // single-key write changes nothing else (byte diff confined to one 16-byte slot)
    let keys: Vec<MarketConfigKey> = MarketConfigKey::iter().collect();
    let target = keys[(c.seed as usize) % keys.len()];
    let mut m2 = m;
    let before = bytemuck::bytes_of(&m2).to_vec();
    *m2.get_config_mut(&target.to_string()).map_err(|e| e.to_string())? = u128::MAX - c.seed as u128;
    let after = bytemuck::bytes_of(&m2);
    let diff: Vec<usize> = (0..before.len()).filter(|i| before[*i] != after[*i]).collect();
    if diff.is_empty() || diff[diff.len() - 1] - diff[0] >= 16 || diff[0] / 16 != diff[diff.len() - 1] / 16 {
        return Err(format!("writing key {target} changed bytes {:?}..{:?} (more than its own slot)", diff.first(), diff.last()));
    }
    for key in &keys {
        let expect = if *key == target { u128::MAX - c.seed as u128 } else { assigned[key] };
        if *m2.get_config_by_key(*key).unwrap() != expect {
            return Err(format!("writing key {target} changed key {key}"));
        }
    }
    // flags: each flag writes only itself
    for flag in MarketConfigFlag::iter() {
        let mut m3 = m;
        let cur = m3.get_config_flag_by_key(flag);
        let prev = m3.set_config_flag(&flag.to_string(), !cur).map_err(|e| e.to_string())?;
        if prev != cur || m3.get_config_flag(&flag.to_string()).map_err(|e| e.to_string())? == cur {
            return Err(format!("flag {flag}: set/get mismatch"));
        }
        for other in MarketConfigFlag::iter() {
            if other != flag && m3.get_config_flag_by_key(other) != m.get_config_flag_by_key(other) {
                return Err(format!("setting flag {flag} changed flag {other}"));
            }
        }
        for key in &keys {
            if m3.get_config_by_key(*key) != m.get_config_by_key(*key) {
                return Err(format!("setting flag {flag} changed key {key}"));
            }
        }
    }
    // (ii) every model parameter returns the value of the key it is named after
    let closed = c.closed && c.enable_closed_params;
    rec.class(if closed { "closed_params_active" } else { "open_params" });
    let view = model_view(&m)?;
    compare_view(&view, &m, &assigned, closed, "program Market")?;
    if m.max_pool_value_for_deposit(true).map_err(|e| e.to_string())? != assigned[&MarketConfigKey::MaxPoolValueForDepositForLongToken]
        || m.max_pool_value_for_deposit(false).map_err(|e| e.to_string())? != assigned[&MarketConfigKey::MaxPoolValueForDepositForShortToken]
    {
        return Err("max_pool_value_for_deposit does not read its long/short keys".into());
    }
    rec.nontrivial();
    Ok(())
}

#[derive(Debug, Clone, Serialize, Deserialize)]
pub struct StoreCase {
    pub seed: u64,
}

fn check_store(c: &StoreCase, rec: &mut Rec) -> Result<(), String> {
    svm::init();
    svm::set_sysvars(svm::Sysvars::default());
    let mut store = Store::zeroed();
    store.init(svm::key_of("a"), "", 255, svm::key_of("r"), svm::key_of("h")).map_err(|e| e.to_string())?;
    let amounts: Vec<AmountKey> = AmountKey::iter().collect();
    let factors: Vec<FactorKey> = FactorKey::iter().collect();
    let addresses: Vec<AddressKey> = AddressKey::iter().collect();
    let mut a_set = BTreeMap::new();
    for (i, k) in amounts.iter().enumerate() {
        let name = k.to_string();
        let v = (value_for(c.seed, i) % (u64::MAX as u128)) as u64;
        match store.get_amount_mut(&name) {
            Ok(slot) => {
                *slot = v;
                a_set.insert(name, v);
            }
            Err(_) => {
                // documented: changes to the claimable time window are prohibited
                if !matches!(k, AmountKey::ClaimableTimeWindow) {
                    return Err(format!("amount key {name} is not writable"));
                }
                a_set.insert(name.clone(), *store.get_amount(&name).map_err(|e| e.to_string())?);
            }
        }
    }
    let mut f_set = BTreeMap::new();
    for (i, k) in factors.iter().enumerate() {
        let name = k.to_string();
        let v = value_for(c.seed, 100 + i);
        *store.get_factor_mut(&name).map_err(|e| format!("factor key {name}: {e}"))? = v;
        f_set.insert(name, v);
    }
    let mut d_set = BTreeMap::new();
    for (i, k) in addresses.iter().enumerate() {
        let name = k.to_string();
        let v = svm::key_of(&format!("addr-{}-{i}", c.seed));
        *store.get_address_mut(&name).map_err(|e| format!("address key {name}: {e}"))? = v;
        d_set.insert(name, v);
    }
    for (name, v) in &a_set {
        if store.get_amount(name).map_err(|e| e.to_string())? != v {
            return Err(format!("amount key {name} reads a different value"));
        }
    }
    for (name, v) in &f_set {
        if store.get_factor(name).map_err(|e| e.to_string())? != v {
            return Err(format!("factor key {name} reads a different value"));
        }
    }
    for (name, v) in &d_set {
        if store.get_address(name).map_err(|e| e.to_string())? != v {
            return Err(format!("address key {name} reads a different value"));
        }
    }
    // named accessors
    let start = 1_700_000_000i64;
    let exp = a_set[&AmountKey::RequestExpiration.to_string()];
    if store.request_expiration_at(start).ok() != start.checked_add_unsigned(exp) {
        return Err("request_expiration_at does not use the request_expiration amount".into());
    }
    if *store.holding() != d_set[&AddressKey::Holding.to_string()] {
        return Err("holding() does not read the holding address key".into());
    }
    if store.claimable_time_window().map_err(|e| e.to_string())?.get() != a_set[&AmountKey::ClaimableTimeWindow.to_string()] {
        return Err("claimable_time_window() does not read its key".into());
    }
    rec.nontrivial();
    Ok(())
}

pub fn run(ctx: &mut Ctx) {
    ctx.rule("cases = random assignment of pairwise distinct non-zero values to every MarketConfigKey (strum enumeration, exhaustive over keys) x market closed flag x closed-params flag x config flags x pure/impure; oracle = (i) every key reads back its value by name and by variant and name<->variant round-trips, a single-key write changes exactly one 16-byte slot, a flag write changes only that flag; (ii) a hand-written table model-parameter -> key (written from key names/doc comments, closed-market switch included) must be satisfied by the program's Market through the gmsol-model traits; store: every Amount/Factor/Address key reads back, named accessors read their keys; all cases non-trivial");
    ctx.assume("Market::default()+init and Store::zeroed()+init with stubbed sysvars; the SDK MarketModel side of the same table is checked under C40");
    let n = ctx.cases(3_000, 150_000);
    ctx.search("market_keys", n, case, check);
    ctx.search("store_keys", n, || any::<u64>().prop_map(|seed| StoreCase { seed }), check_store);
    ctx.floor("market_keys:closed_params_active", 300);
    ctx.extra("market_config_keys", serde_json::json!(MarketConfigKey::iter().count()));
    ctx.extra("model_parameters_in_table", serde_json::json!(spec(false).len()));
}
