//! C41 Transaction packing preserves instructions and respects size limits.

use crate::engine::{no_panic, pick, Ctx, Rec};
use gmsol_solana_utils::{
    address_lookup_table::AddressLookupTables,
    instruction_group::{AtomicGroup, AtomicGroupOptions, GetInstructionsOptions, ParallelGroup},
    transaction_group::{TransactionGroup, TransactionGroupOptions},
};
use proptest::prelude::*;
use serde::{Deserialize, Serialize};
use solana_sdk::{
    address_lookup_table::AddressLookupTableAccount,
    hash::Hash,
    instruction::{AccountMeta, Instruction},
    pubkey::Pubkey,
};

#[derive(Debug, Clone, Serialize, Deserialize)]
pub struct Ix {
    pub program: u8,
    pub metas: Vec<(u16, bool, bool)>,
    pub data_len: u16,
    pub tag: u8,
}

#[derive(Debug, Clone, Serialize, Deserialize)]
pub struct Ag {
    pub payer: u8,
    pub mergeable: bool,
    pub extra_signer: Option<u16>,
    pub ixs: Vec<Ix>,
}

#[derive(Debug, Clone, Serialize, Deserialize)]
pub struct Case {
    pub max_size: u16,
    pub max_ixs: u8,
    pub allow_payer_change: bool,
    pub luts: Vec<Vec<u8>>,
    pub groups: Vec<Vec<Ag>>,
    pub group_mergeable: Vec<bool>,
}

const UNIVERSE: usize = 28;

fn key(i: usize) -> Pubkey {
    crate::svm::key_of(&format!("c41-key-{i}"))
}
fn payer(i: u8) -> Pubkey {
    crate::svm::key_of(&format!("c41-payer-{}", i % 3))
}
fn program(i: u8) -> Pubkey {
    crate::svm::key_of(&format!("c41-program-{}", i % 3))
}
/// Address pool of metas and lookup tables: the key universe, then the 3 program ids, then the 3 payers
/// (real lookup tables routinely list program ids, and programs are passed as plain accounts).
const POOL_METAS: usize = UNIVERSE + 3;
const POOL_LUT: usize = UNIVERSE + 6;
fn pool(i: usize) -> Pubkey {
    if i < UNIVERSE {
        key(i)
    } else if i < UNIVERSE + 3 {
        program((i - UNIVERSE) as u8)
    } else {
        payer((i - UNIVERSE - 3) as u8)
    }
}

fn ix_strategy() -> impl Strategy<Value = Ix> {
    (0u8..3, proptest::collection::vec((any::<u16>(), prop_oneof![6 => Just(false), 1 => Just(true)], any::<bool>()), 0..=20), prop_oneof![4 => 0u16..=120, 1 => 120u16..=600], any::<u8>())
        .prop_map(|(program, metas, data_len, tag)| Ix { program, metas, data_len, tag })
}

fn ag_strategy() -> impl Strategy<Value = Ag> {
    (0u8..3, prop_oneof![4 => Just(true), 1 => Just(false)], prop_oneof![4 => Just(None), 1 => any::<u16>().prop_map(Some)], proptest::collection::vec(ix_strategy(), 1..=4))
        .prop_map(|(payer, mergeable, extra_signer, ixs)| Ag { payer, mergeable, extra_signer, ixs })
}

fn case() -> impl Strategy<Value = Case> {
    (
        prop_oneof![3 => Just(1232u16), 1 => 400u16..=1232],
        prop_oneof![3 => Just(14u8), 1 => 2u8..=8],
        any::<bool>(),
        proptest::collection::vec(proptest::collection::vec(0u8..POOL_LUT as u8, 1..=14), 0..=2),
        proptest::collection::vec(prop_oneof![4 => proptest::collection::vec(ag_strategy(), 1..=1), 1 => proptest::collection::vec(ag_strategy(), 2..=3)], 1..=8),
        proptest::collection::vec(prop_oneof![5 => Just(true), 1 => Just(false)], 8),
    )
        .prop_map(|(max_size, max_ixs, allow_payer_change, luts, groups, group_mergeable)| Case { max_size, max_ixs, allow_payer_change, luts, groups, group_mergeable })
}

fn build_ix(ix: &Ix, payer_key: &Pubkey, serial: usize) -> Instruction {
    let mut accounts: Vec<AccountMeta> = ix
        .metas
        .iter()
        .map(|(k, signer, writable)| {
            // signer metas must be keys a group can sign for: use the payer itself
            let pk = if *signer { *payer_key } else { pool(pick(*k, POOL_METAS)) };
            if *writable { AccountMeta::new(pk, *signer) } else { AccountMeta::new_readonly(pk, *signer) }
        })
        .collect();
    if accounts.is_empty() {
        accounts.push(AccountMeta::new_readonly(key(0), false));
    }
    // data is unique per instruction so that order and multiplicity are observable
    let mut data = vec![ix.tag; ix.data_len as usize];
    data.extend_from_slice(&(serial as u32).to_le_bytes());
    Instruction { program_id: program(ix.program), accounts, data }
}

fn check(c: &Case, rec: &mut Rec) -> Result<(), String> {
    let mut luts = AddressLookupTables::default();
    let mut lut_lists_program = false;
    for (i, t) in c.luts.iter().enumerate() {
        let mut addresses: Vec<Pubkey> = vec![];
        for j in t {
            let a = pool(*j as usize % POOL_LUT);
            if !addresses.contains(&a) {
                addresses.push(a);
            }
            lut_lists_program |= (UNIVERSE..UNIVERSE + 3).contains(&(*j as usize % POOL_LUT));
        }
        luts.add(&AddressLookupTableAccount { key: crate::svm::key_of(&format!("c41-lut-{i}")), addresses });
    }
    let options = TransactionGroupOptions {
        max_transaction_size: c.max_size as usize,
        max_instructions_per_tx: c.max_ixs as usize,
        memo: None,
        memo_signers: None,
        extra_compute_units: None,
    };
    let mut tg = TransactionGroup::with_options_and_luts(options.clone(), luts.clone());
    // original atomic groups that were accepted: (instructions, mergeable (group-level and atomic-level), payer)
    struct Orig {
        ixs: Vec<Instruction>,
        mergeable: bool,
        payer: Pubkey,
    }
    let mut originals: Vec<Orig> = vec![];
    let mut serial = 0usize;
    let mut rejected = 0;
    for (gi, group) in c.groups.iter().enumerate() {
        let mut pg_ags = vec![];
        let mut pg_orig = vec![];
        for ag in group {
            let p = payer(ag.payer);
            let ixs: Vec<Instruction> = ag.ixs.iter().map(|ix| { serial += 1; build_ix(ix, &p, serial) }).collect();
            let mut a = AtomicGroup::with_instructions_and_options(&p, ixs.clone(), AtomicGroupOptions { is_mergeable: ag.mergeable });
            if let Some(s) = ag.extra_signer {
                a.add_signer(&key(pick(s, UNIVERSE)));
            }
            pg_ags.push(a);
            pg_orig.push(Orig { ixs, mergeable: ag.mergeable, payer: p });
        }
        let group_mergeable = c.group_mergeable[gi % c.group_mergeable.len()];
        let mut pg: ParallelGroup = pg_ags.into_iter().collect();
        pg.set_is_mergeable(group_mergeable);
        match tg.add(pg) {
            Ok(_) => {
                for mut o in pg_orig {
                    o.mergeable &= group_mergeable || group.len() > 1;
                    originals.push(o);
                }
            }
            Err(_) => rejected += 1,
        }
    }
    rec.class_if(rejected > 0, "oversized_group_rejected");
    let flatten = |tg: &TransactionGroup| -> Vec<Instruction> {
        tg.groups().iter().flat_map(|pg| pg.iter().flat_map(|ag| ag.iter().cloned().collect::<Vec<_>>())).collect()
    };
    let before = flatten(&tg);
    let expect: Vec<Instruction> = originals.iter().flat_map(|o| o.ixs.clone()).collect();
    if before != expect {
        return Err("instructions differ right after adding".into());
    }
    let groups_before: usize = tg.groups().iter().map(|pg| pg.len()).sum();
    no_panic(|| { tg.optimize(c.allow_payer_change); }).map_err(|p| format!("optimize panicked: {p}"))?;
    let after = flatten(&tg);
    if after != before {
        return Err(format!("optimize changed the instruction sequence: {} instructions before, {} after", before.len(), after.len()));
    }
    let groups_after: usize = tg.groups().iter().map(|pg| pg.len()).sum();
    rec.class_if(groups_after < groups_before, "merged");
    // map each resulting atomic group onto the originals it contains
    let mut oi = 0usize;
    let ix_options = || GetInstructionsOptions { compute_budget: Default::default(), memo: None, memo_signers: None, extra_compute_units: 0 };
    let mut lut_hit = false;
    for pg in tg.groups() {
        for ag in pg.iter() {
            let got: Vec<Instruction> = ag.iter().cloned().collect();
            if got.is_empty() {
                return Err("an empty atomic group was left behind".into());
            }
            let mut consumed = 0usize;
            let first = oi;
            while consumed < got.len() {
                let o = originals.get(oi).ok_or("more instructions than originals")?;
                if got.len() - consumed < o.ixs.len() || got[consumed..consumed + o.ixs.len()] != o.ixs[..] {
                    return Err(format!("original atomic group #{oi} was split across transactions"));
                }
                consumed += o.ixs.len();
                oi += 1;
            }
            let parts = &originals[first..oi];
            if parts.len() > 1 {
                if parts.iter().any(|o| !o.mergeable) {
                    return Err("a non-mergeable group was merged".into());
                }
                if !c.allow_payer_change && parts.iter().any(|o| o.payer != parts[0].payer) {
                    return Err("groups with different payers were merged although payer change is not allowed".into());
                }
            }
            if *ag.payer() != parts[0].payer {
                return Err("payer of a transaction is not the payer of its first group".into());
            }
            if got.len() > c.max_ixs as usize {
                return Err(format!("{} instructions in one transaction, limit {}", got.len(), c.max_ixs));
            }
            let estimate = ag.transaction_size(true, Some(&luts), ix_options());
            if estimate > c.max_size as usize {
                return Err(format!("estimated size {estimate} exceeds the limit {}", c.max_size));
            }
            let message = ag
                .message_with_blockhash_and_options(Hash::default(), ix_options(), Some(&luts))
                .map_err(|e| format!("cannot compile message: {e}"))?;
            let n_sigs = message.header().num_required_signatures as usize;
            let real = 1 + 64 * n_sigs + message.serialize().len();
            if real > estimate {
                return Err(format!("real serialized size {real} exceeds the estimate {estimate}"));
            }
            if let Some(lookups) = message.address_table_lookups() {
                lut_hit |= !lookups.is_empty();
            }
        }
    }
    if oi != originals.len() {
        return Err("some original groups disappeared".into());
    }
    rec.class_if(lut_hit, "lut_used");
    rec.class_if(lut_hit && lut_lists_program, "lut_lists_a_program_id");
    rec.nontrivial_if(groups_after < groups_before && lut_hit);
    Ok(())
}

pub fn run(ctx: &mut Ctx) {
    ctx.rule("cases = transaction-size limit (default 1232 or 400..1232), instruction limit (14 or 2..8), allow-payer-change flag, 0..2 lookup tables listing 1..14 addresses out of a 28-key universe, the 3 program ids and the 3 payers (program ids also appear as plain account metas), and 1..8 parallel groups (mostly single atomic groups, some with 2-3) whose atomic groups have one of 3 payers, a mergeable flag, an optional extra signer and 1..4 instructions with 0..20 metas (few keys => dedup), data 0..600 bytes made unique by a serial number; oracle = flattened instruction sequence identical before/after optimize; every original atomic group contiguous inside one resulting group; merged groups all mergeable, same payer unless payer change allowed, payer = first group's payer; instruction count and estimated size within limits; real size (1 + 64*signatures + serialized v0 message compiled with the same lookup tables) <= estimate; non-trivial = at least one merge and one lookup-table hit");
    let n = ctx.cases(20_000, 1_000_000);
    ctx.search("packing", n, case, check);
    ctx.floor("packing:merged", 2_000);
    ctx.floor("packing:lut_used", 2_000);
    ctx.floor("packing:lut_lists_a_program_id", 500);
}
