//! Shared fixture for properties that drive the program's `Revertible*` types directly (C21, C40).
//!
//! `RevertibleMarket::commit` emits an event through a CPI, `RevertibleLiquidityMarket::commit`
//! mints / burns market tokens through the token program. Both need a runtime, so the interpreters
//! of these properties run *inside* svm-lite as a harness-defined "driver" program registered with
//! `svm::register_processor`. The driver receives the accounts below, presents the store-program
//! accounts (market, positions) to the code under test with the store program as owner, and flags
//! the store and the event authority as signers at the top level (in production they sign as PDAs
//! of the store program, which is the caller there).

use crate::svm::{self, Acct, Svm};
use anchor_lang::prelude::{Account, AccountInfo, AccountLoader};
use anchor_lang::solana_program::{
    instruction::{AccountMeta, Instruction},
    program_error::ProgramError,
    program_pack::Pack,
    pubkey::Pubkey,
};
use anchor_lang::Discriminator;
use anchor_spl::token::Mint;
use bytemuck::Zeroable;
use gmsol_store::states::{position::PositionKind, Market, Position, Store};

pub static STORE_PROGRAM: Pubkey = gmsol_store::ID;
pub const T0: i64 = 1_700_000_000;
pub const NUM_POSITIONS: usize = 6;

/// Indices of the driver instruction's accounts.
pub const A_MARKET: usize = 0;
pub const A_EVENT_AUTHORITY: usize = 1;
pub const A_STORE: usize = 2;
pub const A_TOKEN_PROGRAM: usize = 3;
pub const A_MINT: usize = 4;
pub const A_VAULT: usize = 5;
pub const A_RECEIVER: usize = 6;
pub const A_POSITION0: usize = 7;

pub struct Keys {
    pub driver: Pubkey,
    pub market: Pubkey,
    pub event_authority: Pubkey,
    pub event_bump: u8,
    pub store: Pubkey,
    pub mint: Pubkey,
    pub vault: Pubkey,
    pub receiver: Pubkey,
    pub receiver_owner: Pubkey,
    pub positions: [Pubkey; NUM_POSITIONS],
}

pub fn keys(tag: &str) -> Keys {
    let (event_authority, event_bump) = Pubkey::find_program_address(&[b"__event_authority"], &gmsol_store::ID);
    Keys {
        driver: svm::key_of(&format!("{tag}-driver-program")),
        market: svm::key_of(&format!("{tag}-market")),
        event_authority,
        event_bump,
        store: svm::key_of(&format!("{tag}-store")),
        mint: svm::key_of(&format!("{tag}-market-token")),
        vault: svm::key_of(&format!("{tag}-vault")),
        receiver: svm::key_of(&format!("{tag}-receiver")),
        receiver_owner: svm::key_of(&format!("{tag}-receiver-owner")),
        positions: std::array::from_fn(|i| svm::key_of(&format!("{tag}-position-{i}"))),
    }
}

/// (is_long, collateral is the long token) of position slot `i` (same convention as `mgen`).
pub fn position_sides(i: usize) -> (bool, bool) {
    (i % 2 == 0, (i / 2) % 2 == 0)
}

pub fn zero_copy_data<T: bytemuck::Pod + Discriminator>(t: &T) -> Vec<u8> {
    let mut d = T::DISCRIMINATOR.to_vec();
    d.extend_from_slice(bytemuck::bytes_of(t));
    d
}

pub fn mint_data(authority: &Pubkey, supply: u64, decimals: u8) -> Vec<u8> {
    let m = spl_token::state::Mint { mint_authority: Some(*authority).into(), supply, decimals, is_initialized: true, freeze_authority: None.into() };
    let mut d = vec![0u8; spl_token::state::Mint::LEN];
    m.pack_into_slice(&mut d);
    d
}

pub fn token_data(mint: &Pubkey, owner: &Pubkey, amount: u64) -> Vec<u8> {
    let a = spl_token::state::Account {
        mint: *mint,
        owner: *owner,
        amount,
        delegate: None.into(),
        state: spl_token::state::AccountState::Initialized,
        is_native: None.into(),
        delegated_amount: 0,
        close_authority: None.into(),
    };
    let mut d = vec![0u8; spl_token::state::Account::LEN];
    a.pack_into_slice(&mut d);
    d
}

pub fn mint_supply(info: &AccountInfo<'_>) -> Result<u64, String> {
    let d = info.try_borrow_data().map_err(|e| e.to_string())?;
    spl_token::state::Mint::unpack(&d[..spl_token::state::Mint::LEN]).map(|m| m.supply).map_err(|e| e.to_string())
}

pub fn token_amount(info: &AccountInfo<'_>) -> Result<u64, String> {
    let d = info.try_borrow_data().map_err(|e| e.to_string())?;
    spl_token::state::Account::unpack(&d[..spl_token::state::Account::LEN]).map(|a| a.amount).map_err(|e| e.to_string())
}

/// Build the world: market (already configured by the caller), store, market-token mint with the
/// store as authority, a store-owned vault holding `vault_amount`, a user-owned receiver account,
/// and six initialised position accounts. Returns the driver instruction.
pub fn install(vm: &mut Svm, k: &Keys, market: &Market, supply: u64, vault_amount: u64) -> Result<Instruction, String> {
    let acct = |data: Vec<u8>, owner: Pubkey| Acct { lamports: 1_000_000_000, data, owner, executable: false };
    // Accounts the driver itself writes are owned by the driver in svm-lite's books.
    vm.set_account(k.market, acct(zero_copy_data(market), k.driver));
    let mut store = Store::zeroed();
    store.init(svm::key_of("rvfix-authority"), "", 255, svm::key_of("rvfix-receiver"), svm::key_of("rvfix-holding")).map_err(|e| e.to_string())?;
    vm.set_account(k.store, acct(zero_copy_data(&store), gmsol_store::ID));
    vm.set_account(k.mint, acct(mint_data(&k.store, supply, 9), spl_token::ID));
    vm.set_account(k.vault, acct(token_data(&k.mint, &k.store, vault_amount), spl_token::ID));
    vm.set_account(k.receiver, acct(token_data(&k.mint, &k.receiver_owner, supply - vault_amount), spl_token::ID));
    let meta = *market.meta();
    for (i, pk) in k.positions.iter().enumerate() {
        let (is_long, coll_long) = position_sides(i);
        let mut p = Position::default();
        let token = if coll_long { meta.long_token_mint } else { meta.short_token_mint };
        p.try_init(if is_long { PositionKind::Long } else { PositionKind::Short }, 255, market.store, &svm::key_of(&format!("rvfix-owner-{i}")), &meta.market_token_mint, &token)
            .map_err(|e| e.to_string())?;
        vm.set_account(*pk, acct(zero_copy_data(&p), k.driver));
    }
    let mut accounts = vec![
        AccountMeta::new(k.market, false),
        AccountMeta::new_readonly(k.event_authority, true),
        AccountMeta::new_readonly(k.store, true),
        AccountMeta::new_readonly(spl_token::ID, false),
        AccountMeta::new(k.mint, false),
        AccountMeta::new(k.vault, false),
        AccountMeta::new(k.receiver, false),
    ];
    for pk in &k.positions {
        accounts.push(AccountMeta::new(*pk, false));
    }
    Ok(Instruction { program_id: k.driver, accounts, data: vec![] })
}

/// The same account data, presented as an account of the store program.
pub fn as_store_owned(a: &AccountInfo<'static>) -> AccountInfo<'static> {
    AccountInfo { key: a.key, lamports: a.lamports.clone(), data: a.data.clone(), owner: &STORE_PROGRAM, rent_epoch: 0, is_signer: false, is_writable: true, executable: false }
}

/// Extend a borrow of an account info to `'static`.
///
/// # Safety
/// The caller must drop everything derived from the result before the referent goes away (all
/// users are local to one driver invocation, the referents live for that whole invocation).
pub unsafe fn forever(a: &AccountInfo<'static>) -> &'static AccountInfo<'static> {
    std::mem::transmute(a)
}

/// Accounts of one driver invocation, with the loaders the `Revertible*` constructors need.
pub struct Env {
    pub market_info: Box<AccountInfo<'static>>,
    pub position_infos: Vec<Box<AccountInfo<'static>>>,
    pub event_authority: &'static AccountInfo<'static>,
    pub store: &'static AccountInfo<'static>,
    pub token_program: &'static AccountInfo<'static>,
    pub mint: &'static AccountInfo<'static>,
    pub vault: &'static AccountInfo<'static>,
    pub receiver: &'static AccountInfo<'static>,
    pub event_bump: u8,
}

impl Env {
    /// # Safety
    /// `accounts` must outlive the returned value and everything derived from it (it does: both are
    /// confined to one driver invocation).
    pub unsafe fn new(accounts: &[AccountInfo<'static>]) -> Result<Env, ProgramError> {
        if accounts.len() < A_POSITION0 + NUM_POSITIONS {
            return Err(ProgramError::NotEnoughAccountKeys);
        }
        let (_, event_bump) = Pubkey::find_program_address(&[b"__event_authority"], &gmsol_store::ID);
        Ok(Env {
            market_info: Box::new(as_store_owned(&accounts[A_MARKET])),
            position_infos: (0..NUM_POSITIONS).map(|i| Box::new(as_store_owned(&accounts[A_POSITION0 + i]))).collect(),
            event_authority: forever(&accounts[A_EVENT_AUTHORITY]),
            store: forever(&accounts[A_STORE]),
            token_program: forever(&accounts[A_TOKEN_PROGRAM]),
            mint: forever(&accounts[A_MINT]),
            vault: forever(&accounts[A_VAULT]),
            receiver: forever(&accounts[A_RECEIVER]),
            event_bump,
        })
    }

    pub fn market_loader(&self) -> Result<AccountLoader<'static, Market>, String> {
        // SAFETY: the boxed info lives as long as `self`; loaders are dropped before it.
        let r: &'static AccountInfo<'static> = unsafe { forever(&self.market_info) };
        AccountLoader::try_from(r).map_err(|e| format!("market loader: {e}"))
    }

    pub fn position_loader(&self, i: usize) -> Result<AccountLoader<'static, Position>, String> {
        // SAFETY: as above.
        let r: &'static AccountInfo<'static> = unsafe { forever(&self.position_infos[i]) };
        AccountLoader::try_from(r).map_err(|e| format!("position loader: {e}"))
    }

    pub fn store_loader(&self) -> Result<AccountLoader<'static, Store>, String> {
        AccountLoader::try_from(self.store).map_err(|e| format!("store loader: {e}"))
    }

    /// A fresh snapshot of the market-token mint (what an instruction would deserialize).
    pub fn mint_account(&self) -> Result<Account<'static, Mint>, String> {
        Account::try_from(self.mint).map_err(|e| format!("mint account: {e}"))
    }

    pub fn market_bytes(&self) -> Result<Vec<u8>, String> {
        let d = self.market_info.try_borrow_data().map_err(|e| e.to_string())?;
        Ok(d[8..].to_vec())
    }

    pub fn position_bytes(&self, i: usize) -> Result<Vec<u8>, String> {
        let d = self.position_infos[i].try_borrow_data().map_err(|e| e.to_string())?;
        Ok(d[8..].to_vec())
    }
}
