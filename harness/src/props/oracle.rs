//! Oracle checks through the `verif` hooks: C24 (price acceptance), C25 (custom feed monotone),
//! C29 (adjusted price stays in band).

use crate::engine::{no_panic, Ctx, Rec};
use crate::refmath::*;
use crate::svm;
use bytemuck::Zeroable;
use gmsol_store::states::oracle::verif as ohook;
use gmsol_store::states::{AmountKey, PriceFeed, PriceFeedPrice, PriceProviderKind, Store};
use gmsol_store::verif as hook;
use gmsol_utils::price::{Decimal, Price};
use gmsol_utils::token_config::{FeedConfig, TokenConfig};
use num_bigint::BigInt;
use num_traits::{Signed, Zero};
use proptest::prelude::*;
use serde::{Deserialize, Serialize};

const UNIT: u128 = 100_000_000_000_000_000_000;
const PROVIDER: PriceProviderKind = PriceProviderKind::ChainlinkDataStreams;

fn dec(v: u32, m: u8) -> Decimal {
    Decimal { value: v, decimal_multiplier: m }
}

// ------------------------------------------------------------------------------------------ C29

#[derive(Debug, Clone, Serialize, Deserialize)]
pub struct AdjustCase {
    pub min: u32,
    pub max: u32,
    pub m_min: u8,
    pub m_max: u8,
    pub reference: Option<(u32, u8)>,
    pub ratio: u32,
}

fn price_value() -> impl Strategy<Value = u32> {
    prop_oneof![4 => 1u32..=10_000_000, 1 => any::<u32>(), 1 => 0u32..=3, 1 => (0u32..=3).prop_map(|d| u32::MAX - d)]
}

fn adjust_case() -> impl Strategy<Value = AdjustCase> {
    (
        price_value(),
        prop_oneof![3 => 0u32..=2000, 1 => any::<u32>()],
        0u8..=20,
        prop_oneof![4 => Just(None), 1 => (0u8..=20).prop_map(Some)],
        prop_oneof![2 => Just(0u8), 5 => 1u8..=2, 1 => Just(3u8)],
        -2000i64..=2000,
        prop_oneof![2 => Just(0i8), 1 => -2i8..=2],
        prop_oneof![3 => 1u32..=50_000_000, 1 => 50_000_000u32..=200_000_000, 1 => any::<u32>()],
        any::<bool>(),
    )
        .prop_map(|(min, spread, m, m_other, ref_kind, ref_off, ref_m_off, ratio, inverted)| {
            let max = min.saturating_add(spread);
            let (min, max) = if inverted && spread < 50 { (max, min) } else { (min, max) };
            let m_max = m_other.unwrap_or(m);
            let reference = match ref_kind {
                0 => None,
                _ => {
                    let rm = (m as i8 + ref_m_off).clamp(0, 20) as u8;
                    // reference near the price, expressed in its own multiplier
                    let base = (min as i128 + max as i128) / 2 * 10i128.pow(m as u32);
                    let target = (base + ref_off as i128 * 10i128.pow(m as u32)).max(0);
                    let v = (target / 10i128.pow(rm as u32)).clamp(0, u32::MAX as i128) as u32;
                    Some((v, rm))
                }
            };
            AdjustCase { min, max, m_min: m, m_max, reference, ratio }
        })
}

fn token_config(ratio: u32, adjustment: u32, allow_adjust: bool, decimals: u8, precision: u8, heartbeat: u32, feed: anchor_lang::prelude::Pubkey) -> Result<TokenConfig, String> {
    let mut tc = TokenConfig::zeroed();
    tc.token_decimals = decimals;
    tc.precision = precision;
    tc.heartbeat_duration = heartbeat;
    tc.set_expected_provider(PROVIDER);
    tc.set_enabled(true);
    tc.set_flag(gmsol_utils::token_config::TokenConfigFlag::Initialized, true);
    tc.set_flag(gmsol_utils::token_config::TokenConfigFlag::AllowPriceAdjustment, allow_adjust);
    let factor = if ratio == 0 { None } else { Some(ratio as u128 * FeedConfig::RATIO_MULTIPLIER) };
    let fc = FeedConfig::new(feed)
        .with_timestamp_adjustment(adjustment)
        .with_max_deviation_factor(factor)
        .map_err(|e| format!("feed config: {e}"))?;
    tc.set_feed_config(&PROVIDER, fc).map_err(|e| format!("set feed config: {e}"))?;
    Ok(tc)
}

fn store_with(max_age: u64, range: u64, future: u64) -> Result<Store, String> {
    let mut store = Store::zeroed();
    store.init(svm::key_of("auth"), "", 255, svm::key_of("r"), svm::key_of("h")).map_err(|e| e.to_string())?;
    *store.get_amount_mut(&AmountKey::OracleMaxAge.to_string()).map_err(|e| e.to_string())? = max_age;
    *store.get_amount_mut(&AmountKey::OracleMaxTimestampRange.to_string()).map_err(|e| e.to_string())? = range;
    *store.get_amount_mut(&AmountKey::OracleMaxFutureTimestampExcess.to_string()).map_err(|e| e.to_string())? = future;
    Ok(store)
}

fn unit(d: &Decimal) -> BigInt {
    b(d.value) * pow10(d.decimal_multiplier as u32)
}

fn check_adjust(c: &AdjustCase, rec: &mut Rec) -> Result<(), String> {
    svm::init();
    svm::set_sysvars(svm::Sysvars::default());
    let price = Price { min: dec(c.min, c.m_min), max: dec(c.max, c.m_max) };
    let reference = c.reference.map(|(v, m)| dec(v, m));
    let factor = c.ratio as u128 * FeedConfig::RATIO_MULTIPLIER;
    let (umin, umax) = (unit(&price.min), unit(&price.max));
    let r: BigInt = match &reference {
        Some(d) => unit(d),
        None => (&umin + &umax) / b(2u8),
    };
    let dev = floor_div(&(&r * b(factor)), &b(UNIT));
    let in_band = |x: &BigInt| (x - &r).abs() <= dev;
    let adjusted = no_panic(|| ohook::try_adjust_price_with_max_deviation_factor(&factor, &price, reference.as_ref()))
        .map_err(|p| format!("adjust panicked: {p}"))?;
    let already_in_band = in_band(&umin) && in_band(&umax);
    rec.class(if reference.is_some() { "explicit_reference" } else { "mid_reference" });
    match &adjusted {
        Some(p) => {
            if already_in_band {
                return Err(format!("a price already inside the band was adjusted: {price:?} -> {p:?}"));
            }
            if p.min.decimal_multiplier != c.m_min || p.max.decimal_multiplier != c.m_max {
                return Err("adjustment changed a decimal multiplier".into());
            }
            let (amin, amax) = (unit(&p.min), unit(&p.max));
            if !in_band(&umax) {
                // clamped from above (or from below when the max itself is under the band)
                if amax > &r + &dev {
                    return Err(format!("adjusted max {amax} is above reference + deviation {}", &r + &dev));
                }
                rec.class("clamped_max");
            } else if amax != umax {
                return Err("in-band max was modified".into());
            }
            if !in_band(&umin) {
                if amin < &r - &dev {
                    return Err(format!("adjusted min {amin} is below reference - deviation {}", &r - &dev));
                }
                rec.class("clamped_min");
            } else if amin != umin {
                return Err("in-band min was modified".into());
            }
            rec.nontrivial();
        }
        None => {
            rec.class_if(already_in_band, "unchanged_in_band");
            rec.class_if(!already_in_band, "out_of_band_not_representable");
        }
    }
    // Composition: whatever leaves the adjustment step must pass the validator's deviation check
    // and the price-map check before it can be used. An accepted price must be in band (up to the
    // documented rounding of the deviation to one precision step) with min <= max.
    let candidate = adjusted.unwrap_or(price);
    let tc = token_config(c.ratio, 0, true, 6, 2, 60, svm::key_of("feed"))?;
    let store = store_with(3600, 3600, 3600)?;
    let now = svm::sysvars().unix_timestamp;
    let mut v = ohook::Validator::new(&store).map_err(|e| e.to_string())?;
    let accepted = no_panic(|| v.validate_one(&tc, &PROVIDER, now, 5, &candidate, reference.as_ref()))
        .map_err(|p| format!("validate_one panicked: {p}"))?
        .is_ok()
        && ohook::small_prices_from_price(&candidate, false, true).is_ok();
    if accepted {
        rec.class("accepted_after_adjustment");
        let (amin, amax) = (unit(&candidate.min), unit(&candidate.max));
        let step = pow10(candidate.max.decimal_multiplier as u32);
        let dev_rounded = ceil_div(&dev, &step) * &step;
        if amin > amax {
            return Err(format!("inverted price accepted: {candidate:?}"));
        }
        if candidate.min.value == 0 {
            return Err("zero min price accepted".into());
        }
        if !dev.is_zero() && ((&amax - &r).abs() > dev_rounded || (&amin - &r).abs() > dev_rounded) {
            return Err(format!("out-of-band price accepted: {candidate:?}, reference {r}, deviation {dev} (rounded {dev_rounded})"));
        }
    } else {
        rec.class("rejected_after_adjustment");
    }
    Ok(())
}

pub fn run_c29(ctx: &mut Ctx) {
    ctx.rule("cases = feed price (min <= max and slightly inverted, equal and different multipliers 0..=20, values incl. 0 and u32::MAX), reference explicit (near the price, own multiplier) or mid, deviation ratio 1..u32::MAX (factor = ratio*1e12); oracle (BigInt, unit prices) = Some(p) => clamped side within reference +- floor(ref*factor), untouched side unchanged, multipliers unchanged, in-band input => None; composition adjust -> validate_one -> SmallPrices::from_price: accepted => min <= max, min > 0 and both bounds within reference +- deviation rounded up to one precision step (the validator's documented rounding); non-trivial = price was adjusted");
    ctx.assume("hooks: states::oracle::verif (feature `verif`); clock sysvar stubbed");
    let n = ctx.cases(100_000, 5_000_000);
    ctx.search("adjust", n, adjust_case, check_adjust);
    ctx.floor("adjust:clamped_max", 2_000);
    ctx.floor("adjust:clamped_min", 2_000);
    ctx.floor("adjust:accepted_after_adjustment", 2_000);
}

// ------------------------------------------------------------------------------------------ C24

#[derive(Debug, Clone, Serialize, Deserialize)]
pub struct TokenPrice {
    pub oracle_ts_off: i64,
    pub slot: u64,
    pub adjustment: u32,
    pub min: u32,
    pub max: u32,
    pub m: u8,
    pub m_max_off: u8,
    pub reference_off: Option<i32>,
    pub ratio: u32,
}

#[derive(Debug, Clone, Serialize, Deserialize)]
pub struct AcceptCase {
    pub now: i64,
    pub max_age: u64,
    pub range: u64,
    pub future: u64,
    pub tokens: Vec<TokenPrice>,
}

fn accept_case() -> impl Strategy<Value = AcceptCase> {
    let token = (
        prop_oneof![6 => -120i64..=30, 1 => -100_000i64..=100_000, 1 => any::<i64>()],
        any::<u64>(),
        prop_oneof![3 => 0u32..=5, 1 => any::<u32>()],
        prop_oneof![6 => 1u32..=10_000_000, 1 => Just(0u32), 1 => any::<u32>()],
        prop_oneof![4 => 0u32..=200, 1 => any::<u32>()],
        0u8..=16,
        prop_oneof![6 => Just(0u8), 1 => 1u8..=2],
        prop_oneof![1 => Just(None), 2 => (-300i32..=300).prop_map(Some)],
        prop_oneof![2 => Just(0u32), 3 => 1u32..=100_000_000],
        any::<bool>(),
    )
        .prop_map(|(oracle_ts_off, slot, adjustment, min, spread, m, m_max_off, reference_off, ratio, inv)| {
            let max = min.saturating_add(spread);
            let (min, max) = if inv && spread > 0 && spread < 10 { (max, min) } else { (min, max) };
            TokenPrice { oracle_ts_off, slot, adjustment, min, max, m, m_max_off, reference_off, ratio }
        });
    (
        prop_oneof![5 => 1_600_000_000i64..=1_900_000_000, 1 => any::<i64>()],
        prop_oneof![4 => 0u64..=120, 1 => any::<u64>()],
        prop_oneof![4 => 0u64..=120, 1 => any::<u64>()],
        prop_oneof![4 => 0u64..=30, 1 => any::<u64>()],
        proptest::collection::vec(token, 1..=4),
    )
        .prop_map(|(now, max_age, range, future, tokens)| AcceptCase { now, max_age, range, future, tokens })
}

fn check_accept(c: &AcceptCase, rec: &mut Rec) -> Result<(), String> {
    svm::init();
    svm::set_sysvars(svm::Sysvars { unix_timestamp: c.now, ..Default::default() });
    let store = store_with(c.max_age, c.range, c.future)?;
    let mut v = ohook::Validator::new(&store).map_err(|e| e.to_string())?;
    let (mut min_ts, mut max_ts, mut min_slot): (Option<i128>, Option<i128>, Option<u64>) = (None, None, None);
    let mut all_ok = true;
    for (i, t) in c.tokens.iter().enumerate() {
        let oracle_ts = c.now.saturating_add(t.oracle_ts_off);
        let price = Price { min: dec(t.min, t.m), max: dec(t.max, (t.m + t.m_max_off).min(20)) };
        let (umin, umax) = (unit(&price.min), unit(&price.max));
        let mid = (&umin + &umax) / b(2u8);
        let reference = t.reference_off.map(|off| {
            let base = (t.min as i64 + t.max as i64) / 2 + off as i64;
            dec(base.clamp(0, u32::MAX as i64) as u32, t.m)
        });
        let tc = token_config(t.ratio, t.adjustment, false, 6, 2, 60, svm::key_of("feed"))?;
        // reference predicate
        let ts_adj = oracle_ts as i128 - t.adjustment as i128;
        let mut reasons: Vec<&'static str> = vec![];
        if ts_adj < i64::MIN as i128 {
            reasons.push("adjusted timestamp underflow");
        }
        let expiration = ts_adj + c.max_age as i128;
        if expiration > i64::MAX as i128 {
            reasons.push("expiration overflow");
        } else if expiration < c.now as i128 {
            reasons.push("too old");
        }
        let future_limit = (c.now as i128 + c.future as i128).min(i64::MAX as i128);
        if future_limit < oracle_ts as i128 {
            reasons.push("too far in the future");
        }
        if t.ratio != 0 {
            let factor = t.ratio as u128 * FeedConfig::RATIO_MULTIPLIER;
            let r = reference.as_ref().map(unit).unwrap_or(mid.clone());
            let dev = floor_div(&(&r * b(factor)), &b(UNIT));
            if dev.is_positive() {
                let step = pow10(price.max.decimal_multiplier as u32);
                let rounded_value = ceil_div(&dev, &step);
                if rounded_value > b(u32::MAX) {
                    reasons.push("deviation not representable");
                } else {
                    let dev_rounded = rounded_value * &step;
                    if (&umax - &r).abs() > dev_rounded || (&umin - &r).abs() > dev_rounded {
                        reasons.push("deviation exceeded");
                    }
                }
            }
        }
        let got = no_panic(|| v.validate_one(&tc, &PROVIDER, oracle_ts, t.slot, &price, reference.as_ref()))
            .map_err(|p| format!("validate_one panicked: {p}"))?;
        match (&got, reasons.is_empty()) {
            (Ok(()), true) => {
                min_ts = Some(min_ts.map_or(ts_adj, |x| x.min(ts_adj)));
                max_ts = Some(max_ts.map_or(ts_adj, |x| x.max(ts_adj)));
                min_slot = Some(min_slot.map_or(t.slot, |x| x.min(t.slot)));
                rec.class("token_accepted");
            }
            (Ok(()), false) => return Err(format!("token {i}: price accepted although: {reasons:?} ({t:?}, now {}, max_age {}, future {})", c.now, c.max_age, c.future)),
            (Err(e), true) => return Err(format!("token {i}: a fresh in-band price was rejected: {e} ({t:?}, now {}, max_age {}, future {})", c.now, c.max_age, c.future)),
            (Err(_), false) => {
                all_ok = false;
                if reasons.len() == 1 {
                    rec.class(match reasons[0] {
                        "too old" => "rejected_only_too_old",
                        "too far in the future" => "rejected_only_future",
                        "deviation exceeded" => "rejected_only_deviation",
                        _ => "rejected_only_other",
                    });
                }
                break;
            }
        }
        // price-map acceptance (shape of the price)
        let shape = ohook::small_prices_from_price(&price, false, true);
        let shape_ok = price.min.decimal_multiplier == price.max.decimal_multiplier && t.min != 0 && t.max >= t.min;
        if shape.is_ok() != shape_ok {
            return Err(format!("token {i}: price shape check = {:?} but 0 < min <= max with equal multipliers is {shape_ok}: {price:?}", shape.is_ok()));
        }
        rec.class_if(!shape_ok, "rejected_shape");
    }
    if all_ok {
        let got = v.finish();
        let range_ok = match (min_ts, max_ts) {
            (Some(a), Some(z)) => (z - a) as u128 <= c.range as u128,
            _ => true,
        };
        match (got, range_ok) {
            (Ok(Some((slot, a, z))), true) => {
                if Some(slot) != min_slot || Some(a as i128) != min_ts || Some(z as i128) != max_ts {
                    return Err(format!("finish returned ({slot},{a},{z}), expected ({min_slot:?},{min_ts:?},{max_ts:?})"));
                }
                rec.class("range_ok");
                rec.nontrivial_if(c.tokens.len() > 1);
            }
            (Ok(None), true) => return Err("finish lost the accepted tokens".into()),
            (Ok(_), false) => return Err(format!("timestamp spread {:?}..{:?} exceeds the allowed range {} but was accepted", min_ts, max_ts, c.range)),
            (Err(e), true) => return Err(format!("timestamp spread within range rejected: {e}")),
            (Err(_), false) => rec.class("rejected_range"),
        }
    } else {
        rec.nontrivial();
    }
    Ok(())
}

pub fn run_c24(ctx: &mut Ctx) {
    ctx.rule("cases = clock, max age, max timestamp range, future excess (small and arbitrary u64) and 1..4 token prices (oracle timestamp offset around the age/future boundaries, slot, per-feed timestamp adjustment, min/max with multipliers, zero and inverted prices, optional explicit reference, deviation ratio); oracle = reference predicate in i128/BigInt over the documented conditions, checked in BOTH directions (accepted <=> predicate) for validate_one, SmallPrices::from_price (0 < min <= max, equal multipliers) and finish (timestamp spread <= range, returns min slot / min ts / max ts); non-trivial = a rejection, or >= 2 accepted tokens reaching the range check");
    ctx.assume("hook-level part: validator driven through states::oracle::verif with a stubbed clock; provider/feed-id matching, heartbeat and the clearing of the oracle after use are exercised on the instruction path (svm-lite) when the W1 world is available");
    let n = ctx.cases(100_000, 5_000_000);
    ctx.search("accept", n, accept_case, check_accept);
    for cl in ["token_accepted", "rejected_only_too_old", "rejected_only_future", "rejected_only_deviation", "rejected_shape", "range_ok", "rejected_range"] {
        ctx.floor(&format!("accept:{cl}"), 500);
    }
}

// ------------------------------------------------------------------------------------------ C25

#[derive(Debug, Clone, Serialize, Deserialize)]
pub struct FeedUpdate {
    pub ts_off: i64,
    pub price: u128,
    pub below: u128,
    pub above: u128,
    pub shape: u8,
    pub slot_delta: i32,
    pub clock_delta: i32,
    pub idempotent: bool,
}

#[derive(Debug, Clone, Serialize, Deserialize)]
pub struct FeedCase {
    pub future_excess: u64,
    pub updates: Vec<FeedUpdate>,
}

fn feed_case() -> impl Strategy<Value = FeedCase> {
    let upd = (
        prop_oneof![5 => -30i64..=30, 1 => -10_000i64..=10_000, 1 => any::<i64>()],
        prop_oneof![5 => 1u128..=10u128.pow(20), 1 => any::<u128>(), 1 => Just(0u128)],
        0u128..=1000,
        0u128..=1000,
        0u8..8,
        prop_oneof![6 => 0i32..=5, 1 => -3i32..=-1],
        prop_oneof![6 => 0i32..=20, 1 => -20i32..=-1],
        any::<bool>(),
    )
        .prop_map(|(ts_off, price, below, above, shape, slot_delta, clock_delta, idempotent)| FeedUpdate { ts_off, price, below, above, shape, slot_delta, clock_delta, idempotent });
    (prop_oneof![3 => 0u64..=30, 1 => any::<u64>()], proptest::collection::vec(upd, 1..16)).prop_map(|(future_excess, updates)| FeedCase { future_excess, updates })
}

fn check_feed(c: &FeedCase, rec: &mut Rec) -> Result<(), String> {
    svm::init();
    let mut sys = svm::Sysvars::default();
    svm::set_sysvars(sys);
    let mut feed = PriceFeed::default();
    hook::price_feed_init(&mut feed, 255, 0, PROVIDER, &svm::key_of("s"), &svm::key_of("a"), &svm::key_of("t"), &svm::key_of("f")).map_err(|e| e.to_string())?;
    // model: last accepted price timestamp and publication slot/time
    let mut last_ts: i64 = feed.price().ts();
    let (mut last_slot, mut last_at) = (0u64, 0i64);
    let (mut saw_older_strict, mut saw_older_idem) = (false, false);
    for (i, u) in c.updates.iter().enumerate() {
        sys.slot = (sys.slot as i64 + u.slot_delta as i64).max(0) as u64;
        sys.unix_timestamp = sys.unix_timestamp.saturating_add(u.clock_delta as i64);
        svm::set_sysvars(sys);
        let ts = sys.unix_timestamp.saturating_add(u.ts_off);
        let (min, mid, max) = match u.shape {
            0 => (u.price.saturating_add(1 + u.below), u.price, u.price.saturating_add(u.above)), // min > price
            1 => (u.price.saturating_sub(u.below), u.price, u.price.saturating_sub(1 + u.above)), // max < price
            _ => (u.price.saturating_sub(u.below), u.price, u.price.saturating_add(u.above)),
        };
        let p = PriceFeedPrice::new(8, ts, mid, min, max, 0);
        let before = bytemuck::bytes_of(&feed).to_vec();
        let got = no_panic(|| hook::price_feed_update(&mut feed, &p, c.future_excess, u.idempotent)).map_err(|e| format!("update {i} panicked: {e}"))?;
        let time_ok = sys.slot >= last_slot && sys.unix_timestamp >= last_at;
        let older = ts < last_ts;
        let future_ok = (sys.unix_timestamp as i128 + c.future_excess as i128).min(i64::MAX as i128) >= ts as i128;
        let shape_ok = max >= min && max >= mid && mid >= min;
        let expected: Result<bool, ()> = if !time_ok {
            Err(())
        } else if older {
            if u.idempotent { Ok(false) } else { Err(()) }
        } else if future_ok && shape_ok {
            Ok(true)
        } else {
            Err(())
        };
        saw_older_strict |= time_ok && older && !u.idempotent;
        saw_older_idem |= time_ok && older && u.idempotent;
        match (&got, &expected) {
            (Ok(true), Ok(true)) => {
                last_ts = ts;
                last_slot = sys.slot;
                last_at = sys.unix_timestamp;
                rec.class("accepted");
            }
            (Ok(false), Ok(false)) => {
                if bytemuck::bytes_of(&feed) != &before[..] {
                    return Err(format!("update {i}: skipped (idempotent, older) update changed the feed"));
                }
                rec.class("skipped_idempotent");
            }
            (Err(_), Err(())) => {
                if bytemuck::bytes_of(&feed) != &before[..] {
                    return Err(format!("update {i}: rejected update changed the feed"));
                }
                rec.class("rejected");
            }
            _ => return Err(format!("update {i}: got {:?}, expected {expected:?} (ts {ts}, last {last_ts}, idempotent {}, time_ok {time_ok}, future_ok {future_ok}, shape_ok {shape_ok})", got.as_ref().map_err(|e| e.to_string()), u.idempotent)),
        }
        // invariants of the stored feed
        let stored = feed.price();
        if stored.ts() != last_ts {
            return Err(format!("update {i}: stored price timestamp {} != last accepted {last_ts}", stored.ts()));
        }
        if !(stored.min_price() <= stored.price() && stored.price() <= stored.max_price()) {
            return Err(format!("update {i}: stored price violates min <= price <= max"));
        }
    }
    rec.class_if(saw_older_strict, "older_update_strict");
    rec.class_if(saw_older_idem, "older_update_idempotent");
    rec.nontrivial_if(saw_older_strict || saw_older_idem);
    svm::set_sysvars(svm::Sysvars::default());
    Ok(())
}

pub fn run_c25(ctx: &mut Ctx) {
    ctx.rule("cases = 1..15 updates of one custom price feed: price timestamp offset from the clock (incl. far past/future), price with min/max around it (valid, min > price, max < price), slot and clock deltas (incl. regressions), idempotent flag; oracle = model keeping the last accepted timestamp/slot/time: accepted iff clock and slot did not regress, timestamp not older than the last accepted one, not beyond clock + future excess, and min <= price <= max; idempotent and older => Ok(false) with unchanged bytes; any rejection leaves the bytes unchanged; stored timestamp never decreases; non-trivial = sequence contains an older update");
    ctx.assume("PriceFeed::update driven through the `verif` hook with a stubbed clock; the instruction path (update_price_feed_with_chainlink through the mock verifier CPI) is the search `feed_ix`");
    let n = ctx.cases(60_000, 3_000_000);
    ctx.search("feed", n, feed_case, check_feed);
    ctx.floor("feed:older_update_strict", 2_000);
    ctx.floor("feed:older_update_idempotent", 2_000);
    ctx.floor("feed:accepted", 10_000);
}
