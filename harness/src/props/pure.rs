//! Pure-function model checks: C02 fees, C03 price impact, C11 pnl, C12 funding rate, C14 impact
//! distribution. All on the u128 / 20-decimals instantiation with BigInt oracles.

use crate::engine::{Ctx, Rec};
use crate::gens::*;
use crate::mgen::*;
use crate::refmath::*;
use crate::vmarket::{VPool, VPositionOps};
use gmsol_model::{
    action::update_funding_state::UpdateFundingState,
    params::{FeeParams, PriceImpactParams},
    pool::delta::{BalanceChange, PoolDelta},
    price::Price,
    PositionExt, PositionImpactMarketExt, SwapMarketExt,
};
use num_bigint::BigInt;
use num_traits::{Signed, Zero};
use proptest::prelude::*;
use serde::{Deserialize, Serialize};

// ---------------------------------------------------------------------------------------------
// C02
// ---------------------------------------------------------------------------------------------

#[derive(Debug, Clone, Serialize, Deserialize)]
pub struct FeeCase {
    pub amount: u128,
    pub pos: u128,
    pub neg: u128,
    pub recv: u128,
    pub discount: Option<u128>,
    pub change: u8,
    pub price_min: u128,
    pub price_spread: u128,
    pub liq_factor: u128,
    pub liq_recv: u128,
}

fn fee_case() -> impl Strategy<Value = FeeCase> {
    (
        prop_oneof![4 => u128_mix(), 4 => 0u128..=10u128.pow(30), 2 => 0u128..=1000],
        factor_u128(UNIT),
        factor_u128(UNIT),
        factor_u128(UNIT),
        prop_oneof![2 => Just(None), 3 => factor_u128(UNIT).prop_map(Some)],
        0u8..3,
        prop_oneof![1 => Just(1u128), 3 => 1u128..=10u128.pow(16), 1 => Just(0u128)],
        0u128..=1000,
        factor_u128(UNIT),
        factor_u128(UNIT),
    )
        .prop_map(|(amount, pos, neg, recv, discount, change, price_min, price_spread, liq_factor, liq_recv)| FeeCase {
            amount, pos, neg, recv, discount, change, price_min, price_spread, liq_factor, liq_recv,
        })
}

fn change_of(c: u8) -> BalanceChange {
    match c % 3 {
        0 => BalanceChange::Improved,
        1 => BalanceChange::Worsened,
        _ => BalanceChange::Unchanged,
    }
}

fn fee_params(c: &FeeCase, with_discount: bool) -> FeeParams<u128> {
    let p = FeeParams::builder()
        .positive_impact_fee_factor(c.pos)
        .negative_impact_fee_factor(c.neg)
        .fee_receiver_factor(c.recv)
        .build();
    match (with_discount, c.discount) {
        (true, Some(d)) => p.with_discount_factor(d),
        _ => p,
    }
}

fn check_fee(c: &FeeCase, rec: &mut Rec) -> Result<(), String> {
    let change = change_of(c.change);
    let f = if c.change % 3 == 0 { c.pos } else { c.neg };
    let d = c.discount.unwrap_or(0);
    let all_valid = f <= UNIT && c.recv <= UNIT && d <= UNIT;
    rec.class(if all_valid { "valid_factors" } else { "invalid_factor" });
    let unit = b(UNIT);
    let gross = floor_div(&(b(c.amount) * b(f)), &unit);
    let exact_fee = &gross - floor_div(&(&gross * b(d)), &unit);
    let params = fee_params(c, true);

    // fee()
    let fee = params.fee::<20>(change, &c.amount);
    if all_valid {
        match fee {
            Some(x) if b(x) == exact_fee => {}
            other => return Err(format!("fee = {other:?}, exact {exact_fee}")),
        }
    } else if let Some(x) = fee {
        // when it does not fail it must still be the documented formula
        if b(x) != exact_fee {
            return Err(format!("fee with invalid factor = {x}, formula gives {exact_fee}"));
        }
    }
    // a discount never raises the fee
    if let (Some(with), Some(without)) = (fee, fee_params(c, false).fee::<20>(change, &c.amount)) {
        if with > without {
            return Err(format!("discount raised the fee: {with} > {without}"));
        }
    }

    // apply_fees()
    match params.apply_fees::<20>(change, &c.amount) {
        Some((net, fees)) => {
            let pool = *fees.fee_amount_for_pool();
            let recv = *fees.fee_amount_for_receiver();
            if b(net) + b(pool) + b(recv) != b(c.amount) {
                return Err(format!("split does not add up: net {net} + pool {pool} + receiver {recv} != amount {}", c.amount));
            }
            let total = b(pool) + b(recv);
            if total > b(c.amount) {
                return Err(format!("fee {total} exceeds the gross amount {}", c.amount));
            }
            if total != exact_fee {
                return Err(format!("fee charged {total}, formula {exact_fee}"));
            }
            let exact_recv = floor_div(&(&exact_fee * b(c.recv)), &unit);
            if b(recv) != exact_recv {
                return Err(format!("receiver share {recv}, exact {exact_recv}"));
            }
            rec.nontrivial_if(total.is_positive() && recv > 0 && d > 0);
            rec.class_if(!all_valid, "invalid_but_computed");
        }
        None => {
            if all_valid {
                return Err(format!("apply_fees failed with valid factors (amount {}, f {f}, recv {}, d {d})", c.amount, c.recv));
            }
            rec.class("invalid_rejected");
            rec.nontrivial();
        }
    }

    // order fees
    let price = Price { min: c.price_min, max: c.price_min.saturating_add(c.price_spread) };
    let size = c.amount;
    match params.base_position_fees::<20>(&price, &size, change) {
        Ok(pf) => {
            if c.price_min == 0 {
                return Err("order fees computed with a zero collateral price".into());
            }
            let of = pf.order_fees();
            if b(*of.fee_value()) != exact_fee {
                return Err(format!("order fee value {}, exact {exact_fee}", of.fee_value()));
            }
            let amount = floor_div(&exact_fee, &b(c.price_min));
            let (pool, recv) = (*of.fee_amounts().fee_amount_for_pool(), *of.fee_amounts().fee_amount_for_receiver());
            if b(pool) + b(recv) != amount {
                return Err(format!("order fee amounts {pool}+{recv} != floor(fee_value/price.min) = {amount}"));
            }
            if b(recv) != floor_div(&(&amount * b(c.recv)), &unit) {
                return Err(format!("order receiver fee {recv} is not floor(fee_amount*receiver_factor)"));
            }
            if pf.paid_order_and_borrowing_fee_value() != of.fee_value() {
                return Err("paid order fee value differs from the order fee value".into());
            }
            rec.class("order_fees_ok");
        }
        Err(_) => {
            if all_valid && c.price_min != 0 {
                return Err("order fees failed with valid factors and a non-zero price".into());
            }
        }
    }

    // liquidation fee through the public position API
    if c.price_min != 0 && c.amount <= 10u128.pow(32) {
        let mut cfg = CfgSpec::default();
        cfg.liquidation_fee = (c.liq_factor, c.liq_recv);
        cfg.order_fee = (0, 0, 0);
        let mut m = cfg.market();
        let mut pos = Pos::new(true, true);
        let ops = VPositionOps::new(&mut m, &mut pos);
        match ops.position_fees(&price, &size, change, true) {
            Ok(pf) => {
                let lf = pf.liquidation_fees().ok_or("liquidation fees missing for a liquidation")?;
                let value = floor_div(&(b(size) * b(c.liq_factor)), &unit);
                let amount = if c.liq_factor == 0 { zero() } else { ceil_div(&value, &b(c.price_min)) };
                if b(*lf.fee_value()) != value && c.liq_factor != 0 {
                    return Err(format!("liquidation fee value {}, exact {value}", lf.fee_value()));
                }
                if b(*lf.fee_amount()) != amount {
                    return Err(format!("liquidation fee amount {} is not ceil(fee_value/price.min) = {amount}", lf.fee_amount()));
                }
                let recv = *lf.fee_amount_for_receiver();
                if c.liq_factor != 0 && b(recv) != floor_div(&(&amount * b(c.liq_recv)), &unit) {
                    return Err(format!("liquidation receiver fee {recv} is not floor(amount*receiver_factor)"));
                }
                if c.liq_recv <= UNIT && b(recv) > amount {
                    return Err("liquidation receiver fee exceeds the fee".into());
                }
                rec.class_if(!amount.is_zero(), "liquidation_fee_positive");
                // split identity of the whole position fee: pool share + receiver share == total cost
                // (order + borrowing + liquidation fee, funding excluded)
                if c.liq_factor <= UNIT && c.liq_recv <= UNIT {
                    if let (Ok(pool), Ok(recv_total), Ok(total)) = (pf.for_pool::<20>(), pf.for_receiver(), pf.total_cost_excluding_funding()) {
                        if b(pool) + b(recv_total) != b(total) {
                            return Err(format!("position fees of a liquidation: pool share {pool} + receiver share {recv_total} != total cost excluding funding {total}"));
                        }
                        rec.class_if(recv != 0, "liquidation_split_with_receiver_share");
                    }
                }
            }
            Err(_) => {
                if c.liq_factor <= UNIT && c.liq_recv <= UNIT {
                    return Err("liquidation fee failed with valid factors".into());
                }
            }
        }
    }
    Ok(())
}

pub fn run_c02(ctx: &mut Ctx) {
    ctx.rule("cases = amount (u128 mixture) x positive/negative fee factor x receiver factor x optional discount, each from {0, tiny, <=100%, exactly 100%, 100%+1, >100%, MAX} x balance change x collateral price (min=1, spread) x liquidation factors; oracle = BigInt formulas fee = floor(a*f) - floor(floor(a*f)*d), receiver = floor(fee*rf), split identity net+pool+receiver == amount, order fee amount = floor(value/price.min), liquidation amount = ceil(value/price.min), position fees of a liquidation: pool share + receiver share == total cost excluding funding; valid factors must succeed, invalid ones must fail or still satisfy the identity; non-trivial = positive fee with positive receiver share and discount, or an invalid factor that is rejected");
    ctx.assume("u128 / 20 decimals instantiation; liquidation fee reached through PositionExt::position_fees(.., is_liquidation = true)");
    let n = ctx.cases(300_000, 12_000_000);
    ctx.search("fees", n, fee_case, check_fee);
    ctx.floor("fees:valid_factors", 10_000);
    ctx.floor("fees:invalid_rejected", 1_000);
    ctx.floor("fees:liquidation_fee_positive", 1_000);
    ctx.floor("fees:liquidation_split_with_receiver_share", 500);
}

// ---------------------------------------------------------------------------------------------
// C03
// ---------------------------------------------------------------------------------------------

#[derive(Debug, Clone, Serialize, Deserialize)]
pub struct ImpactCase {
    pub pool: (u128, u128),
    pub prices: (u128, u128),
    /// signed USD deltas (long, short) in raw value units
    pub delta: (i128, i128),
    pub exponent: u8,
    pub pos: u128,
    pub neg: u128,
    pub vi: Option<(u128, u128)>,
    pub by_amounts: bool,
}

fn impact_case() -> impl Strategy<Value = ImpactCase> {
    // values in USD raw units: up to 1e9 USD = 1e29
    let usd = || prop_oneof![3 => 0u128..=10u128.pow(29), 2 => 0u128..=10u128.pow(23), 1 => Just(0u128), 1 => (UNIT - 3)..=(UNIT + 3)];
    (
        (usd(), usd()),
        prop_oneof![Just((1u128, 1u128)), (1u128..=10u128.pow(6), 1u128..=10u128.pow(6))],
        0u8..6,
        (0u16..=u16::MAX, 0u16..=u16::MAX),
        1u8..=3,
        prop_oneof![3 => 0u128..=10u128.pow(13), 1 => 0u128..=UNIT / 100, 1 => Just(0u128)],
        prop_oneof![3 => 0u128..=10u128.pow(13), 1 => 0u128..=UNIT / 100, 1 => Just(0u128)],
        prop_oneof![3 => Just(None), 2 => (usd(), usd()).prop_map(Some)],
        any::<bool>(),
    )
        .prop_map(|(pool, prices, shape, (fa, fb), exponent, pos, neg, vi, by_amounts)| {
            // Deltas are constructed from the pool so that same-side and cross-over rebalances are
            // both common: a fraction of the current difference (possibly overshooting), a swap-like
            // opposite pair, or a one-sided deposit/withdrawal.
            let (l, s) = (pool.0 as i128, pool.1 as i128);
            let diff = (l - s).abs().max(1);
            let frac = |x: i128, f: u16| -> i128 { x / 65_536 * (f as i128) + (x % 65_536) * (f as i128) / 65_536 };
            let toward = if l > s { -1 } else { 1 };
            let delta = match shape {
                0 => (toward * frac(diff, fa) / 2, -toward * frac(diff, fa) / 2),          // swap toward balance, same side
                1 => (toward * frac(diff * 2, fa), -toward * frac(diff * 2, fa)),          // swap, may cross over
                2 => (-toward * frac(l.max(s) / 2 + 1, fa), toward * frac(l.max(s) / 2 + 1, fa)), // worsening swap
                3 => (frac(l.max(s) + 1, fa), 0),                                          // deposit long
                4 => (0, frac(l.max(s) + 1, fb)),                                          // deposit short
                _ => (-frac(l, fa), -frac(s, fb)),                                         // withdrawal
            };
            let clamp = |d: i128, p: i128| d.max(-p);
            ImpactCase { pool, prices, delta: (clamp(delta.0, l), clamp(delta.1, s)), exponent, pos, neg, vi, by_amounts }
        })
}

/// Reference `A * x^E` with whole-unit exponent 1..=3 (floors as the documented fixed-point ops).
fn ref_apply_factors(x: &BigInt, factor: u128, exponent: u8) -> BigInt {
    let unit = b(UNIT);
    let powed = if *x < unit {
        zero()
    } else if *x == unit {
        unit.clone()
    } else {
        let mut acc = unit.clone();
        for _ in 0..exponent {
            acc = floor_div(&(&acc * x), &unit);
        }
        acc
    };
    floor_div(&(powed * b(factor)), &unit)
}

struct RefImpact {
    value: BigInt,
    same_side: bool,
    improved: bool,
    worsened: bool,
}

fn ref_impact(cur: (&BigInt, &BigInt), next: (&BigInt, &BigInt), pos: u128, neg: u128, e: u8) -> RefImpact {
    let d0 = (cur.0 - cur.1).abs();
    let d1 = (next.0 - next.1).abs();
    let same_side = (cur.0 <= cur.1) == (next.0 <= next.1);
    let fpos = pos.min(neg);
    let value = if same_side {
        let positive = d1 < d0;
        let f = if positive { fpos } else { neg };
        let a = ref_apply_factors(&d0, f, e);
        let c = ref_apply_factors(&d1, f, e);
        let mag = (&a - &c).abs();
        if positive { mag } else { -mag }
    } else {
        ref_apply_factors(&d0, fpos, e) - ref_apply_factors(&d1, neg, e)
    };
    RefImpact { value, same_side, improved: d1 < d0, worsened: d1 > d0 }
}

fn check_impact(c: &ImpactCase, rec: &mut Rec, kf1_open: bool, kf2_open: bool) -> Result<(), String> {
    let pool = VPool { long_amount: c.pool.0, short_amount: c.pool.1 };
    let params = PriceImpactParams::builder()
        .exponent(c.exponent as u128 * UNIT)
        .positive_factor(c.pos)
        .negative_factor(c.neg)
        .build();
    // Pool amounts are treated as USD values (price one) unless `by_amounts`, in which case the
    // amounts are divided by the prices first so that values stay in range.
    let (pl, ps) = if c.by_amounts { c.prices } else { (1, 1) };
    let pool = if c.by_amounts { VPool { long_amount: c.pool.0 / pl, short_amount: c.pool.1 / ps } } else { pool };
    let cur = (b(pool.long_amount) * b(pl), b(pool.short_amount) * b(ps));
    let (dl, ds) = if c.by_amounts {
        let (al, as_) = (c.delta.0 / pl as i128, c.delta.1 / ps as i128);
        let al = al.max(-(pool.long_amount as i128));
        let as_ = as_.max(-(pool.short_amount as i128));
        (al * pl as i128, as_ * ps as i128)
    } else {
        c.delta
    };
    let delta = if c.by_amounts {
        PoolDelta::try_from_delta_amounts(&pool, &(dl / pl as i128), &(ds / ps as i128), &pl, &ps)
    } else {
        PoolDelta::try_new(&pool, dl, ds, &pl, &ps)
    };
    let delta = match delta {
        Ok(d) => d,
        Err(_) => {
            rec.class("delta_rejected");
            return Ok(());
        }
    };
    let next = (&cur.0 + b(dl), &cur.1 + b(ds));
    let r = ref_impact((&cur.0, &cur.1), (&next.0, &next.1), c.pos, c.neg, c.exponent);
    let got = match delta.price_impact::<20>(&params) {
        Ok(g) => g,
        Err(e) => {
            rec.class("impact_error");
            // only arithmetic overflow of x^E may fail
            if c.exponent == 1 {
                return Err(format!("price impact failed with exponent 1: {e}"));
            }
            return Ok(());
        }
    };
    rec.class(match (r.same_side, r.improved, r.worsened) {
        (true, true, _) => "same_side_improved",
        (true, _, true) => "same_side_worsened",
        (false, true, _) => "cross_over_improved",
        (false, _, true) => "cross_over_worsened",
        _ => "unchanged",
    });
    // (b) value equals the reference formula
    if b(got.value) != r.value {
        return Err(format!("impact value {} differs from the reference formula {}", got.value, r.value));
    }
    match got.balance_change {
        BalanceChange::Improved if !r.improved => return Err("balance change reported Improved".into()),
        BalanceChange::Worsened if !r.worsened => return Err("balance change reported Worsened".into()),
        BalanceChange::Unchanged if r.improved || r.worsened => return Err("balance change reported Unchanged".into()),
        _ => {}
    }
    // (a) direction
    if (r.worsened || (!r.improved && !r.worsened)) && got.value > 0 {
        return Err(format!("a change that does not improve the balance received positive impact {}", got.value));
    }
    if r.improved && got.value < 0 {
        if r.same_side {
            return Err(format!("a same-side improvement received negative impact {}", got.value));
        }
        // KF-C03-1: cross-over rebalance that improves the balance can get a negative impact when
        // the positive factor is below the negative one (GMX formula f+ * d0^e - f- * d1^e).
        if kf1_open {
            rec.excluded("KF-C03-1");
        } else {
            return Err(format!("cross-over improvement received negative impact {} (unlisted)", got.value));
        }
    }
    rec.nontrivial_if(!r.value.is_zero() && c.pool.0 > 0 && c.pool.1 > 0);

    // (c) round trip A -> B -> A
    let next_pool = VPool {
        long_amount: (next.0.clone() / b(pl)).to_string().parse::<u128>().unwrap_or(0),
        short_amount: (next.1.clone() / b(ps)).to_string().parse::<u128>().unwrap_or(0),
    };
    if !c.by_amounts {
        if let Ok(back) = PoolDelta::try_new(&next_pool, -dl, -ds, &pl, &ps) {
            if let Ok(back_impact) = back.price_impact::<20>(&params) {
                let total = b(got.value) + b(back_impact.value);
                if total.is_positive() {
                    // KF-C03-2: each of the four floored terms loses < 1 raw unit (1e-20 USD).
                    if total <= b(8u8) && kf2_open {
                        rec.excluded("KF-C03-2");
                    } else {
                        return Err(format!("round trip yields positive total impact {total} (forward {}, back {})", got.value, back_impact.value));
                    }
                }
                rec.class("round_trip_checked");
            }
        }
    }

    // (d) virtual inventory: the worse of the two when the real impact is negative
    if let Some(vi) = c.vi {
        let mut cfg = CfgSpec::default();
        cfg.swap_impact = (c.exponent as u128 * UNIT, c.pos, c.neg);
        cfg.vi_swaps = Some(vi);
        let mut m = cfg.market();
        m.primary = pool;
        if let Ok(with) = m.swap_impact_value(&delta, true) {
            let vcur = (b(vi.0) * b(pl), b(vi.1) * b(ps));
            let vnext = (&vcur.0 + b(dl), &vcur.1 + b(ds));
            let expected = if r.value.is_negative() && !vnext.0.is_negative() && !vnext.1.is_negative() {
                let vr = ref_impact((&vcur.0, &vcur.1), (&vnext.0, &vnext.1), c.pos, c.neg, c.exponent);
                rec.class("virtual_inventory_consulted");
                if vr.value < r.value { vr.value } else { r.value.clone() }
            } else {
                r.value.clone()
            };
            if b(with.value) != expected && !(r.value.is_negative() && (vnext.0.is_negative() || vnext.1.is_negative())) {
                return Err(format!("impact with virtual inventory {} != min(real, virtual) = {expected}", with.value));
            }
        }
    }
    Ok(())
}

pub fn run_c03(ctx: &mut Ctx) {
    ctx.rule("cases = pool USD values (0 .. 1e9 USD, around 1 USD, empty sides), deltas constructed from the pool difference so that same-side and cross-over rebalances, deposits, withdrawals and worsening swaps each are common, exponent in {1,2,3} units, positive factor <,=,> negative factor, optional virtual inventory; oracle = BigInt reference formula (same-side +-(f*d0^e - f*d1^e), cross-over f+*d0^e - f-*d1^e, f+ := min(f+,f-), each term floored), sign rules, round-trip total <= 0, min(real, virtual) when real < 0; non-trivial = non-zero impact with both pool sides non-empty");
    let kf1 = ctx.finding_open("KF-C03-1");
    let kf2 = ctx.finding_open("KF-C03-2");
    // witnesses of the known findings
    {
        let w1 = ImpactCase { pool: (100 * UNIT, 0), prices: (1, 1), delta: (-(95 * UNIT as i128), 95 * UNIT as i128), exponent: 1, pos: UNIT / 10, neg: UNIT, vi: None, by_amounts: false };
        let mut rec = Rec::default();
        let r = check_impact(&w1, &mut rec, false, true);
        ctx.known_witness("KF-C03-1", r.is_err(), "cross-over rebalance that improves the balance (pool (100,0) USD, delta (-95,+95), f+=0.1, f-=1, exponent 1) receives negative impact -80 USD");
        let w2 = ImpactCase { pool: (UNIT + 6, 0), prices: (1, 1), delta: (-1, 0), exponent: 1, pos: UNIT / 2, neg: UNIT * 6 / 10, vi: None, by_amounts: false };
        let mut rec = Rec::default();
        let r = check_impact(&w2, &mut rec, true, false);
        ctx.known_witness("KF-C03-2", r.is_err(), "same-side round trip 1e20+6 -> 1e20+5 -> 1e20+6 raw USD (f+=0.5, f-=0.6, exponent 1) totals +1 raw unit (1e-20 USD) from flooring");
    }
    let n = ctx.cases(200_000, 10_000_000);
    ctx.search("impact", n, impact_case, move |c, rec| check_impact(c, rec, kf1, kf2));
    for cl in ["same_side_improved", "same_side_worsened", "cross_over_improved", "cross_over_worsened"] {
        ctx.floor(&format!("impact:{cl}"), 2_000);
    }
    ctx.floor("impact:round_trip_checked", 10_000);
}

// ---------------------------------------------------------------------------------------------
// C14
// ---------------------------------------------------------------------------------------------

#[derive(Debug, Clone, Serialize, Deserialize)]
pub struct DistCase {
    pub pool: u128,
    pub min: u128,
    pub rate: u128,
    pub durations: Vec<u64>,
}

fn dist_case() -> impl Strategy<Value = DistCase> {
    (
        prop_oneof![3 => 0u128..=10u128.pow(15), 1 => u128_mix()],
        prop_oneof![3 => 0u128..=10u128.pow(15), 1 => Just(0u128), 1 => u128_mix()],
        prop_oneof![1 => Just(0u128), 3 => 0u128..=(100 * UNIT), 1 => 0u128..=1000, 1 => u128_mix()],
        proptest::collection::vec(prop_oneof![3 => 0u64..=86_400, 1 => Just(0u64), 1 => Just(1u64 << 63), 1 => any::<u64>()], 1..6),
    )
        .prop_map(|(pool, min, rate, durations)| DistCase { pool, min, rate, durations })
}

fn check_dist(c: &DistCase, rec: &mut Rec) -> Result<(), String> {
    use gmsol_model::{MarketAction, PositionImpactMarketMutExt};
    let mut cfg = CfgSpec::default();
    cfg.distribution = (c.rate, c.min);
    let mut m = cfg.market();
    m.position_impact = VPool { long_amount: c.pool, short_amount: 0 };
    let started_above = c.pool > c.min;
    for (i, dur) in c.durations.iter().enumerate() {
        let cur = m.position_impact.long_amount;
        let expected = if c.rate == 0 || cur <= c.min {
            zero()
        } else {
            crate::refmath::min(floor_div(&(b(*dur) * b(c.rate)), &b(UNIT)), b(cur) - b(c.min))
        };
        match m.pending_position_impact_pool_distribution_amount(*dur) {
            Ok((dist, next)) => {
                if b(dist) != expected {
                    return Err(format!("round {i}: distribution {dist} != min(floor(dur*rate), pool-min) = {expected}"));
                }
                if b(next) != b(cur) - &expected {
                    return Err(format!("round {i}: next amount {next} != pool - distributed"));
                }
                rec.class_if(!expected.is_zero() && expected == b(cur) - b(c.min), "cap_binding");
                rec.class_if(!expected.is_zero() && expected < b(cur) - b(c.min), "cap_not_binding");
            }
            Err(e) => {
                // only overflow of dur*rate beyond u128 may fail
                if floor_div(&(b(*dur) * b(c.rate)), &b(UNIT)) <= b(u128::MAX) {
                    return Err(format!("round {i}: pending distribution failed: {e}"));
                }
                rec.class("overflow_rejected");
                continue;
            }
        }
        // execute through the action with the clock (skip when the harness clock would overflow)
        if m.now.checked_add(*dur).is_none() {
            rec.class("clock_overflow_skipped");
            continue;
        }
        m.advance(*dur);
        match m.distribute_position_impact().and_then(|a| a.execute()) {
            Ok(report) => {
                let after = m.position_impact.long_amount;
                if b(after) != b(cur) - &expected || after > cur {
                    return Err(format!("round {i}: pool went {cur} -> {after}, expected decrease {expected}"));
                }
                if b(*report.distribution_amount()) != expected {
                    return Err(format!("round {i}: report distribution {} != {expected}", report.distribution_amount()));
                }
                if started_above && after < c.min {
                    return Err(format!("round {i}: pool fell below the minimum: {after} < {}", c.min));
                }
            }
            Err(e) => return Err(format!("round {i}: distribute action failed: {e}")),
        }
    }
    rec.nontrivial_if(c.rate > 0 && started_above);
    Ok(())
}

pub fn run_c14(ctx: &mut Ctx) {
    ctx.rule("cases = pool amount, minimum, distribution rate (0, tiny, up to 100 units/s, u128 mixture) and 1..5 successive durations incl. 0, 2^63 and arbitrary u64; oracle = distributed == min(floor(dur*rate/UNIT), max(0, pool-min)) when rate>0 and pool>min else 0, next == pool - distributed, never below min if started above, both through the pending-amount function and the clocked action; non-trivial = rate>0 and pool>min");
    let n = ctx.cases(200_000, 10_000_000);
    ctx.search("distribution", n, dist_case, check_dist);
    ctx.floor("distribution:cap_binding", 1_000);
    ctx.floor("distribution:cap_not_binding", 1_000);
}

// ---------------------------------------------------------------------------------------------
// C12 (rate part; the index part lives in perp histories)
// ---------------------------------------------------------------------------------------------

#[derive(Debug, Clone, Serialize, Deserialize)]
pub struct FundingCase {
    pub long_oi: u128,
    pub short_oi: u128,
    pub stored: i128,
    pub duration: u64,
    pub spec: FundingSpec,
}

fn funding_case() -> impl Strategy<Value = FundingCase> {
    let oi = || prop_oneof![4 => 1u128..=10u128.pow(28), 1 => Just(0u128), 1 => 1u128..=1000, 1 => Just(10u128.pow(26))];
    (
        oi(),
        oi(),
        0u8..4,
        prop_oneof![2 => -2_000_000_000_000i128..=2_000_000_000_000, 1 => Just(0i128), 1 => -10i128..=10],
        prop_oneof![3 => 0u64..=86_400, 1 => Just(0u64), 1 => 0u64..=10_000_000],
        (
            prop_oneof![Just(UNIT), Just(2 * UNIT)],
            prop_oneof![2 => Just(2_000_000_000_000u128), 1 => 0u128..=10u128.pow(15)],
            prop_oneof![2 => Just(0u128), 2 => Just(790_000_000u128), 1 => 1u128..=10u128.pow(12)],
            prop_oneof![2 => Just(0u128), 1 => 0u128..=10u128.pow(10)],
            prop_oneof![2 => Just(1_000_000_000_000u128), 1 => 0u128..=10u128.pow(13), 1 => Just(0u128)],
            prop_oneof![2 => Just(30_000_000_000u128), 1 => 0u128..=10u128.pow(13), 1 => Just(0u128)],
            prop_oneof![Just(bp(500)), 0u128..=UNIT],
            prop_oneof![Just(0u128), 0u128..=UNIT],
        ),
    )
        .prop_map(|(l, s, eq, stored, duration, (exponent, factor, increase, decrease, max, min, ts, td))| {
            let short_oi = if eq == 0 { l } else { s };
            FundingCase {
                long_oi: l,
                short_oi,
                stored,
                duration,
                spec: FundingSpec { exponent, factor, increase, decrease, max, min, threshold_stable: ts, threshold_decrease: td },
            }
        })
}

fn check_funding_rate(c: &FundingCase, rec: &mut Rec, kf_open: bool) -> Result<(), String> {
    let mut cfg = CfgSpec::default();
    cfg.funding = c.spec.clone();
    let mut m = cfg.market();
    m.funding_factor_per_second = c.stored;
    let prices = PricesSpec::flat(10u128.pow(13), 10u128.pow(13), 10u128.pow(14)).to_prices();
    let action = UpdateFundingState::try_new(&mut m, &prices).map_err(|e| e.to_string())?;
    let both = c.long_oi > 0 && c.short_oi > 0;
    let adaptive = c.spec.increase > 0;
    rec.class(if adaptive { "adaptive" } else { "non_adaptive" });
    rec.class_if(both, "both_sides_open");
    match action.next_funding_factor_per_second(c.duration, &c.long_oi, &c.short_oi) {
        Ok((mag, longs_pay, stored_next)) => {
            if !both {
                return Ok(());
            }
            rec.nontrivial_if(c.duration > 0);
            if mag > c.spec.max {
                return Err(format!("funding rate magnitude {mag} exceeds the maximum {}", c.spec.max));
            }
            if b(stored_next).abs() > b(c.spec.max) {
                return Err(format!("stored next funding factor {stored_next} exceeds the maximum {}", c.spec.max));
            }
            if adaptive {
                if mag < c.spec.min {
                    return Err(format!("adaptive funding rate {mag} is below the minimum {}", c.spec.min));
                }
                rec.class_if(mag == c.spec.min, "adaptive_at_min");
                rec.class_if(mag == c.spec.max, "adaptive_at_max");
            } else {
                if mag != 0 && c.long_oi != c.short_oi && longs_pay != (c.long_oi > c.short_oi) {
                    return Err(format!("non-adaptive: longs_pay = {longs_pay} with long OI {} and short OI {}", c.long_oi, c.short_oi));
                }
                if mag < c.spec.min {
                    if kf_open {
                        rec.excluded("KF-C12-1");
                    } else {
                        return Err(format!("non-adaptive funding rate {mag} is below the configured minimum {} (unlisted)", c.spec.min));
                    }
                }
            }
            Ok(())
        }
        Err(e) => {
            rec.class("rate_error");
            if both && c.spec.min <= c.spec.max {
                return Err(format!("funding rate failed to compute with both sides open and min <= max: {e}"));
            }
            Ok(())
        }
    }
}

pub fn run_c12_rate(ctx: &mut Ctx) {
    let kf = ctx.finding_open("KF-C12-1");
    {
        let w = FundingCase {
            long_oi: 1000 * UNIT,
            short_oi: 1000 * UNIT,
            stored: 0,
            duration: 60,
            spec: FundingSpec { exponent: UNIT, factor: 2_000_000_000_000, increase: 0, decrease: 0, max: 10, min: 5, threshold_stable: 0, threshold_decrease: 0 },
        };
        let mut rec = Rec::default();
        let r = check_funding_rate(&w, &mut rec, false);
        ctx.known_witness("KF-C12-1", r.is_err(), "non-adaptive funding (increase factor 0) ignores the minimum rate: equal open interest on both sides, min 5, max 10 -> rate 0");
    }
    let n = ctx.cases(200_000, 10_000_000);
    ctx.search("rate", n, funding_case, move |c, rec| check_funding_rate(c, rec, kf));
    ctx.floor("rate:adaptive", 10_000);
    ctx.floor("rate:non_adaptive", 10_000);
}

// ---------------------------------------------------------------------------------------------
// C11
// ---------------------------------------------------------------------------------------------

#[derive(Debug, Clone, Serialize, Deserialize)]
pub struct PnlCase {
    pub is_long: bool,
    pub coll_long: bool,
    pub size_usd: u128,
    pub size_tokens: u128,
    pub p1: u128,
    pub p2_extra: u128,
    pub spread_bp: u128,
    pub pool: (u128, u128),
    pub oi_other: (u128, u128),
    pub max_pnl_trader: u128,
    pub delta_bp: u16,
}

fn pnl_case() -> impl Strategy<Value = PnlCase> {
    (
        any::<bool>(),
        any::<bool>(),
        prop_oneof![3 => UNIT..=(1_000_000 * UNIT), 1 => 1u128..=UNIT],
        1_000_000_000_000u128..=50_000_000_000_000, // entry price per unit
        1_000_000_000_000u128..=50_000_000_000_000,
        prop_oneof![1 => Just(0u128), 3 => 0u128..=20_000_000_000_000],
        prop_oneof![1 => Just(0u128), 1 => 0u128..=100],
        (10u128.pow(9)..=10u128.pow(13), 10u128.pow(8)..=10u128.pow(12)),
        (0u128..=(1_000_000 * UNIT), 1_000_000_000_000u128..=50_000_000_000_000),
        prop_oneof![2 => Just(bp(5000)), 1 => Just(0u128), 2 => 0u128..=bp(100), 1 => 0u128..=UNIT],
        prop_oneof![3 => 1u16..=9_999, 1 => Just(10_000u16)],
    )
        .prop_map(|(is_long, coll_long, size_usd, entry, p1, p2_extra, spread_bp, pool, oi_other, max_pnl_trader, delta_bp)| PnlCase {
            is_long, coll_long, size_usd, size_tokens: (size_usd / entry).max(1), p1, p2_extra, spread_bp, pool, oi_other, max_pnl_trader, delta_bp,
        })
}

fn pnl_world(c: &PnlCase) -> (M, Pos) {
    let mut cfg = CfgSpec::default();
    cfg.max_pnl_trader = c.max_pnl_trader;
    let mut m = cfg.market();
    m.primary = VPool { long_amount: c.pool.0, short_amount: c.pool.1 };
    let mut pos = Pos::new(c.is_long, c.coll_long);
    pos.size_in_usd = c.size_usd;
    pos.size_in_tokens = c.size_tokens;
    pos.collateral_token_amount = 1_000_000;
    // open interest of the side = this position + others
    let oi = if c.is_long { &mut m.open_interest.0 } else { &mut m.open_interest.1 };
    oi.long_amount = c.size_usd + c.oi_other.0;
    let oit = if c.is_long { &mut m.open_interest_in_tokens.0 } else { &mut m.open_interest_in_tokens.1 };
    // the other positions of the side were opened at their own entry price (reachable state)
    oit.long_amount = c.size_tokens + c.oi_other.0 / c.oi_other.1;
    (m, pos)
}

fn check_pnl(c: &PnlCase, rec: &mut Rec, kf_open: bool) -> Result<(), String> {
    let (mut m, mut pos) = pnl_world(c);
    let mk = |p: u128| {
        let half = p / 20_000 * c.spread_bp;
        let idx = ((p - half).max(1), p + half);
        PricesSpec { index: idx, long: idx, short: (10u128.pow(14), 10u128.pow(14)) }.to_prices()
    };
    let (lo, hi) = (c.p1, c.p1 + c.p2_extra);
    let ops = VPositionOps::new(&mut m, &mut pos);
    let full = c.size_usd;
    let at = |p: u128| ops.pnl_value(&mk(p), &full);
    let (r_lo, r_hi) = (at(lo), at(hi));
    let (Ok((pnl_lo, unc_lo, _)), Ok((pnl_hi, unc_hi, tok_hi))) = (r_lo, r_hi) else {
        rec.class("pnl_error");
        return Ok(());
    };
    // exact reference for the credited (capped) pnl at both prices
    let oi_usd = b(c.size_usd) + b(c.oi_other.0);
    let oi_tok = b(c.size_tokens) + b(c.oi_other.0 / c.oi_other.1);
    let reference = |p: u128| -> (BigInt, bool) {
        let pr = mk(p);
        let exec = if c.is_long { pr.index_token_price.min } else { pr.index_token_price.max };
        let value = b(c.size_tokens) * b(exec);
        let mut total = if c.is_long { value - b(c.size_usd) } else { b(c.size_usd) - value };
        let mut binding = false;
        if total.is_positive() {
            let pool_value = if c.is_long { b(c.pool.0) * b(pr.long_token_price.min) } else { b(c.pool.1) * b(pr.short_token_price.min) };
            let pool_price = if c.is_long { pr.index_token_price.max } else { pr.index_token_price.min };
            let oi_value = &oi_tok * b(pool_price);
            let pool_pnl = if c.is_long { oi_value - &oi_usd } else { &oi_usd - oi_value };
            let cap = floor_div(&(pool_value * b(c.max_pnl_trader)), &b(UNIT));
            if pool_pnl.is_positive() && pool_pnl > cap {
                binding = true;
                total = floor_div(&(&cap * &total), &pool_pnl);
            }
        }
        (total, binding)
    };
    let (ref_lo, bind_lo) = reference(lo);
    let (ref_hi, bind_hi) = reference(hi);
    if b(pnl_lo) != ref_lo || b(pnl_hi) != ref_hi {
        return Err(format!("credited pnl ({pnl_lo}, {pnl_hi}) differs from the reference cap formula ({ref_lo}, {ref_hi})"));
    }
    // monotone in the index price
    let decreasing = (c.is_long && pnl_hi < pnl_lo) || (!c.is_long && pnl_hi > pnl_lo);
    if decreasing {
        if (bind_lo || bind_hi) && kf_open {
            // KF-C11-1: with a binding trader cap the credited pnl is cap * position_pnl / pool_pnl,
            // which is not monotone in the price when entry prices differ (GMX formula).
            rec.excluded("KF-C11-1");
        } else {
            return Err(format!("{} pnl moved against the price: {pnl_lo} at {lo} -> {pnl_hi} at {hi} (cap binding: {bind_lo}/{bind_hi})", if c.is_long { "long" } else { "short" }));
        }
    }
    // capped <= uncapped, equal when not positive
    for (p, u) in [(pnl_lo, unc_lo), (pnl_hi, unc_hi)] {
        if u > 0 && p > u {
            return Err(format!("credited pnl {p} exceeds the uncapped pnl {u}"));
        }
        if u <= 0 && p != u {
            return Err(format!("non-positive pnl was altered by the cap: {p} vs uncapped {u}"));
        }
        rec.class_if(u > 0 && p < u, "cap_binding");
        rec.class_if(u > 0 && p == u, "cap_not_binding");
    }
    // exact uncapped value
    let exec = if c.is_long { mk(hi).index_token_price.min } else { mk(hi).index_token_price.max };
    let value = b(c.size_tokens) * b(exec);
    let exact_unc = if c.is_long { value - b(c.size_usd) } else { b(c.size_usd) - value };
    if b(unc_hi) != exact_unc {
        return Err(format!("uncapped pnl {unc_hi} != size_in_tokens*price - size_in_usd = {exact_unc}"));
    }
    if tok_hi != c.size_tokens {
        return Err("full close does not use all tokens".into());
    }
    // partial close realises a proportional share
    let delta = if c.delta_bp == 10_000 { full } else { (full / 10_000 * c.delta_bp as u128).max(1) };
    if let Ok((pnl_part, _unc_part, tok_part)) = ops.pnl_value(&mk(hi), &delta) {
        let expected = trunc_div(&(b(pnl_hi) * b(tok_part)), &b(c.size_tokens));
        if (b(pnl_part) - &expected).abs() > b(1u8) {
            return Err(format!("partial pnl {pnl_part} is not pnl*tokens(delta)/tokens = {expected} (+-1)"));
        }
        // tokens closed are proportional to the usd closed, rounded against the trader
        let exact_tok = if c.is_long { ceil_div(&(b(c.size_tokens) * b(delta)), &b(full)) } else { floor_div(&(b(c.size_tokens) * b(delta)), &b(full)) };
        if delta != full && b(tok_part) != exact_tok {
            return Err(format!("tokens for a partial close {tok_part} != {exact_tok}"));
        }
        rec.class_if(delta != full, "partial");
    }
    rec.nontrivial_if(c.p2_extra > 0);
    Ok(())
}

pub fn run_c11(ctx: &mut Ctx) {
    ctx.rule("cases = fixed position (side, collateral token, size in USD and tokens), pool and open-interest state, two index prices p1 <= p2 with a spread, trader pnl cap from 0 to 100 %, close fraction; oracle = pnl(p2) >= pnl(p1) for longs and <= for shorts, credited <= uncapped when positive and equal otherwise, uncapped == tokens*price - size exactly, partial pnl within 1 of pnl*tokens(delta)/tokens, tokens(delta) rounded against the trader; non-trivial = p2 > p1");
    let n = ctx.cases(200_000, 10_000_000);
    let kf = ctx.finding_open("KF-C11-1");
    {
        let w = PnlCase { is_long: false, coll_long: false, size_usd: 100000000000000000000, size_tokens: 2448226, p1: 1000000000000, p2_extra: 5, spread_bp: 0, pool: (1000000000, 967864821680), oi_other: (59241464564116960016722070, 1014384128740), max_pnl_trader: 12671583, delta_bp: 1 };
        let mut rec = Rec::default();
        let r = check_pnl(&w, &mut rec, false);
        ctx.known_witness("KF-C11-1", r.is_err(), "with the trader pnl cap binding, a short's credited pnl rises (1424044028 -> 1424044029) when the index price rises by 5 raw units: credited = cap * position_pnl / pool_pnl is not monotone when entry prices differ");
    }
    ctx.search("pnl", n, pnl_case, move |c, rec| check_pnl(c, rec, kf));
    ctx.floor("pnl:cap_binding", 5_000);
    ctx.floor("pnl:cap_not_binding", 5_000);
    ctx.floor("pnl:partial", 10_000);
}
