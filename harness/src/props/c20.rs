//! C20 Market config updates follow the keeper permission policy (real instructions in svm-lite W1).

use crate::engine::{pick, Ctx, Rec};
use crate::gens;
use crate::svm::{self, Sysvars};
use crate::world1::{codes, World1};
use anchor_lang::solana_program::{program_error::ProgramError, pubkey::Pubkey};
use gmsol_store::states::market::config::{MarketConfigFlag, MarketConfigKey};
use gmsol_utils::role::RoleKey;
use proptest::prelude::*;
use serde::{Deserialize, Serialize};
use std::collections::{BTreeMap, BTreeSet};
use strum::IntoEnumIterator;

/// Who signs: 0 = MARKET_KEEPER, 1 = MARKET_CONFIG_KEEPER, 2 = both roles, 3 = no role,
/// 4 = an unrelated role (CONFIG_KEEPER, the similarly named store-config role).
pub type Who = u8;

#[derive(Debug, Clone, Serialize, Deserialize)]
pub enum KeySel {
    /// Index into all keys.
    Any(u16),
    /// Index into the keys currently marked updatable (falls back to `Any` when there are none).
    Updatable(u16),
    /// Index into the keys currently NOT marked updatable.
    Locked(u16),
}

#[derive(Debug, Clone, Serialize, Deserialize)]
pub enum Wait {
    /// Apply `x mod expire_after` seconds before the last valid second (0 = last valid second).
    Before(u32),
    /// Apply exactly at the expiry timestamp.
    At,
    /// Apply `1 + x` seconds after the expiry timestamp.
    After(u32),
}

#[derive(Debug, Clone, Serialize, Deserialize)]
pub enum Step {
    SetUpdatable { by: Who, is_flag: bool, key: u16, updatable: bool },
    Key { by: Who, market: u8, key: KeySel, value: u128 },
    BadKey { by: Who, market: u8, value: u128 },
    Flag { by: Who, market: u8, flag: u16, value: bool },
    Buffer { creator: Who, applier: Who, hand_over: bool, market: u8, entries: Vec<(KeySel, u128)>, split: u8, expire_after: u32, wait: Wait },
}

#[derive(Debug, Clone, Serialize, Deserialize)]
pub struct Case {
    /// Keys made updatable up front (through `set_market_config_updatable` by the MARKET_KEEPER).
    pub initial_keys: Vec<u16>,
    /// Bitmask of flags made updatable up front.
    pub initial_flags: u8,
    pub steps: Vec<Step>,
}

fn who() -> impl Strategy<Value = Who> {
    prop_oneof![3 => Just(0u8), 5 => Just(1u8), 1 => Just(2u8), 2 => Just(3u8), 1 => Just(4u8)]
}

fn keysel() -> impl Strategy<Value = KeySel> {
    prop_oneof![2 => any::<u16>().prop_map(KeySel::Any), 5 => any::<u16>().prop_map(KeySel::Updatable), 2 => any::<u16>().prop_map(KeySel::Locked)]
}

fn value() -> impl Strategy<Value = u128> {
    prop_oneof![3 => gens::u128_mix(), 1 => (0u128..=2000).prop_map(|m| m * 100_000_000_000_000_000)]
}

fn wait() -> impl Strategy<Value = Wait> {
    prop_oneof![4 => any::<u32>().prop_map(Wait::Before), 2 => Just(Wait::Before(0)), 2 => Just(Wait::At), 1 => Just(Wait::After(0)), 1 => (0u32..100_000).prop_map(Wait::After)]
}

fn step() -> impl Strategy<Value = Step> {
    prop_oneof![
        2 => (who(), any::<bool>(), any::<u16>(), any::<bool>()).prop_map(|(by, is_flag, key, updatable)| Step::SetUpdatable { by, is_flag, key, updatable }),
        4 => (who(), 0u8..3, keysel(), value()).prop_map(|(by, market, key, value)| Step::Key { by, market, key, value }),
        1 => (who(), 0u8..3, value()).prop_map(|(by, market, value)| Step::BadKey { by, market, value }),
        2 => (who(), 0u8..3, any::<u16>(), any::<bool>()).prop_map(|(by, market, flag, value)| Step::Flag { by, market, flag, value }),
        5 => (who(), who(), any::<bool>(), any::<bool>(), 0u8..3, proptest::collection::vec((keysel(), value()), 1..=8), any::<u8>(), prop_oneof![3 => 1u32..=600, 1 => 1u32..=100_000, 1 => Just(1u32)], wait())
            .prop_map(|(creator, applier, same, hand_over, market, entries, split, expire_after, wait)| Step::Buffer { creator: if same { applier } else { creator }, applier, hand_over, market, entries, split, expire_after, wait }),
    ]
}

fn case() -> impl Strategy<Value = Case> {
    (proptest::collection::vec(any::<u16>(), 0..24), 0u8..16, proptest::collection::vec(step(), 1..10)).prop_map(|(initial_keys, initial_flags, steps)| Case { initial_keys, initial_flags, steps })
}

/// Reference policy, written from the doc comments of `update_market_config*`,
/// `set_market_config_updatable` and the role descriptions (not from the handlers).
#[derive(Debug, Clone, Copy, PartialEq, Eq)]
enum Verdict {
    Allowed,
    /// The signer lacks the authority for this update.
    Denied,
}

/// "A market keeper may update any value or flag; a market-config keeper only the ones currently marked
/// updatable; anyone else is rejected."
fn may_update(is_mk: bool, is_mck: bool, all_updatable: bool) -> Verdict {
    if is_mk || (is_mck && all_updatable) {
        Verdict::Allowed
    } else {
        Verdict::Denied
    }
}

struct Model {
    upd_keys: BTreeSet<u16>,
    upd_flags: BTreeSet<u8>,
    cfg: [BTreeMap<u16, u128>; 3],
    flags: [[bool; 4]; 3],
}

fn is_permission_error(e: &ProgramError) -> bool {
    matches!(e, ProgramError::Custom(c) if *c == codes::permission_denied() || *c == codes::not_an_admin())
}

fn words_changed(a: &[u8], b: &[u8]) -> usize {
    if a.len() != b.len() {
        return usize::MAX;
    }
    // account data = 8-byte discriminator + 16-byte aligned zero-copy struct
    a[8..].chunks(16).zip(b[8..].chunks(16)).filter(|(x, y)| x != y).count()
}

fn check(c: &Case, rec: &mut Rec) -> Result<(), String> {
    let mut w = World1::fresh()?;
    let keys: Vec<MarketConfigKey> = MarketConfigKey::iter().collect();
    let flags: Vec<MarketConfigFlag> = MarketConfigFlag::iter().collect();
    if keys.len() < 60 || flags.len() != 4 {
        return Err(format!("unexpected key universe: {} keys, {} flags", keys.len(), flags.len()));
    }
    let mk = w.k.role_key(RoleKey::MARKET_KEEPER);
    let signers: [Pubkey; 5] = [
        mk,
        w.k.role_key(RoleKey::MARKET_CONFIG_KEEPER),
        w.add_signer("c20-both", &[RoleKey::MARKET_KEEPER, RoleKey::MARKET_CONFIG_KEEPER])?,
        w.k.stranger,
        w.k.role_key(RoleKey::CONFIG_KEEPER),
    ];
    let is_mk = |who: Who| who == 0 || who == 2;
    let is_mck = |who: Who| who == 1 || who == 2;

    // model of the initial state
    let mut m = Model { upd_keys: BTreeSet::new(), upd_flags: BTreeSet::new(), cfg: Default::default(), flags: [[false; 4]; 3] };
    for mi in 0..3 {
        let market = w.market(mi);
        for (i, k) in keys.iter().enumerate() {
            m.cfg[mi].insert(i as u16, *market.get_config_by_key(*k).ok_or("key without a setting")?);
        }
        for (i, f) in flags.iter().enumerate() {
            m.flags[mi][i] = market.get_config_flag_by_key(*f);
        }
    }
    // initial permissions, through the real instruction
    for k in &c.initial_keys {
        let i = pick(*k, keys.len()) as u16;
        if m.upd_keys.insert(i) {
            w.process(&w.k.ix_set_market_config_updatable(mk, false, &keys[i as usize].to_string(), true)).map_err(|e| format!("setup: set updatable failed: {e:?}"))?;
        }
    }
    for i in 0..4u8 {
        if c.initial_flags & (1 << i) != 0 {
            m.upd_flags.insert(i);
            w.process(&w.k.ix_set_market_config_updatable(mk, true, &flags[i as usize].to_string(), true)).map_err(|e| format!("setup: set flag updatable failed: {e:?}"))?;
        }
    }

    let mut sys = Sysvars::default();
    let resolve = |m: &Model, sel: &KeySel| -> u16 {
        match sel {
            KeySel::Any(i) => pick(*i, keys.len()) as u16,
            KeySel::Updatable(i) => {
                if m.upd_keys.is_empty() {
                    pick(*i, keys.len()) as u16
                } else {
                    *m.upd_keys.iter().nth(pick(*i, m.upd_keys.len())).unwrap()
                }
            }
            KeySel::Locked(i) => {
                let locked: Vec<u16> = (0..keys.len() as u16).filter(|k| !m.upd_keys.contains(k)).collect();
                if locked.is_empty() {
                    pick(*i, keys.len()) as u16
                } else {
                    locked[pick(*i, locked.len())]
                }
            }
        }
    };

    for (n, st) in c.steps.iter().enumerate() {
        let before = w.vm.accounts.clone();
        match st {
            Step::SetUpdatable { by, is_flag, key, updatable } => {
                let (name, idx) = if *is_flag { let i = pick(*key, 4); (flags[i].to_string(), i as u16) } else { let i = pick(*key, keys.len()); (keys[i].to_string(), i as u16) };
                let current = if *is_flag { m.upd_flags.contains(&(idx as u8)) } else { m.upd_keys.contains(&idx) };
                let r = w.process(&w.k.ix_set_market_config_updatable(signers[*by as usize], *is_flag, &name, *updatable));
                if !is_mk(*by) {
                    // "must be a signer and a MARKET_KEEPER"
                    let e = r.err().ok_or(format!("step {n}: set_market_config_updatable by a non-MARKET_KEEPER (who {by}) succeeded"))?;
                    if !is_permission_error(&e) {
                        return Err(format!("step {n}: set_market_config_updatable by who {by} failed with {e:?}, not a permission error"));
                    }
                    rec.class("set_updatable_denied");
                } else if current == *updatable {
                    // "The permission flag must change from its previous value."
                    if r.is_ok() {
                        return Err(format!("step {n}: set_market_config_updatable({name}, {updatable}) succeeded although the permission did not change"));
                    }
                } else {
                    r.map_err(|e| format!("step {n}: set_market_config_updatable by the MARKET_KEEPER failed: {e:?}"))?;
                    match (*is_flag, *updatable) {
                        (true, true) => { m.upd_flags.insert(idx as u8); }
                        (true, false) => { m.upd_flags.remove(&(idx as u8)); }
                        (false, true) => { m.upd_keys.insert(idx); }
                        (false, false) => { m.upd_keys.remove(&idx); }
                    }
                    rec.class_if(!*updatable, "permission_revoked");
                    // only the store may differ
                    let mut after = w.vm.accounts.clone();
                    after.insert(w.k.store, before[&w.k.store].clone());
                    if after != before {
                        return Err(format!("step {n}: set_market_config_updatable changed an account other than the store"));
                    }
                    if words_changed(&before[&w.k.store].data, w.vm.data(&w.k.store)) != 1 {
                        return Err(format!("step {n}: set_market_config_updatable changed {} 16-byte words of the store, expected exactly 1", words_changed(&before[&w.k.store].data, w.vm.data(&w.k.store))));
                    }
                    continue;
                }
                if w.vm.accounts != before {
                    return Err(format!("step {n}: rejected set_market_config_updatable changed accounts"));
                }
            }
            Step::Key { by, market, key, value } => {
                let mi = *market as usize;
                let ki = resolve(&m, key);
                let updatable = m.upd_keys.contains(&ki);
                let r = w.process(&w.k.ix_update_market_config(signers[*by as usize], w.k.markets[mi].market, &keys[ki as usize].to_string(), *value));
                let verdict = may_update(is_mk(*by), is_mck(*by), updatable);
                match verdict {
                    Verdict::Allowed => {
                        r.map_err(|e| format!("step {n}: update_market_config({}, updatable {updatable}) by who {by} must be allowed but failed: {e:?}", keys[ki as usize]))?;
                        let old = m.cfg[mi].insert(ki, *value).unwrap();
                        verify_market(&w, &m, &before, mi, usize::from(old != *value), &keys, &flags).map_err(|e| format!("step {n}: {e}"))?;
                        rec.class_if(is_mk(*by) && !updatable, "mk_locked_key_ok");
                        rec.class_if(*by == 1, "mck_updatable_key_ok");
                    }
                    Verdict::Denied => {
                        let e = r.err().ok_or(format!("step {n}: update_market_config({}, updatable {updatable}) by who {by} must be rejected but succeeded", keys[ki as usize]))?;
                        if !is_permission_error(&e) {
                            return Err(format!("step {n}: update_market_config by who {by} rejected with {e:?}, not a permission error"));
                        }
                        if w.vm.accounts != before {
                            return Err(format!("step {n}: rejected update_market_config changed accounts"));
                        }
                        rec.class_if(*by == 1, "mck_locked_key_denied");
                        rec.class_if(*by >= 3, "no_role_denied");
                    }
                }
            }
            Step::BadKey { by, market, value } => {
                let r = w.process(&w.k.ix_update_market_config(signers[*by as usize], w.k.markets[*market as usize].market, "no_such_market_config_key", *value));
                if r.is_ok() {
                    return Err(format!("step {n}: update_market_config with an undefined key succeeded"));
                }
                if w.vm.accounts != before {
                    return Err(format!("step {n}: rejected update_market_config (undefined key) changed accounts"));
                }
            }
            Step::Flag { by, market, flag, value } => {
                let mi = *market as usize;
                let fi = pick(*flag, 4);
                let updatable = m.upd_flags.contains(&(fi as u8));
                let r = w.process(&w.k.ix_update_market_config_flag(signers[*by as usize], w.k.markets[mi].market, &flags[fi].to_string(), *value));
                match may_update(is_mk(*by), is_mck(*by), updatable) {
                    Verdict::Allowed => {
                        r.map_err(|e| format!("step {n}: update_market_config_flag({}, updatable {updatable}) by who {by} must be allowed but failed: {e:?}", flags[fi]))?;
                        let old = std::mem::replace(&mut m.flags[mi][fi], *value);
                        verify_market(&w, &m, &before, mi, usize::from(old != *value), &keys, &flags).map_err(|e| format!("step {n}: {e}"))?;
                        rec.class_if(*by == 1, "mck_updatable_flag_ok");
                        rec.class_if(is_mk(*by) && !updatable, "mk_locked_flag_ok");
                    }
                    Verdict::Denied => {
                        let e = r.err().ok_or(format!("step {n}: update_market_config_flag({}, updatable {updatable}) by who {by} must be rejected but succeeded", flags[fi]))?;
                        if !is_permission_error(&e) {
                            return Err(format!("step {n}: update_market_config_flag by who {by} rejected with {e:?}, not a permission error"));
                        }
                        if w.vm.accounts != before {
                            return Err(format!("step {n}: rejected update_market_config_flag changed accounts"));
                        }
                        rec.class_if(*by == 1, "mck_locked_flag_denied");
                    }
                }
            }
            Step::Buffer { creator, applier, hand_over, market, entries, split, expire_after, wait } => {
                let mi = *market as usize;
                let buffer = svm::key_of(&format!("c20-buffer-{n}"));
                let creator_key = signers[*creator as usize];
                let applier_key = signers[*applier as usize];
                // anyone may create and fill a buffer
                w.process(&w.k.ix_initialize_market_config_buffer(creator_key, buffer, *expire_after)).map_err(|e| format!("step {n}: initialize_market_config_buffer failed: {e:?}"))?;
                let expiry = sys.unix_timestamp + *expire_after as i64;
                let resolved: Vec<(u16, u128)> = entries.iter().map(|(k, v)| (resolve(&m, k), *v)).collect();
                let named: Vec<(String, u128)> = resolved.iter().map(|(k, v)| (keys[*k as usize].to_string(), *v)).collect();
                let cut = pick((*split as u16) << 8, named.len() + 1);
                for part in [&named[..cut], &named[cut..]] {
                    if !part.is_empty() {
                        w.process(&w.k.ix_push_to_market_config_buffer(creator_key, buffer, part.to_vec())).map_err(|e| format!("step {n}: push_to_market_config_buffer failed: {e:?}"))?;
                    }
                }
                let mut owner = creator_key;
                if *hand_over && creator_key != applier_key {
                    w.process(&w.k.ix_set_market_config_buffer_authority(creator_key, buffer, applier_key)).map_err(|e| format!("step {n}: set_market_config_buffer_authority failed: {e:?}"))?;
                    owner = applier_key;
                }
                // somebody who does not own the buffer cannot push to it
                if creator_key != applier_key && !*hand_over {
                    let snapshot = w.vm.accounts.clone();
                    let r = w.process(&w.k.ix_push_to_market_config_buffer(applier_key, buffer, vec![(keys[0].to_string(), 1)]));
                    if r.is_ok() || w.vm.accounts != snapshot {
                        return Err(format!("step {n}: push_to_market_config_buffer by a non-owner succeeded or changed accounts ({r:?})"));
                    }
                }
                let now = match wait {
                    Wait::Before(x) => expiry - 1 - (*x % *expire_after) as i64,
                    Wait::At => expiry,
                    Wait::After(x) => expiry + 1 + *x as i64,
                };
                sys.unix_timestamp = now;
                sys.slot += 1;
                svm::set_sysvars(sys);
                let before = w.vm.accounts.clone();
                let r = w.process(&w.k.ix_update_market_config_with_buffer(applier_key, w.k.markets[mi].market, buffer));
                let all_updatable = resolved.iter().all(|(k, _)| m.upd_keys.contains(k));
                let any_updatable = resolved.iter().any(|(k, _)| m.upd_keys.contains(k));
                let mixed = any_updatable && !all_updatable;
                let expired = now >= expiry; // "Once expired, the buffer can no longer be used"
                let owned = owner == applier_key; // "Owned by both the store and the authority"
                let verdict = may_update(is_mk(*applier), is_mck(*applier), all_updatable);
                rec.class_if(matches!(wait, Wait::At), "expiry_at");
                rec.class_if(now == expiry - 1, "expiry_last_valid_second");
                rec.class_if(*applier == 1 && mixed, "mck_mixed_buffer");
                if verdict == Verdict::Allowed && !expired && owned {
                    r.map_err(|e| format!("step {n}: update_market_config_with_buffer by who {applier} (all updatable {all_updatable}, now {now}, expiry {expiry}) must be applied but failed: {e:?}"))?;
                    let mut changed = BTreeSet::new();
                    let orig = m.cfg[mi].clone();
                    for (k, v) in &resolved {
                        m.cfg[mi].insert(*k, *v);
                    }
                    for (k, _) in &resolved {
                        if orig[k] != m.cfg[mi][k] {
                            changed.insert(*k);
                        }
                    }
                    verify_market(&w, &m, &before, mi, changed.len(), &keys, &flags).map_err(|e| format!("step {n}: {e}"))?;
                    rec.class_if(*applier == 1, "mck_buffer_applied");
                    rec.class_if(is_mk(*applier) && !all_updatable, "mk_locked_buffer_applied");
                    rec.nontrivial_if(now == expiry - 1);
                } else {
                    let e = r.err().ok_or(format!(
                        "step {n}: update_market_config_with_buffer by who {applier} must be rejected (policy {verdict:?}, all updatable {all_updatable}, expired {expired} (now {now}, expiry {expiry}), owned by applier {owned}) but was applied"
                    ))?;
                    if verdict == Verdict::Denied && !expired && owned && !is_permission_error(&e) {
                        return Err(format!("step {n}: update_market_config_with_buffer by who {applier} rejected with {e:?}, not a permission error"));
                    }
                    if w.vm.accounts != before {
                        return Err(format!("step {n}: rejected update_market_config_with_buffer changed accounts"));
                    }
                    rec.class_if(expired && verdict == Verdict::Allowed && owned, "expired_rejected");
                    rec.class_if(*applier == 1 && mixed && !expired && owned, "mck_mixed_buffer_denied");
                    rec.class_if(!owned && verdict == Verdict::Allowed && !expired, "foreign_buffer_rejected");
                    rec.nontrivial_if((*applier == 1 && mixed && !expired && owned) || matches!(wait, Wait::At));
                }
            }
        }
    }
    svm::set_sysvars(Sysvars::default());
    Ok(())
}

/// After an accepted update of market `mi`: every key/flag of every market reads the model value,
/// exactly `expected_words` 16-byte words of the market account changed, and no other account changed.
fn verify_market(w: &World1, m: &Model, before: &BTreeMap<Pubkey, svm::Acct>, mi: usize, expected_words: usize, keys: &[MarketConfigKey], flags: &[MarketConfigFlag]) -> Result<(), String> {
    for i in 0..3 {
        let market = w.market(i);
        for (ki, k) in keys.iter().enumerate() {
            let got = *market.get_config_by_key(*k).ok_or("key without a setting")?;
            if got != m.cfg[i][&(ki as u16)] {
                return Err(format!("market {i}: {k} reads {got}, expected {}", m.cfg[i][&(ki as u16)]));
            }
        }
        for (fi, f) in flags.iter().enumerate() {
            if market.get_config_flag_by_key(*f) != m.flags[i][fi] {
                return Err(format!("market {i}: flag {f} reads {}, expected {}", !m.flags[i][fi], m.flags[i][fi]));
            }
        }
    }
    let mk = w.k.markets[mi].market;
    let words = words_changed(&before[&mk].data, w.vm.data(&mk));
    if words != expected_words {
        return Err(format!("{words} 16-byte words of the market account changed, expected {expected_words} (one per key whose value changed)"));
    }
    let mut after = w.vm.accounts.clone();
    after.insert(mk, before[&mk].clone());
    if &after != before {
        let diff: Vec<String> = after.iter().filter(|(k, a)| before.get(*k) != Some(*a)).map(|(k, _)| k.to_string()).collect();
        return Err(format!("accounts other than the market changed: {diff:?}"));
    }
    Ok(())
}

pub fn run(ctx: &mut Ctx) {
    ctx.rule("cases = an initial updatable-permission bitmap (0..24 factor keys, any subset of the 4 flags, set through the real set_market_config_updatable) and a history of 1..9 steps over the 3 markets of the W1 world: permission changes (by MARKET_KEEPER and by others), update_market_config (key drawn from the updatable / locked / all keys, value mixture incl. 0 and u128::MAX, undefined key), update_market_config_flag, and config buffers (initialize_market_config_buffer by any signer, 1..8 entries pushed in one or two push_to_market_config_buffer calls, optional set_market_config_buffer_authority hand-over, stubbed clock moved to before / the last valid second / exactly / after the expiry) applied with update_market_config_with_buffer; signer in {MARKET_KEEPER, MARKET_CONFIG_KEEPER, both, no role, CONFIG_KEEPER}; oracle = reference policy from the doc comments (market keeper: anything; market-config keeper: only keys/flags currently updatable, whole buffer rejected on one locked entry; others rejected; buffer usable only by its authority and only while now < expiry), rejection => Err (permission-class code when the policy is the only reason) and the whole account map byte-identical, acceptance => every key and flag of all three markets reads the model value, exactly one 16-byte word of the market account changed per changed value, no other account changed; non-trivial = config keeper with a mixed buffer, or application at the expiry boundary");
    ctx.assume("svm-lite is not the Solana runtime; the W1 world is built with real instructions (see world1.rs); MarketConfigKey/Flag <-> field mapping is C16's subject and is used here only to read values back");
    let n = ctx.cases(6_000, 300_000);
    ctx.search("policy", n, case, check);
    for (class, min) in [
        ("mck_mixed_buffer_denied", 100),
        ("mck_buffer_applied", 100),
        ("mk_locked_buffer_applied", 100),
        ("expiry_at", 300),
        ("expiry_last_valid_second", 300),
        ("expired_rejected", 40),
        ("mck_updatable_key_ok", 40),
        ("mck_locked_key_denied", 40),
        ("mk_locked_key_ok", 40),
        ("mck_updatable_flag_ok", 20),
        ("mck_locked_flag_denied", 20),
        ("no_role_denied", 40),
        ("foreign_buffer_rejected", 20),
        ("permission_revoked", 20),
    ] {
        ctx.floor(&format!("policy:{class}"), min);
    }
}
