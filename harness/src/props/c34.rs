//! C34 Fixed-capacity maps behave like sorted maps until full.

use crate::engine::{no_panic, Ctx, Rec};
use anchor_lang::prelude::Pubkey;
use proptest::prelude::*;
use serde::{Deserialize, Serialize};
use std::collections::BTreeMap;

#[derive(Debug, Clone, Serialize, Deserialize)]
pub enum MapOp {
    Insert(u16, u64),
    InsertNew(u16, u64),
    Get(u16),
    GetMut(u16, u64),
    Remove(u16),
    Clear,
    Scan,
}

#[derive(Debug, Clone, Serialize, Deserialize)]
pub struct Case {
    pub map: u8,
    pub ops: Vec<MapOp>,
}

fn pk(i: usize) -> Pubkey {
    crate::svm::key_of(&format!("c34-{i}"))
}
fn pk_bytes(k: &Pubkey) -> [u8; 32] {
    k.to_bytes()
}
type Pair = (u8, u8);
fn pair_key(k: &Pair) -> [u8; 2] {
    [k.0, k.1]
}

// Every capacity the programs use, instantiated through the public macros.
gmsol_utils::fixed_map!(Str32, u64, 32, 4); // roles (str-hashed keys)
gmsol_utils::fixed_map!(Pk16, Pubkey, pk_bytes, u64, 16, 4); // treasury tokens
gmsol_utils::fixed_map!(Pk64, Pubkey, pk_bytes, u32, 64, 0); // members
gmsol_utils::fixed_map!(Pair64, 2, Pair, pair_key, u8, 64, 0); // disabled features
gmsol_utils::fixed_map!(Pk96, Pubkey, pk_bytes, u64, 96, 4); // GLV markets
gmsol_utils::fixed_map!(Pk256, Pubkey, pk_bytes, u8, 256, 0); // token map
gmsol_utils::fixed_map!(Pk512, Pubkey, pk_bytes, u64, 512, 4); // oracle prices

pub const MAPS: [(&str, usize); 7] = [("str32", 32), ("pk16", 16), ("pk64", 64), ("pair64", 64), ("pk96", 96), ("pk256", 256), ("pk512", 512)];

macro_rules! run_map {
    ($ty:ty, $cap:expr, $klen:expr, $vty:ty, $mk:expr, $tk:expr, $ops:expr, $rec:expr, $kf_open:expr) => {{
        let mut map = <$ty>::default();
        let mut model: BTreeMap<[u8; $klen], $vty> = BTreeMap::new();
        let universe = $cap + 3;
        let entry_size = std::mem::size_of::<$ty>() / $cap; // floor: ignores count/padding tail
        let mut reached_cap = false;
        let mut removed_at_cap = false;
        for (step, op) in $ops.iter().enumerate() {
            let idx = |i: &u16| crate::engine::pick(*i, universe);
            let before: Vec<u8> = bytemuck::bytes_of(&map).to_vec();
            let rejected = std::cell::Cell::new(false);
            let r: Result<Result<(), String>, String> = no_panic(|| -> Result<(), String> {
                match op {
                    MapOp::Insert(i, v) | MapOp::InsertNew(i, v) => {
                        let new_only = matches!(op, MapOp::InsertNew(..));
                        let key = $mk(idx(i));
                        let kb = $tk(&key);
                        let v = *v as $vty;
                        let exists = model.contains_key(&kb);
                        let full = model.len() >= $cap;
                        if !new_only && !exists && full {
                            // `insert` is documented to panic here (see KF-C34-1); use the checked form
                            // for the model comparison and count the exclusion.
                            if $kf_open {
                                $rec.excluded("KF-C34-1");
                            }
                        }
                        let got = map.insert_with_options(&key, v, new_only);
                        if exists {
                            if new_only {
                                if got.is_ok() {
                                    return Err(format!("step {step}: insert-new of an existing key succeeded"));
                                }
                                rejected.set(true);
                            } else {
                                let prev = model.insert(kb, v);
                                match got {
                                    Ok(p) if p == prev => {}
                                    other => return Err(format!("step {step}: replace returned {:?}, expected {prev:?}", other.ok())),
                                }
                            }
                        } else if full {
                            if got.is_ok() {
                                return Err(format!("step {step}: insert of a new key into a full map succeeded"));
                            }
                            rejected.set(true);
                            $rec.class("insert_at_capacity_rejected");
                        } else {
                            match got {
                                Ok(None) => {
                                    model.insert(kb, v);
                                }
                                other => return Err(format!("step {step}: insert of a new key returned {:?}", other.ok())),
                            }
                        }
                    }
                    MapOp::Get(i) => {
                        let key = $mk(idx(i));
                        let kb = $tk(&key);
                        if map.get(&key).copied() != model.get(&kb).copied() {
                            return Err(format!("step {step}: get mismatch"));
                        }
                    }
                    MapOp::GetMut(i, v) => {
                        let key = $mk(idx(i));
                        let kb = $tk(&key);
                        match (map.get_mut(&key), model.get_mut(&kb)) {
                            (Some(a), Some(m)) => {
                                *a = *v as $vty;
                                *m = *v as $vty;
                            }
                            (None, None) => {}
                            _ => return Err(format!("step {step}: get_mut presence mismatch")),
                        }
                    }
                    MapOp::Remove(i) => {
                        let key = $mk(idx(i));
                        let kb = $tk(&key);
                        if model.len() == $cap && model.contains_key(&kb) {
                            removed_at_cap = true;
                        }
                        if map.remove(&key) != model.remove(&kb) {
                            return Err(format!("step {step}: remove mismatch"));
                        }
                    }
                    MapOp::Clear => {
                        map.clear();
                        model.clear();
                    }
                    MapOp::Scan => {}
                }
                Ok(())
            });
            match r {
                Err(p) => return Err(format!("step {step}: {op:?} panicked: {p}")),
                Ok(Err(e)) => return Err(e),
                Ok(Ok(())) => {}
            }
            // failed operations leave the bytes unchanged
            let after: &[u8] = bytemuck::bytes_of(&map);
            if rejected.get() && after != &before[..] {
                return Err(format!("step {step}: rejected {op:?} changed the map's bytes"));
            }
            // full comparison: length, sorted entries
            if map.len() != model.len() || map.is_empty() != model.is_empty() {
                return Err(format!("step {step}: len {} != model {}", map.len(), model.len()));
            }
            let got: Vec<([u8; $klen], $vty)> = map.entries().map(|(k, v)| (*k, *v)).collect();
            let want: Vec<([u8; $klen], $vty)> = model.iter().map(|(k, v)| (*k, *v)).collect();
            if got != want {
                return Err(format!("step {step}: entries differ from the sorted reference map after {op:?}"));
            }
            // tail slots beyond len stay zero
            let tail = &after[model.len() * entry_size..$cap * entry_size];
            if tail.iter().any(|b| *b != 0) {
                return Err(format!("step {step}: storage beyond len is not zeroed after {op:?}"));
            }
            for i in 0..($cap + 1) {
                let e = map.get_entry_by_index(i);
                if e.is_some() != (i < model.len()) {
                    return Err(format!("step {step}: get_entry_by_index({i}) presence wrong"));
                }
            }
            if model.len() == $cap {
                reached_cap = true;
            }
        }
        $rec.class_if(reached_cap, "reached_capacity");
        $rec.class_if(removed_at_cap, "removed_at_capacity");
        $rec.nontrivial_if(reached_cap);
        Ok::<(), String>(())
    }};
}

fn check(c: &Case, rec: &mut Rec, kf_open: bool) -> Result<(), String> {
    let which = c.map as usize % MAPS.len();
    rec.class(MAPS[which].0);
    match which {
        0 => run_map!(Str32, 32, 32, u64, |i: usize| format!("role-{i}"), |k: &String| gmsol_utils::fixed_map::to_key(k), StrOps(&c.ops), rec, kf_open),
        1 => run_map!(Pk16, 16, 32, u64, pk, pk_bytes, c.ops, rec, kf_open),
        2 => run_map!(Pk64, 64, 32, u32, pk, pk_bytes, c.ops, rec, kf_open),
        3 => run_map!(Pair64, 64, 2, u8, |i: usize| ((i / 8) as u8, (i % 8) as u8), pair_key, c.ops, rec, kf_open),
        4 => run_map!(Pk96, 96, 32, u64, pk, pk_bytes, c.ops, rec, kf_open),
        5 => run_map!(Pk256, 256, 32, u8, pk, pk_bytes, c.ops, rec, kf_open),
        _ => run_map!(Pk512, 512, 32, u64, pk, pk_bytes, c.ops, rec, kf_open),
    }
}

/// `str`-keyed maps take `&str`; adapt so the macro can pass `&String`.
struct StrOps<'a>(&'a Vec<MapOp>);
impl<'a> StrOps<'a> {
    fn iter(&self) -> std::slice::Iter<'a, MapOp> {
        self.0.iter()
    }
}

fn op() -> impl Strategy<Value = MapOp> {
    prop_oneof![
        5 => (any::<u16>(), any::<u64>()).prop_map(|(i, v)| MapOp::Insert(i, v)),
        5 => (any::<u16>(), any::<u64>()).prop_map(|(i, v)| MapOp::InsertNew(i, v)),
        2 => any::<u16>().prop_map(MapOp::Get),
        1 => (any::<u16>(), any::<u64>()).prop_map(|(i, v)| MapOp::GetMut(i, v)),
        3 => any::<u16>().prop_map(MapOp::Remove),
        1 => Just(MapOp::Scan),
    ]
}

fn case() -> impl Strategy<Value = Case> {
    (0u8..MAPS.len() as u8).prop_flat_map(|map| {
        let cap = MAPS[map as usize].1;
        // Fill phase that visits every key of the universe in a shuffled order (reaches capacity),
        // followed by random operations, an occasional clear and more operations.
        let fill = Just((0..(cap + 3) as u32).collect::<Vec<u32>>()).prop_shuffle();
        (Just(map), fill, any::<bool>(), proptest::collection::vec(op(), 0..40), any::<bool>(), proptest::collection::vec(op(), 0..40))
            .prop_map(move |(map, fill, do_fill, mid, clear, tail)| {
                let mut ops = Vec::new();
                if do_fill {
                    let universe = cap + 3;
                    for i in fill {
                        // inverse of engine::pick: choose the u16 that maps onto key i
                        let raw = ((i as usize * 65_536 + universe - 1) / universe) as u16;
                        ops.push(MapOp::InsertNew(raw, i as u64 + 1));
                    }
                }
                ops.extend(mid);
                if clear {
                    ops.push(MapOp::Clear);
                }
                ops.extend(tail);
                Case { map, ops }
            })
    })
}

pub fn run(ctx: &mut Ctx) {
    ctx.rule("cases = one of 7 maps instantiated through the public fixed_map! macro with the capacities the programs use (16, 32 str-hashed, 64, 64 with 2-byte keys, 96, 256, 512) and a sequence of insert / insert-new / get / get_mut / remove / clear over a universe of capacity+3 keys, half of them starting with a shuffled fill that reaches capacity; oracle = BTreeMap keyed by the hashed key: identical return values, identical sorted entries and length after every step, new key at capacity rejected with bytes unchanged, no panic, storage beyond len all zero; non-trivial = sequence reaches capacity");
    let kf = ctx.finding_open("KF-C34-1");
    // witness: the unchecked `insert` panics on a new key at capacity
    {
        let mut m = Pk16::default();
        for i in 0..16 {
            m.insert(&pk(i), i as u64);
        }
        let before = bytemuck::bytes_of(&m).to_vec();
        let r = no_panic(|| {
            let mut m2 = m;
            m2.insert(&pk(99), 1)
        });
        let unchanged = bytemuck::bytes_of(&m) == &before[..];
        ctx.known_witness("KF-C34-1", r.is_err() && unchanged, "the unchecked `insert` panics (\"must be success\") instead of failing when a new key is inserted into a full map (reachable via Store::set_feature_disabled: 16 domains x 5 actions = 80 pairs > capacity 64)");
    }
    let n = ctx.cases(30_000, 1_500_000);
    ctx.search("maps", n, case, move |c, rec| check(c, rec, kf));
    ctx.floor("maps:reached_capacity", 500);
    ctx.floor("maps:removed_at_capacity", 200);
    ctx.floor("maps:insert_at_capacity_rejected", 500);
}
