//! C18 Role membership behaves like a set of grants gated by enabled roles.

use crate::engine::{pick, Ctx, Rec};
use crate::svm;
use anchor_lang::prelude::Pubkey;
use bytemuck::Zeroable;
use gmsol_store::states::{RoleKey, Store};
use proptest::prelude::*;
use serde::{Deserialize, Serialize};
use std::collections::{BTreeMap, BTreeSet};

const N_ROLES: usize = 35; // > 32 capacity; index 0 is RESTART_ADMIN
const N_ADDRS: usize = 67; // > 64 capacity; index 0 is the store authority

#[derive(Debug, Clone, Serialize, Deserialize)]
pub enum Op {
    Enable(u16),
    Disable(u16),
    Grant(u16, u16),
    Revoke(u16, u16),
    Query(u16, u16),
    QueryAdmin(u16),
    SetRestarted(bool),
}

#[derive(Debug, Clone, Serialize, Deserialize)]
pub struct Case {
    pub prefix: u8,
    pub ops: Vec<Op>,
}

fn role_name(i: usize) -> String {
    if i == 0 {
        RoleKey::RESTART_ADMIN.to_string()
    } else {
        format!("ROLE_{i}")
    }
}

fn addr(i: usize) -> Pubkey {
    svm::key_of(&format!("c18-addr-{i}"))
}

fn idx_strategy(n: usize, hot: usize) -> impl Strategy<Value = u16> {
    // mostly a small "hot" subset so that grant/revoke/has_role interact, sometimes the whole universe
    prop_oneof![
        4 => (0..hot).prop_map(move |i| ((i * 65_536 + n - 1) / n) as u16),
        1 => any::<u16>(),
    ]
}

fn op() -> impl Strategy<Value = Op> {
    let r = || idx_strategy(N_ROLES, 4);
    let a = || idx_strategy(N_ADDRS, 5);
    prop_oneof![
        3 => r().prop_map(Op::Enable),
        2 => r().prop_map(Op::Disable),
        5 => (a(), r()).prop_map(|(a, r)| Op::Grant(a, r)),
        4 => (a(), r()).prop_map(|(a, r)| Op::Revoke(a, r)),
        3 => (a(), r()).prop_map(|(a, r)| Op::Query(a, r)),
        1 => a().prop_map(Op::QueryAdmin),
        1 => any::<bool>().prop_map(Op::SetRestarted),
    ]
}

fn case() -> impl Strategy<Value = Case> {
    (0u8..4, proptest::collection::vec(op(), 1..50)).prop_map(|(prefix, ops)| Case { prefix, ops })
}

struct Model {
    roles: BTreeMap<String, (usize, bool)>,
    grants: BTreeSet<(usize, usize)>, // (addr, role index in store)
    restarted: bool,
}

impl Model {
    fn members(&self) -> BTreeSet<usize> {
        self.grants.iter().map(|(a, _)| *a).collect()
    }
    fn holds(&self, a: usize, role: &str) -> bool {
        match self.roles.get(role) {
            Some((idx, true)) => self.grants.contains(&(a, *idx)),
            _ => false,
        }
    }
}

fn check(c: &Case, rec: &mut Rec) -> Result<(), String> {
    svm::init();
    svm::set_sysvars(svm::Sysvars::default());
    let mut store = Store::zeroed();
    store
        .init(addr(0), "", 255, addr(1), addr(2))
        .map_err(|e| format!("store init: {e}"))?;
    let mut model = Model { roles: BTreeMap::new(), grants: BTreeSet::new(), restarted: false };
    let mut ops: Vec<Op> = Vec::new();
    let raw = |i: usize, n: usize| ((i * 65_536 + n - 1) / n) as u16;
    match c.prefix {
        1 => {
            // cross the 32-role capacity
            for i in 0..N_ROLES {
                ops.push(Op::Enable(raw(i, N_ROLES)));
            }
        }
        2 => {
            // cross the 64-member capacity
            ops.push(Op::Enable(raw(1, N_ROLES)));
            for a in 0..N_ADDRS {
                ops.push(Op::Grant(raw(a, N_ADDRS), raw(1, N_ROLES)));
            }
        }
        3 => {
            ops.push(Op::Enable(raw(0, N_ROLES)));
            ops.push(Op::Grant(raw(3, N_ADDRS), raw(0, N_ROLES)));
        }
        _ => {}
    }
    ops.extend(c.ops.iter().cloned());
    let (mut hit_role_cap, mut hit_member_cap, mut revoked_disabled, mut toggled) = (false, false, false, false);
    for (step, op) in ops.iter().enumerate() {
        let before = bytemuck::bytes_of(&store).to_vec();
        let unchanged = |s: &Store| bytemuck::bytes_of(s) == &before[..];
        match op {
            Op::Enable(r) => {
                let name = role_name(pick(*r, N_ROLES));
                let res = store.enable_role(&name);
                match model.roles.get_mut(&name) {
                    Some((_, enabled)) => {
                        if *enabled {
                            if res.is_ok() || !unchanged(&store) {
                                return Err(format!("step {step}: enabling the already enabled role {name} did not fail cleanly"));
                            }
                        } else {
                            res.map_err(|e| format!("step {step}: re-enable {name}: {e}"))?;
                            *enabled = true;
                        }
                    }
                    None => {
                        if model.roles.len() >= 32 {
                            hit_role_cap = true;
                            if res.is_ok() || !unchanged(&store) {
                                return Err(format!("step {step}: 33rd role {name} was not rejected cleanly"));
                            }
                        } else {
                            res.map_err(|e| format!("step {step}: enable new role {name}: {e}"))?;
                            let idx = model.roles.len();
                            model.roles.insert(name, (idx, true));
                        }
                    }
                }
            }
            Op::Disable(r) => {
                let name = role_name(pick(*r, N_ROLES));
                let res = store.disable_role(&name);
                match model.roles.get_mut(&name) {
                    Some((_, enabled)) if *enabled => {
                        res.map_err(|e| format!("step {step}: disable {name}: {e}"))?;
                        *enabled = false;
                    }
                    _ => {
                        // disabling a disabled or unknown role: error or no-op, never a state change
                        if !unchanged(&store) {
                            return Err(format!("step {step}: disabling a non-enabled role {name} changed the store"));
                        }
                    }
                }
            }
            Op::Grant(a, r) => {
                let (ai, name) = (pick(*a, N_ADDRS), role_name(pick(*r, N_ROLES)));
                let res = store.grant(&addr(ai), &name);
                let ok_expected = match model.roles.get(&name) {
                    Some((idx, true)) => {
                        if model.grants.contains(&(ai, *idx)) {
                            false
                        } else if !model.members().contains(&ai) && model.members().len() >= 64 {
                            hit_member_cap = true;
                            false
                        } else {
                            true
                        }
                    }
                    _ => false,
                };
                if ok_expected {
                    res.map_err(|e| format!("step {step}: grant({ai},{name}) failed: {e}"))?;
                    let idx = model.roles[&name].0;
                    model.grants.insert((ai, idx));
                } else if res.is_ok() || !unchanged(&store) {
                    return Err(format!("step {step}: grant({ai},{name}) should fail without side effects (already held / role not enabled / members full)"));
                }
            }
            Op::Revoke(a, r) => {
                let (ai, name) = (pick(*a, N_ADDRS), role_name(pick(*r, N_ROLES)));
                let res = store.revoke(&addr(ai), &name);
                let held = model.roles.get(&name).map(|(idx, _)| model.grants.contains(&(ai, *idx))).unwrap_or(false);
                if held {
                    res.map_err(|e| format!("step {step}: revoke({ai},{name}) failed: {e}"))?;
                    let (idx, enabled) = model.roles[&name];
                    revoked_disabled |= !enabled;
                    model.grants.remove(&(ai, idx));
                } else if res.is_ok() || !unchanged(&store) {
                    return Err(format!("step {step}: revoking the absent grant ({ai},{name}) did not fail cleanly"));
                }
            }
            Op::Query(a, r) => {
                let (ai, name) = (pick(*a, N_ADDRS), role_name(pick(*r, N_ROLES)));
                let got = store.has_role(&addr(ai), &name);
                let expect_true = if model.restarted { model.holds(ai, RoleKey::RESTART_ADMIN) } else { model.holds(ai, &name) };
                match (&got, expect_true) {
                    (Ok(true), true) => {}
                    (Ok(true), false) => return Err(format!("step {step}: has_role({ai},{name}) = true but the model says not held (restarted={})", model.restarted)),
                    (_, true) => return Err(format!("step {step}: has_role({ai},{name}) = {got:?} but the role is enabled and granted (restarted={})", model.restarted)),
                    (_, false) => {
                        if model.restarted && got.is_ok() {
                            return Err(format!("step {step}: after a restart a non restart-admin got {got:?} instead of an error"));
                        }
                    }
                }
                rec.class_if(expect_true, "query_true");
                rec.class_if(!expect_true, "query_not_held");
            }
            Op::QueryAdmin(a) => {
                let ai = pick(*a, N_ADDRS);
                let got = store.has_admin_role(&addr(ai));
                let expect_true = ai == 0 || (model.restarted && model.holds(ai, RoleKey::RESTART_ADMIN));
                match (&got, expect_true) {
                    (Ok(true), true) => {}
                    (Ok(true), false) => return Err(format!("step {step}: has_admin_role({ai}) = true unexpectedly")),
                    (_, true) => return Err(format!("step {step}: has_admin_role({ai}) = {got:?}, expected true")),
                    _ => {}
                }
            }
            Op::SetRestarted(b) => {
                toggled = true;
                model.restarted = *b;
                svm::set_sysvars(svm::Sysvars { last_restart_slot: if *b { 777 } else { 0 }, ..Default::default() });
            }
        }
        // global observations
        if !unchanged(&store) && matches!(op, Op::Query(..) | Op::QueryAdmin(..) | Op::SetRestarted(..)) {
            return Err(format!("step {step}: a query changed the store"));
        }
        if store.role().num_roles() != model.roles.len() {
            return Err(format!("step {step}: {} roles stored, model has {}", store.role().num_roles(), model.roles.len()));
        }
        if store.role().num_members() != model.members().len() {
            return Err(format!("step {step}: {} members stored, model has {} addresses with a grant", store.role().num_members(), model.members().len()));
        }
        let stored: BTreeSet<Pubkey> = store.role().members().collect();
        let expect: BTreeSet<Pubkey> = model.members().into_iter().map(addr).collect();
        if stored != expect {
            return Err(format!("step {step}: member set differs from the model"));
        }
    }
    svm::set_sysvars(svm::Sysvars::default());
    rec.class_if(hit_role_cap, "role_capacity");
    rec.class_if(hit_member_cap, "member_capacity");
    rec.class_if(revoked_disabled, "revoke_under_disabled_role");
    rec.class_if(toggled, "restart_toggled");
    rec.nontrivial_if(hit_role_cap || hit_member_cap || revoked_disabled || toggled);
    Ok(())
}

pub fn run(ctx: &mut Ctx) {
    ctx.rule("cases = sequences (1..50 ops, optionally prefixed by 35 enables, 67 grants or a restart-admin setup) of enable/disable/grant/revoke/has_role/has_admin_role/restart toggles over 35 role names and 67 addresses (hot subset of 4 roles x 5 addresses) applied to a zeroed+initialised Store through its public API with stubbed sysvars; oracle = reference model {role -> (index, enabled)}, {(address, role)} grants: has_role == Ok(true) iff enabled and granted (after restart: iff holder of the enabled RESTART_ADMIN role, everyone else gets an error), failing operations leave the store bytes unchanged, member set == addresses with a grant, role/member counts equal; non-trivial = sequence reaches a capacity, revokes under a disabled role or toggles the restart");
    ctx.assume("last-restart-slot sysvar is stubbed through syscall stubs; instruction-level access control is C19");
    let n = ctx.cases(30_000, 1_500_000);
    ctx.search("roles", n, case, check);
    ctx.floor("roles:role_capacity", 500);
    ctx.floor("roles:member_capacity", 500);
    ctx.floor("roles:revoke_under_disabled_role", 200);
    ctx.floor("roles:restart_toggled", 2_000);
    // instruction path (svm-lite world W1)
    crate::props::c18i::run_c18_instr(ctx);
}
