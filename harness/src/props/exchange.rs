//! C22 / C23 / C44 (and program clauses of C09 / C32 / C45) on the svm-lite exchange world
//! (`world2`): every instruction below is the real `gmsol_store` entrypoint.

use crate::engine::{pick, Ctx, Rec};
use crate::svm::{self, Svm};
use crate::world2::{self as w2, ata, token_amount, vault_of, DepositRef, OrderRef, ShiftRef, WithdrawalRef, World, USD};
use anchor_lang::solana_program::{instruction::Instruction, program_error::ProgramError, pubkey::Pubkey};
use proptest::prelude::*;
use serde::{Deserialize, Serialize};
use std::collections::{BTreeMap, BTreeSet};

const NON_PURE: [usize; 4] = [0, 1, 2, 3];
const N_MARKETS: usize = 6;

fn is_runtime_rule(e: &ProgramError) -> bool {
    matches!(e, ProgramError::Custom(c) if (0xdead_0001..=0xdead_0007).contains(c))
}

/// Raw amount of `token` worth roughly `$ (a+1)` .. (long token: $100, 9 decimals; short: $1, 6 decimals).
fn amt(w: &World, token: &Pubkey, a: u16) -> u64 {
    if *token == w.long_mint {
        (a as u64 + 1) * 10_000_000
    } else {
        (a as u64 + 1) * 1_000_000
    }
}

/// USD value (unit 1e20) of a raw token amount at the model mid price.
fn usd_value(w: &World, token: &Pubkey, raw: u64) -> u128 {
    let (mid, _) = w.prices[token];
    let dec = if *token == w.long_mint { w2::LONG_DECIMALS } else { w2::SHORT_DECIMALS } as u32;
    raw as u128 * mid * 10u128.pow(12) / 10u128.pow(dec)
}

fn other_token(w: &World, t: &Pubkey) -> Pubkey {
    if *t == w.long_mint {
        w.short_mint
    } else {
        w.long_mint
    }
}

// ============================================================================================ C22

#[derive(Debug, Clone, Serialize, Deserialize)]
pub enum Op {
    Deposit { user: u8, market: u8, long: u16, short: u16, via: u8, fate: u8 },
    Withdraw { user: u8, market: u8, frac: u8, swap_out: bool, fate: u8 },
    Shift { user: u8, from: u8, to: u8, frac: u8, fate: u8 },
    Swap { user: u8, start_long: bool, hops: Vec<u8>, amount: u16, fate: u8 },
    Increase { user: u8, market: u8, is_long: bool, collateral_long: bool, pay_other: bool, amount: u16, leverage: u8, fate: u8 },
    Decrease { which: u16, frac: u8, withdraw: u8, out_other: bool, fate: u8 },
    Liquidate { which: u16 },
    ClaimFees { market: u8, long: bool },
    TransferIn { market: u8, long: bool, amount: u16 },
    Price { token: u8, pct: i8, spread: u8 },
    Clock { secs: u16 },
    /// A receiver opens on one side, two payers with different collateral tokens open a larger opposite side, time
    /// passes, then the receiver increases its (existing) position: claimable funding in both tokens is settled.
    FundedIncrease { market: u8, receiver_long: bool, amount: u16, secs: u16 },
}

#[derive(Debug, Clone, Serialize, Deserialize)]
pub struct History {
    pub ops: Vec<Op>,
}

fn fate() -> impl Strategy<Value = u8> {
    // 0 execute + close, 1 owner cancels while pending, 2 soft failure (impossible min output) + close, 3 left pending
    prop_oneof![12 => Just(0u8), 2 => Just(1u8), 2 => Just(2u8), 1 => Just(3u8)]
}

fn op() -> impl Strategy<Value = Op> {
    let a = || prop_oneof![3 => 0u16..2000, 1 => 2000u16..60000, 1 => Just(0u16)];
    prop_oneof![
        3 => (0u8..3, 0u8..6, a(), a(), 0u8..4, fate()).prop_map(|(user, market, long, short, via, fate)| Op::Deposit { user, market, long, short, via, fate }),
        3 => (0u8..3, 0u8..6, any::<u8>(), any::<bool>(), fate()).prop_map(|(user, market, frac, swap_out, fate)| Op::Withdraw { user, market, frac, swap_out, fate }),
        2 => (0u8..3, 0u8..4, 0u8..4, any::<u8>(), fate()).prop_map(|(user, from, to, frac, fate)| Op::Shift { user, from, to, frac, fate }),
        4 => (0u8..3, any::<bool>(), proptest::collection::vec(0u8..4, 1..4), a(), fate()).prop_map(|(user, start_long, hops, amount, fate)| Op::Swap { user, start_long, hops, amount, fate }),
        5 => (0u8..3, 0u8..6, any::<bool>(), any::<bool>(), prop_oneof![3 => Just(false), 1 => Just(true)], a(), 1u8..50, fate()).prop_map(|(user, market, is_long, collateral_long, pay_other, amount, leverage, fate)| Op::Increase { user, market, is_long, collateral_long, pay_other, amount, leverage, fate }),
        3 => (any::<u16>(), any::<u8>(), 0u8..4, prop_oneof![3 => Just(false), 1 => Just(true)], fate()).prop_map(|(which, frac, withdraw, out_other, fate)| Op::Decrease { which, frac, withdraw, out_other, fate }),
        3 => any::<u16>().prop_map(|which| Op::Liquidate { which }),
        2 => (0u8..6, any::<bool>()).prop_map(|(market, long)| Op::ClaimFees { market, long }),
        1 => (0u8..6, any::<bool>(), a()).prop_map(|(market, long, amount)| Op::TransferIn { market, long, amount }),
        4 => (0u8..4, prop_oneof![3 => -15i8..=15, 1 => -60i8..=60], 0u8..40).prop_map(|(token, pct, spread)| Op::Price { token, pct, spread }),
        1 => (prop_oneof![3 => 1u16..100, 1 => 100u16..5000]).prop_map(|secs| Op::Clock { secs }),
        1 => (0u8..4, any::<bool>(), 200u16..1500, 600u16..20000).prop_map(|(market, receiver_long, amount, secs)| Op::FundedIncrease { market, receiver_long, amount, secs }),
    ]
}

fn history() -> impl Strategy<Value = History> {
    proptest::collection::vec(op(), 10..=30).prop_map(|ops| History { ops })
}

#[derive(Clone, Debug, PartialEq, Eq)]
struct PosKey {
    owner: Pubkey,
    market: usize,
    is_long: bool,
    collateral_long: bool,
}

/// Interpreter state for the exchange histories.
struct Run<'a> {
    w: World,
    rec: &'a mut Rec,
    positions: Vec<PosKey>,
    touched: BTreeSet<usize>,
    multi_hop: bool,
    check_solvency: bool,
}

impl Run<'_> {
    /// Execute one instruction; after a success check the C22 invariant.
    fn exec(&mut self, what: &str, i: &Instruction) -> Result<Result<(), ProgramError>, String> {
        let r = self.w.vm.process(i);
        match &r {
            Ok(()) => {
                if self.check_solvency {
                    self.w.check_solvency().map_err(|e| format!("after successful `{what}`: {e}"))?;
                }
            }
            Err(e) if is_runtime_rule(e) => {
                return Err(format!("`{what}` broke a runtime rule of svm-lite: {e:?} {:?}", svm::take_logs().last()));
            }
            Err(_) => {}
        }
        Ok(r)
    }

    fn all(&mut self, what: &str, ixs: &[Instruction]) -> Result<bool, String> {
        for i in ixs {
            if self.exec(what, i)?.is_err() {
                return Ok(false);
            }
        }
        Ok(true)
    }

    fn fresh(&mut self) -> Result<(), String> {
        self.w.advance(1);
        self.w.refresh_prices()
    }

    fn nonpure_other_than(&self, m: usize, salt: usize) -> usize {
        let c: Vec<usize> = NON_PURE.iter().copied().filter(|k| *k != m).collect();
        c[salt % c.len()]
    }

    /// Output swap path of 1..=3 distinct long/short markets other than `m` (rotation chosen by `salt`),
    /// optionally followed or preceded by `m` itself when it is a long/short market ("[A, current]" and
    /// "[current, A]" shapes).
    fn out_path(&self, m: usize, salt: usize) -> Vec<usize> {
        let c: Vec<usize> = NON_PURE.iter().copied().filter(|k| *k != m).collect();
        let hops = 1 + (salt / 64) % 3;
        let mut path: Vec<usize> = (0..hops.min(c.len())).map(|i| c[(salt + i) % c.len()]).collect();
        if NON_PURE.contains(&m) {
            // the current market itself at the end ("[A, current]") or at the start ("[current, A]") of the path
            match (salt / 16) % 4 {
                1 => path.push(m),
                2 => path.insert(0, m),
                _ => {}
            }
        }
        path
    }

    fn step(&mut self, op: &Op) -> Result<(), String> {
        let keeper = self.w.keeper;
        let (lm, sm) = (self.w.long_mint, self.w.short_mint);
        match op {
            Op::Deposit { user, market, long, short, via, fate } => {
                let owner = self.w.user(*user as usize);
                let m = *market as usize % N_MARKETS;
                let info = self.w.markets[m].clone();
                let mut r;
                if info.is_pure() {
                    let a = amt(&self.w, &info.long, *long);
                    if *via >= 2 {
                        // pay with the other token through one long/short market
                        let pay = other_token(&self.w, &info.long);
                        let a = amt(&self.w, &pay, *long);
                        r = self.w.deposit_ref(owner, m, Some(pay), None, a, 0);
                        r.long_path = vec![NON_PURE[*short as usize % 4]];
                    } else {
                        r = self.w.deposit_ref(owner, m, Some(info.long), None, a, 0);
                    }
                } else {
                    match via {
                        1 => {
                            // long side paid in the short token through another market
                            let a = amt(&self.w, &sm, *long);
                            let b = amt(&self.w, &sm, *short);
                            r = self.w.deposit_ref(owner, m, Some(sm), Some(sm), a, b);
                            r.long_path = vec![self.nonpure_other_than(m, *long as usize)];
                        }
                        2 => {
                            // short side paid in the long token, two hops for the long side
                            let a = amt(&self.w, &lm, *long);
                            let b = amt(&self.w, &lm, *short);
                            r = self.w.deposit_ref(owner, m, Some(lm), Some(lm), a, b);
                            let k1 = self.nonpure_other_than(m, *long as usize);
                            let k2 = NON_PURE.iter().copied().find(|k| *k != m && *k != k1).unwrap();
                            r.long_path = vec![k1, k2];
                            r.short_path = vec![k1];
                        }
                        3 => {
                            let a = amt(&self.w, &lm, *long);
                            r = self.w.deposit_ref(owner, m, Some(lm), None, a, 0);
                        }
                        _ => {
                            let a = amt(&self.w, &lm, *long);
                            let b = amt(&self.w, &sm, *short);
                            r = self.w.deposit_ref(owner, m, Some(lm), Some(sm), a, b);
                        }
                    }
                }
                if *fate == 2 {
                    r.min_out = u64::MAX;
                }
                let prep = self.w.ixs_prepare_deposit(&r);
                if !self.all("prepare escrow", &prep)? {
                    return Ok(());
                }
                if self.exec("create_deposit", &self.w.ix_create_deposit(&r))?.is_err() {
                    self.rec.class("create_rejected");
                    return Ok(());
                }
                match fate {
                    1 => {
                        if self.exec("close_deposit (pending, owner)", &self.w.ix_close_deposit(&r, owner))?.is_ok() {
                            self.rec.class("owner_cancelled");
                        }
                    }
                    3 => self.rec.class("left_pending"),
                    _ => {
                        self.fresh()?;
                        if self.exec("execute_deposit", &self.w.ix_execute_deposit(&r, keeper, 5000, false))?.is_ok() {
                            match w2::action_state(&self.w.vm, &r.deposit) {
                                Some(1) => {
                                    self.rec.class("deposit_executed");
                                    self.touched.insert(m);
                                    self.rec.class_if(!r.long_path.is_empty(), "deposit_with_swap_executed");
                                }
                                Some(2) => self.rec.class("soft_cancelled"),
                                _ => {}
                            }
                        } else {
                            self.rec.class("execute_failed");
                        }
                        let closer = if *long % 2 == 0 { owner } else { keeper };
                        self.exec("close_deposit", &self.w.ix_close_deposit(&r, closer))?;
                    }
                }
            }
            Op::Withdraw { user, market, frac, swap_out, fate } => {
                let owner = self.w.user(*user as usize);
                let m = *market as usize % N_MARKETS;
                let info = self.w.markets[m].clone();
                let bal = token_amount(&self.w.vm, &ata(&owner, &info.token));
                let amount = (bal as u128 * (*frac as u128 + 1) / 256) as u64;
                if amount == 0 {
                    return Ok(());
                }
                let mut r = self.w.withdrawal_ref(owner, m, amount);
                if *swap_out && !info.is_pure() {
                    // take the long-token output through 1..4 other markets (each hop flips long <-> short)
                    r.long_path = self.out_path(m, *frac as usize);
                    r.final_long_token = if r.long_path.len() % 2 == 1 { sm } else { lm };
                    self.rec.class_if(r.long_path.len() >= 2, "withdrawal_out_path_of_2_or_more_markets");
                }
                if *fate == 2 {
                    r.min_long = u64::MAX;
                }
                let prep = self.w.ixs_prepare_withdrawal(&r);
                if !self.all("prepare escrow", &prep)? {
                    return Ok(());
                }
                if self.exec("create_withdrawal", &self.w.ix_create_withdrawal(&r))?.is_err() {
                    self.rec.class("create_rejected");
                    return Ok(());
                }
                match fate {
                    1 => {
                        if self.exec("close_withdrawal (pending, owner)", &self.w.ix_close_withdrawal(&r, owner))?.is_ok() {
                            self.rec.class("owner_cancelled");
                        }
                    }
                    3 => self.rec.class("left_pending"),
                    _ => {
                        self.fresh()?;
                        if self.exec("execute_withdrawal", &self.w.ix_execute_withdrawal(&r, keeper, 5000, false))?.is_ok() {
                            match w2::action_state(&self.w.vm, &r.withdrawal) {
                                Some(1) => {
                                    self.rec.class("withdrawal_executed");
                                    self.touched.insert(m);
                                    self.rec.class_if(!r.long_path.is_empty(), "withdrawal_with_swap_executed");
                                }
                                Some(2) => self.rec.class("soft_cancelled"),
                                _ => {}
                            }
                        } else {
                            self.rec.class("execute_failed");
                        }
                        let closer = if *frac % 2 == 0 { owner } else { keeper };
                        self.exec("close_withdrawal", &self.w.ix_close_withdrawal(&r, closer))?;
                    }
                }
            }
            Op::Shift { user, from, to, frac, fate } => {
                let owner = self.w.user(*user as usize);
                let (f, t) = (*from as usize % 4, *to as usize % 4);
                if f == t {
                    return Ok(());
                }
                let bal = token_amount(&self.w.vm, &ata(&owner, &self.w.markets[f].token));
                let amount = (bal as u128 * (*frac as u128 + 1) / 256) as u64;
                if amount == 0 {
                    return Ok(());
                }
                let mut r = self.w.shift_ref(owner, f, t, amount);
                if *fate == 2 {
                    r.min_out = u64::MAX;
                }
                let prep = self.w.ixs_prepare_shift(&r);
                if !self.all("prepare escrow", &prep)? {
                    return Ok(());
                }
                if self.exec("create_shift", &self.w.ix_create_shift(&r))?.is_err() {
                    self.rec.class("create_rejected");
                    return Ok(());
                }
                match fate {
                    1 => {
                        if self.exec("close_shift (pending, owner)", &self.w.ix_close_shift(&r, owner))?.is_ok() {
                            self.rec.class("owner_cancelled");
                        }
                    }
                    3 => self.rec.class("left_pending"),
                    _ => {
                        self.fresh()?;
                        if self.exec("execute_shift", &self.w.ix_execute_shift(&r, keeper, 5000, false))?.is_ok() {
                            match w2::action_state(&self.w.vm, &r.shift) {
                                Some(1) => {
                                    self.rec.class("shift_executed");
                                    self.touched.insert(f);
                                    self.touched.insert(t);
                                }
                                Some(2) => self.rec.class("soft_cancelled"),
                                _ => {}
                            }
                        } else {
                            self.rec.class("execute_failed");
                        }
                        self.exec("close_shift", &self.w.ix_close_shift(&r, owner))?;
                    }
                }
            }
            Op::Swap { user, start_long, hops, amount, fate } => {
                let owner = self.w.user(*user as usize);
                let path: Vec<usize> = hops.iter().map(|h| NON_PURE[*h as usize % 4]).collect();
                let token_in = if *start_long { lm } else { sm };
                let out_is_long = if path.len() % 2 == 1 { !*start_long } else { *start_long };
                let a = amt(&self.w, &token_in, *amount);
                let mut r = self.w.swap_order_ref(owner, *path.last().unwrap(), token_in, out_is_long, path.clone(), a);
                if *fate == 2 {
                    r.min_output = Some(u128::MAX);
                }
                self.order_flow(r, *fate, *amount % 2 == 0)?;
            }
            Op::Increase { user, market, is_long, collateral_long, pay_other, amount, leverage, fate } => {
                let owner = self.w.user(*user as usize);
                let m = *market as usize % N_MARKETS;
                let info = self.w.markets[m].clone();
                let collateral = if *collateral_long { info.long } else { info.short };
                let (pay, path) = if *pay_other { (other_token(&self.w, &collateral), vec![NON_PURE[*amount as usize % 4]]) } else { (collateral, vec![]) };
                let a = amt(&self.w, &pay, *amount);
                let size = usd_value(&self.w, &pay, a) * *leverage as u128;
                let mut r = self.w.increase_order_ref(owner, m, *is_long, *collateral_long, pay, path, a, size);
                if *fate == 2 {
                    r.acceptable_price = Some(if *is_long { 1 } else { u128::MAX });
                }
                self.order_flow(r, *fate, *amount % 2 == 0)?;
            }
            Op::Decrease { which, frac, withdraw, out_other, fate } => {
                if self.positions.is_empty() {
                    return Ok(());
                }
                let p = self.positions[pick(*which, self.positions.len())].clone();
                let info = self.w.markets[p.market].clone();
                let position = self.w.position_of(&p.owner, p.market, p.collateral_long, p.is_long);
                let Some(state) = self.w.position_state(&position) else { return Ok(()) };
                let size = if *frac >= 192 { state.state.size_in_usd } else { state.state.size_in_usd * (*frac as u128 + 1) / 256 };
                let collateral = if p.collateral_long { info.long } else { info.short };
                let wd = (state.state.collateral_amount * *withdraw as u128 / 16) as u64;
                let (out, path) = if *out_other {
                    let path = if *withdraw % 2 == 0 { vec![NON_PURE[*frac as usize % 4]] } else { self.out_path(p.market, *frac as usize) };
                    self.rec.class_if(path.len() >= 2, "decrease_out_path_of_2_or_more_markets");
                    (if path.len() % 2 == 1 { other_token(&self.w, &collateral) } else { collateral }, path)
                } else {
                    (collateral, vec![])
                };
                let mut r = self.w.decrease_order_ref(p.owner, p.market, p.is_long, p.collateral_long, out, path, wd, size);
                if *fate == 2 {
                    r.acceptable_price = Some(if p.is_long { u128::MAX } else { 1 });
                }
                self.order_flow(r, *fate, *frac % 2 == 0)?;
            }
            Op::Liquidate { which } => {
                if self.positions.is_empty() {
                    return Ok(());
                }
                let p = self.positions[pick(*which, self.positions.len())].clone();
                self.fresh()?;
                let r = self.w.liquidation_ref(keeper, p.owner, p.market, p.is_long, p.collateral_long);
                let prep = self.w.ixs_prepare_liquidation(&r, keeper);
                if !self.all("prepare liquidation", &prep)? {
                    return Ok(());
                }
                match self.exec("liquidate", &self.w.ix_liquidate(&r, keeper, 5000))? {
                    Ok(()) => {
                        self.rec.class("liquidation_executed");
                        self.touched.insert(p.market);
                        self.positions.retain(|q| *q != p);
                        self.exec("close_order (liquidation)", &self.w.ix_close_order(&r, keeper))?;
                    }
                    Err(_) => self.rec.class("liquidation_rejected"),
                }
            }
            Op::ClaimFees { market, long } => {
                let m = *market as usize % N_MARKETS;
                let info = self.w.markets[m].clone();
                let mint = if *long { info.long } else { info.short };
                let admin = self.w.admin;
                let before = token_amount(&self.w.vm, &ata(&admin, &mint));
                if self.exec("claim_fees_from_market", &self.w.ix_claim_fees(admin, m, mint))?.is_ok() {
                    self.rec.class_if(token_amount(&self.w.vm, &ata(&admin, &mint)) > before, "fees_claimed");
                }
            }
            Op::TransferIn { market, long, amount } => {
                let m = *market as usize % N_MARKETS;
                let info = self.w.markets[m].clone();
                let mint = if *long { info.long } else { info.short };
                let a = amt(&self.w, &mint, *amount);
                if self.exec("market_transfer_in", &self.w.ix_market_transfer_in(keeper, m, mint, a))?.is_ok() {
                    self.rec.class("transfer_in");
                }
            }
            Op::Price { token, pct, spread } => {
                let tokens = [lm, sm, self.w.index_token, self.w.index_token2];
                let t = tokens[*token as usize % 4];
                let base: u128 = [100u128, 1, 2000, 50][*token as usize % 4] * 100_000_000;
                let (mid, _) = self.w.prices[&t];
                let new = (mid as i128 * (100 + *pct as i128) / 100).max((base / 10) as i128).min((base * 10) as i128) as u128;
                // the short token is a stablecoin: keep it within 5 %
                let new = if t == sm { new.clamp(base * 95 / 100, base * 105 / 100) } else { new };
                self.w.set_price(&t, new, *spread as u128);
                self.rec.class("price_change");
            }
            Op::Clock { secs } => {
                self.w.advance(*secs as i64);
                self.rec.class("clock_change");
            }
            Op::FundedIncrease { market, receiver_long, amount, secs } => {
                let m = NON_PURE[*market as usize % 4] as u8;
                let inc = |user: u8, is_long: bool, collateral_long: bool, amount: u16| Op::Increase { user, market: m, is_long, collateral_long, pay_other: false, amount, leverage: 4, fate: 0 };
                self.step(&inc(0, *receiver_long, true, *amount))?;
                self.step(&inc(1, !*receiver_long, true, amount.saturating_mul(2)))?;
                self.step(&inc(2, !*receiver_long, false, amount.saturating_mul(3)))?;
                self.step(&Op::Clock { secs: *secs })?;
                self.step(&inc(0, *receiver_long, true, *amount / 2 + 1))?;
                self.rec.class("funded_increase_scenario");
            }
        }
        Ok(())
    }

    /// prepare -> create -> (cancel | execute -> close) for an order.
    fn order_flow(&mut self, r: OrderRef, fate: u8, owner_closes: bool) -> Result<(), String> {
        let keeper = self.w.keeper;
        let prep = self.w.ixs_prepare_order(&r);
        if !self.all("prepare order", &prep)? {
            self.rec.class("prepare_rejected");
            return Ok(());
        }
        if self.exec("create_order_v2", &self.w.ix_create_order(&r))?.is_err() {
            self.rec.class("create_rejected");
            return Ok(());
        }
        match fate {
            1 => {
                if self.exec("close_order_v2 (pending, owner)", &self.w.ix_close_order(&r, r.owner))?.is_ok() {
                    self.rec.class("owner_cancelled");
                }
            }
            3 => self.rec.class("left_pending"),
            _ => {
                self.fresh()?;
                if r.is_decrease() {
                    let prep = self.w.ixs_prepare_claimables(keeper, r.market, r.owner, r.is_long);
                    self.all("use_claimable_account", &prep)?;
                }
                // claimable funding settled by an increase of an existing position goes to the order's long /
                // short token escrows: remember what is needed to recompute it per token
                let funding_probe = if r.is_increase() {
                    r.position.and_then(|p| self.w.position_state(&p)).filter(|s| s.state.size_in_usd != 0).map(|s| {
                        let info = self.w.markets[r.market].clone();
                        (
                            s.state.size_in_usd,
                            s.state.long_token_claimable_funding_amount_per_size,
                            s.state.short_token_claimable_funding_amount_per_size,
                            token_amount(&self.w.vm, &ata(&r.order, &info.long)),
                            token_amount(&self.w.vm, &ata(&r.order, &info.short)),
                        )
                    })
                } else {
                    None
                };
                if self.exec("execute_order", &self.w.ix_execute_order(&r, keeper, 5000, false))?.is_ok() {
                    if let (Some((size, long_ps, short_ps, long_before, short_before)), Some(1)) = (funding_probe, w2::action_state(&self.w.vm, &r.order)) {
                        let info = self.w.markets[r.market].clone();
                        if let Some(after) = r.position.and_then(|p| self.w.position_state(&p)) {
                            use num_bigint::BigInt;
                            // floor(size * (latest - snapshot) / (adjustment * UNIT)), adjustment = 10^(MARKET_DECIMALS / 2)
                            let denom = BigInt::from(10u128.pow(10)) * BigInt::from(10u128.pow(20));
                            let expect = |latest: u128, prev: u128| -> BigInt { BigInt::from(size) * (BigInt::from(latest) - BigInt::from(prev)) / &denom };
                            let want_long = expect(after.state.long_token_claimable_funding_amount_per_size, long_ps);
                            let want_short = expect(after.state.short_token_claimable_funding_amount_per_size, short_ps);
                            // what the order paid in from its escrows (no swap path: the pay token is the collateral token)
                            let pay = r.initial_collateral_token.unwrap_or(r.final_output_token);
                            let paid_long = if pay == info.long { r.amount } else { 0 };
                            let paid_short = if pay == info.short && info.short != info.long { r.amount } else { 0 };
                            let got_long = BigInt::from(token_amount(&self.w.vm, &ata(&r.order, &info.long))) + BigInt::from(paid_long) - BigInt::from(long_before);
                            let got_short = BigInt::from(token_amount(&self.w.vm, &ata(&r.order, &info.short))) + BigInt::from(paid_short) - BigInt::from(short_before);
                            if info.long != info.short {
                                if got_long != want_long || got_short != want_short {
                                    return Err(format!(
                                        "increase of an existing position settled claimable funding (long token {got_long}, short token {got_short}) into the order's escrows, the position's per-size indices give (long {want_long}, short {want_short})"
                                    ));
                                }
                                self.rec.class_if(want_long != BigInt::from(0) || want_short != BigInt::from(0), "increase_settled_claimable_funding");
                                self.rec.class_if(want_long != want_short, "increase_settled_different_funding_amounts_per_token");
                            }
                        }
                    }
                    match w2::action_state(&self.w.vm, &r.order) {
                        Some(1) => {
                            for m in r.path.iter().chain([&r.market]) {
                                self.touched.insert(*m);
                            }
                            if r.is_swap() {
                                self.rec.class("swap_executed");
                                if r.path.len() >= 2 {
                                    self.multi_hop = true;
                                    self.rec.class("multi_hop_swap_executed");
                                }
                            } else if r.is_increase() {
                                self.rec.class("increase_executed");
                                self.rec.class_if(!r.path.is_empty(), "increase_with_swap_executed");
                                let k = PosKey { owner: r.owner, market: r.market, is_long: r.is_long, collateral_long: r.is_collateral_long };
                                if !self.positions.contains(&k) {
                                    self.positions.push(k);
                                }
                            } else {
                                self.rec.class("decrease_executed");
                                self.rec.class_if(!r.path.is_empty(), "decrease_with_swap_executed");
                                let gone = r.position.map(|p| self.w.position_state(&p).map(|s| s.state.size_in_usd == 0).unwrap_or(true)).unwrap_or(false);
                                if gone {
                                    let k = PosKey { owner: r.owner, market: r.market, is_long: r.is_long, collateral_long: r.is_collateral_long };
                                    self.positions.retain(|q| *q != k);
                                    self.rec.class("position_closed_by_decrease");
                                }
                            }
                        }
                        Some(2) => self.rec.class("soft_cancelled"),
                        _ => {}
                    }
                } else {
                    self.rec.class("execute_failed");
                }
                let closer = if owner_closes { r.owner } else { keeper };
                self.exec("close_order_v2", &self.w.ix_close_order(&r, closer))?;
            }
        }
        Ok(())
    }
}

fn check_c22(h: &History, rec: &mut Rec) -> Result<(), String> {
    let w = World::seeded()?;
    w.check_solvency().map_err(|e| format!("seeded world: {e}"))?;
    let mut run = Run { w, rec, positions: vec![], touched: BTreeSet::new(), multi_hop: false, check_solvency: true };
    for (i, op) in h.ops.iter().enumerate() {
        run.step(op).map_err(|e| format!("op {i} {op:?}: {e}"))?;
    }
    run.w.check_solvency().map_err(|e| format!("end of history: {e}"))?;
    let (touched, multi) = (run.touched.len(), run.multi_hop);
    rec.class_if(touched >= 2, "two_or_more_markets_touched");
    rec.nontrivial_if(touched >= 2 && multi);
    svm::set_sysvars(svm::Sysvars::default());
    Ok(())
}

pub fn run_c22(ctx: &mut Ctx) {
    ctx.rule("cases = histories of 10..30 operations over six markets of one store (four long/short markets sharing both vaults, two single-token markets sharing one vault each) seeded with $500k per side: deposits (plain, paid through 1-2 hop swap paths), withdrawals (plain / swapped out), shifts, market swaps of 1-3 hops, increases (paid in either token, 1-49x), decreases (partial / full / with collateral withdrawal / swapped output), liquidation attempts, fee claims by the receiver, keeper market_transfer_in, price moves (-60..+60 %, spreads) and clock jumps; each action is cancelled by its owner, executed by the keeper (successfully or with an impossible min-output / acceptable price) and closed, or left pending; every instruction is the real gmsol_store entrypoint in svm-lite; oracle (after EVERY successful instruction, computed from the account bytes): per market and pool token recorded balance >= liquidity + swap-impact + claimable-fee pool amounts and >= total collateral, per vault sum of recorded balances of the markets using it <= SPL token account amount; non-trivial = at least two markets touched by executed actions and a multi-hop swap executed");
    ctx.assume("svm-lite is not the Solana runtime (no compute/heap limits); custom price feeds are written through the verif hook price_feed_update instead of a signed Chainlink report; the first signer of an instruction is treated as the writable fee payer; GLV actions, GLV shifts, ADL, closed-state updates and market toggles are the search `solvency_glv`; virtual inventories are not configured");
    let n = ctx.cases(800, 40_000);
    ctx.search("solvency", n, history, check_c22);
    for (class, floor) in [("deposit_executed", 100), ("withdrawal_executed", 40), ("shift_executed", 20), ("multi_hop_swap_executed", 60), ("increase_executed", 100), ("decrease_executed", 30), ("liquidation_executed", 5), ("liquidation_rejected", 40), ("fees_claimed", 40), ("soft_cancelled", 60), ("owner_cancelled", 60), ("two_or_more_markets_touched", 200), ("withdrawal_out_path_of_2_or_more_markets", 40), ("increase_settled_claimable_funding", 40), ("decrease_out_path_of_2_or_more_markets", 15)] {
        ctx.floor(&format!("solvency:{class}"), floor);
    }
}

// ============================================================================================ C23

#[derive(Debug, Clone, Serialize, Deserialize)]
pub enum Step {
    /// by: 0 keeper, 1 second keeper, 2 owner, 3 stranger.
    /// mode: 0 fresh prices; 1 request expired (soft failure); 2 expired + throw_on_execution_error
    /// (hard); 3 feeds older than the heartbeat (hard); 4 prices older than the action (hard);
    /// 5 fresh prices after an adverse 20 % move (restored afterwards).
    Exec { by: u8, mode: u8 },
    /// by: 0 owner, 1 keeper, 2 second keeper, 3 stranger.
    Close { by: u8 },
}

#[derive(Debug, Clone, Serialize, Deserialize)]
pub struct LifeCase {
    /// 0 deposit, 1 withdrawal, 2 shift, 3 market swap, 4 market increase, 5 market decrease.
    pub kind: u8,
    pub market: u8,
    pub amount: u16,
    pub with_path: bool,
    /// Create the action with an unreachable min output / acceptable price.
    pub impossible_min: bool,
    /// Swap / increase orders only: a minimum output (acceptable price) 3 % away from the current
    /// prices, so that an adverse price move (execution mode 5) makes the execution fail softly.
    pub tight_min: bool,
    pub extra_lamports: u32,
    pub fee: u32,
    pub steps: Vec<Step>,
}

fn life_case() -> impl Strategy<Value = LifeCase> {
    let step = prop_oneof![
        5 => (prop_oneof![6 => Just(0u8), 2 => Just(1u8), 1 => Just(2u8), 1 => Just(3u8)], prop_oneof![6 => Just(0u8), 2 => Just(1u8), 1 => Just(2u8), 1 => Just(3u8), 1 => Just(4u8), 6 => Just(5u8)]).prop_map(|(by, mode)| Step::Exec { by, mode }),
        4 => (prop_oneof![2 => Just(0u8), 2 => Just(1u8), 1 => Just(2u8), 2 => Just(3u8)]).prop_map(|by| Step::Close { by }),
    ];
    (prop_oneof![1 => 0u8..6, 1 => 3u8..5], 0u8..6, 0u16..3000, any::<bool>(), prop_oneof![3 => Just(false), 1 => Just(true)], prop_oneof![1 => Just(false), 2 => Just(true)], prop_oneof![1 => Just(0u32), 1 => 0u32..100_000, 10 => 100_000u32..2_000_000], prop_oneof![1 => Just(0u32), 3 => 0u32..3_000_000], proptest::collection::vec(step, 1..7))
        .prop_map(|(kind, market, amount, with_path, impossible_min, tight_min, extra_lamports, fee, steps)| LifeCase { kind, market, amount, with_path, impossible_min, tight_min, extra_lamports, fee, steps })
}

#[derive(Clone, Debug)]
enum AnyAction {
    Deposit(DepositRef),
    Withdrawal(WithdrawalRef),
    Shift(ShiftRef),
    Order(OrderRef),
}

impl AnyAction {
    fn key(&self) -> Pubkey {
        match self {
            AnyAction::Deposit(r) => r.deposit,
            AnyAction::Withdrawal(r) => r.withdrawal,
            AnyAction::Shift(r) => r.shift,
            AnyAction::Order(r) => r.order,
        }
    }
    fn owner(&self) -> Pubkey {
        match self {
            AnyAction::Deposit(r) => r.owner,
            AnyAction::Withdrawal(r) => r.owner,
            AnyAction::Shift(r) => r.owner,
            AnyAction::Order(r) => r.owner,
        }
    }
    fn execution_lamports(&self) -> u64 {
        match self {
            AnyAction::Deposit(r) => r.execution_lamports,
            AnyAction::Withdrawal(r) => r.execution_lamports,
            AnyAction::Shift(r) => r.execution_lamports,
            AnyAction::Order(r) => r.execution_lamports,
        }
    }
    fn prepare(&self, w: &World) -> Vec<Instruction> {
        match self {
            AnyAction::Deposit(r) => w.ixs_prepare_deposit(r),
            AnyAction::Withdrawal(r) => w.ixs_prepare_withdrawal(r),
            AnyAction::Shift(r) => w.ixs_prepare_shift(r),
            AnyAction::Order(r) => w.ixs_prepare_order(r),
        }
    }
    fn create(&self, w: &World) -> Instruction {
        match self {
            AnyAction::Deposit(r) => w.ix_create_deposit(r),
            AnyAction::Withdrawal(r) => w.ix_create_withdrawal(r),
            AnyAction::Shift(r) => w.ix_create_shift(r),
            AnyAction::Order(r) => w.ix_create_order(r),
        }
    }
    fn execute(&self, w: &World, by: Pubkey, fee: u64, throw: bool) -> Instruction {
        match self {
            AnyAction::Deposit(r) => w.ix_execute_deposit(r, by, fee, throw),
            AnyAction::Withdrawal(r) => w.ix_execute_withdrawal(r, by, fee, throw),
            AnyAction::Shift(r) => w.ix_execute_shift(r, by, fee, throw),
            AnyAction::Order(r) => w.ix_execute_order(r, by, fee, throw),
        }
    }
    fn close(&self, w: &World, by: Pubkey) -> Instruction {
        match self {
            AnyAction::Deposit(r) => w.ix_close_deposit(r, by),
            AnyAction::Withdrawal(r) => w.ix_close_withdrawal(r, by),
            AnyAction::Shift(r) => w.ix_close_shift(r, by),
            AnyAction::Order(r) => w.ix_close_order(r, by),
        }
    }
    /// Escrow token accounts of the action.
    fn escrows(&self, w: &World) -> Vec<Pubkey> {
        let k = self.key();
        let mut mints: Vec<Pubkey> = vec![];
        match self {
            AnyAction::Deposit(r) => {
                mints.push(w.markets[r.market].token);
                mints.extend([r.long_token, r.short_token].into_iter().flatten());
            }
            AnyAction::Withdrawal(r) => mints.extend([w.markets[r.market].token, r.final_long_token, r.final_short_token]),
            AnyAction::Shift(r) => mints.extend([w.markets[r.from].token, w.markets[r.to].token]),
            AnyAction::Order(r) => {
                mints.extend(r.initial_collateral_token);
                mints.push(r.final_output_token);
                if !r.is_swap() {
                    mints.extend([w.markets[r.market].long, w.markets[r.market].short]);
                }
            }
        }
        mints.sort();
        mints.dedup();
        mints.iter().map(|m| ata(&k, m)).collect()
    }
}

const PENDING: u8 = 0;
const COMPLETED: u8 = 1;
const CANCELLED: u8 = 2;
const CLOSED: u8 = 3;

fn check_c23(c: &LifeCase, rec: &mut Rec) -> Result<(), String> {
    let mut w = World::seeded()?;
    let (keeper, keeper2, stranger, admin) = (w.keeper, w.keeper2, w.stranger, w.admin);
    let (lm, sm) = (w.long_mint, w.short_mint);
    let m = c.market as usize % N_MARKETS;
    let info = w.markets[m].clone();
    let kind = c.kind % 6;
    // the liquidity provider of the seeded world owns market tokens; other kinds use user 0
    let owner = if kind == 1 || kind == 2 { w.user(2) } else { w.user(0) };
    let other_np = |k: usize| NON_PURE.iter().copied().find(|x| *x != k).unwrap();

    // ---- set-up that is not part of the measured lifecycle: a position for decrease orders
    if kind == 5 {
        let a = amt(&w, &info.long, 500);
        let size = usd_value(&w, &info.long, a) * 3;
        let r = w.increase_order_ref(owner, m, true, true, info.long, vec![], a, size);
        for i in w.ixs_prepare_order(&r) {
            w.vm.process(&i).map_err(|e| format!("setup prepare: {e:?}"))?;
        }
        w.vm.process(&w.ix_create_order(&r)).map_err(|e| format!("setup create increase: {e:?}"))?;
        w.advance(1);
        w.refresh_prices()?;
        w.vm.process(&w.ix_execute_order(&r, keeper, 0, true)).map_err(|e| format!("setup execute increase: {e:?}"))?;
        w.vm.process(&w.ix_close_order(&r, owner)).map_err(|e| format!("setup close increase: {e:?}"))?;
    }
    w.advance(2);

    // ---- build the action
    let exec_lamports = 200_000 + c.extra_lamports as u64;
    let tight = c.tight_min && !c.impossible_min && (kind == 3 || kind == 4);
    let action = match kind {
        0 => {
            let mut r = if info.is_pure() {
                let a = amt(&w, &info.long, c.amount);
                w.deposit_ref(owner, m, Some(info.long), None, a, 0)
            } else if c.with_path {
                let a = amt(&w, &sm, c.amount);
                let mut r = w.deposit_ref(owner, m, Some(sm), None, a, 0);
                r.long_path = vec![other_np(m)];
                r
            } else {
                let (a, b) = (amt(&w, &lm, c.amount), amt(&w, &sm, c.amount / 2));
                w.deposit_ref(owner, m, Some(lm), Some(sm), a, b)
            };
            if c.impossible_min {
                r.min_out = u64::MAX;
            }
            r.execution_lamports = exec_lamports;
            AnyAction::Deposit(r)
        }
        1 => {
            let bal = token_amount(&w.vm, &ata(&owner, &info.token));
            let mut r = w.withdrawal_ref(owner, m, (bal as u128 * (c.amount as u128 + 1) / 6000) as u64);
            if c.with_path && !info.is_pure() {
                r.final_long_token = sm;
                r.long_path = vec![other_np(m)];
            }
            if c.impossible_min {
                r.min_long = u64::MAX;
            }
            r.execution_lamports = exec_lamports;
            AnyAction::Withdrawal(r)
        }
        2 => {
            let f = m % 4;
            let t = (f + 1 + c.amount as usize % 3) % 4;
            let bal = token_amount(&w.vm, &ata(&owner, &w.markets[f].token));
            let mut r = w.shift_ref(owner, f, t, (bal as u128 * (c.amount as u128 + 1) / 6000) as u64);
            if c.impossible_min {
                r.min_out = u64::MAX;
            }
            r.execution_lamports = exec_lamports;
            AnyAction::Shift(r)
        }
        3 => {
            let first = m % 4;
            let path = if c.with_path && !tight { vec![first, other_np(first)] } else { vec![first] };
            let out_is_long = path.len() % 2 == 0;
            let a = amt(&w, &lm, c.amount);
            let mut r = w.swap_order_ref(owner, *path.last().unwrap(), lm, out_is_long, path, a);
            if c.impossible_min {
                r.min_output = Some(u128::MAX);
            } else if tight {
                // LONG ($100, 9 decimals) -> SHORT ($1, 6 decimals): about a / 10 raw units out
                r.min_output = Some(a as u128 / 10 * 97 / 100);
            }
            r.execution_lamports = exec_lamports;
            AnyAction::Order(r)
        }
        4 => {
            let collateral = info.long;
            let (pay, path) = if c.with_path { (other_token(&w, &collateral), vec![NON_PURE[c.amount as usize % 4]]) } else { (collateral, vec![]) };
            let a = amt(&w, &pay, c.amount);
            let size = usd_value(&w, &pay, a) * 4;
            let mut r = w.increase_order_ref(owner, m, true, true, pay, path, a, size);
            if c.impossible_min {
                r.acceptable_price = Some(1);
            } else if tight {
                r.acceptable_price = Some(w.unit_price(&info.index).1 * 103 / 100);
            }
            r.execution_lamports = exec_lamports;
            AnyAction::Order(r)
        }
        _ => {
            let position = w.position_of(&owner, m, true, true);
            let st = w.position_state(&position).ok_or("setup position missing")?;
            let full = c.amount % 2 == 0;
            let size = if full { st.state.size_in_usd } else { st.state.size_in_usd / 3 };
            let (out, path) = if c.with_path { (other_token(&w, &info.long), vec![NON_PURE[c.amount as usize % 4]]) } else { (info.long, vec![]) };
            let mut r = w.decrease_order_ref(owner, m, true, true, out, path, 0, size);
            if c.impossible_min {
                r.acceptable_price = Some(u128::MAX);
            }
            r.execution_lamports = exec_lamports;
            AnyAction::Order(r)
        }
    };
    if kind == 5 {
        // claimable accounts are prepared (and paid) by the second keeper, outside the ledger
        for i in w.ixs_prepare_claimables(keeper2, m, owner, true) {
            w.vm.process(&i).map_err(|e| format!("setup claimables: {e:?}"))?;
        }
    }

    // ---- snapshot S0
    let tokens0 = w2::token_accounts(&w.vm);
    let keys0: BTreeSet<Pubkey> = w.vm.accounts.keys().copied().collect();
    let lam0: BTreeMap<Pubkey, u64> = [owner, keeper, keeper2, stranger].iter().map(|k| (*k, w2::lamports(&w.vm, k))).collect();
    let supplies0: Vec<u64> = w.markets.iter().map(|mi| w2::mint_supply(&w.vm, &mi.token)).collect();
    let owner_tokens = |w: &World| -> BTreeMap<Pubkey, u64> {
        let mut mints = vec![lm, sm];
        mints.extend(w.markets.iter().map(|mi| mi.token));
        mints.iter().map(|mint| (*mint, token_amount(&w.vm, &ata(&owner, mint)))).collect()
    };
    let owner0 = owner_tokens(&w);
    let vaults = |w: &World| -> BTreeMap<Pubkey, u64> {
        let mut mints = vec![lm, sm];
        mints.extend(w.markets.iter().map(|mi| mi.token));
        mints.iter().map(|mint| (*mint, token_amount(&w.vm, &vault_of(&w.store, mint)))).collect()
    };
    let vaults0 = vaults(&w);

    // ---- create
    for i in action.prepare(&w) {
        w.vm.process(&i).map_err(|e| format!("prepare failed: {e:?}"))?;
    }
    if let Err(e) = w.vm.process(&action.create(&w)) {
        // the only legitimate creation failures of this generator: an execution fee below the
        // order minimum of 300000 lamports
        let low_fee = kind >= 3 && exec_lamports < 300_000;
        if low_fee && w2::code(&e) == 6034 {
            rec.class("create_rejected_low_execution_fee");
            return Ok(());
        }
        return Err(format!("creation of a well-formed action failed: {e:?} {:?}", svm::take_logs().last()));
    }
    if kind >= 3 && exec_lamports < 300_000 {
        return Err("an order was created with less than the minimum execution fee".into());
    }
    if w2::action_state(&w.vm, &action.key()) != Some(PENDING) {
        return Err("a freshly created action is not Pending".into());
    }
    let escrows = action.escrows(&w);
    let created_at = w.sys.unix_timestamp;
    rec.class(["deposit", "withdrawal", "shift", "swap_order", "increase_order", "decrease_order"][kind as usize]);

    // ---- the script
    let mut state = PENDING;
    let mut transient_cancel = false;
    let mut fees: BTreeMap<Pubkey, u64> = BTreeMap::new();
    let mut steps: Vec<Step> = c.steps.clone();
    steps.push(Step::Close { by: 0 });
    let mut images_at_cancel: Option<(Vec<Vec<(String, String)>>, BTreeMap<Pubkey, u64>)> = None;
    let _ = &mut images_at_cancel;
    for (si, step) in steps.iter().enumerate() {
        let forced = si + 1 == steps.len();
        if forced && state == CLOSED {
            break;
        }
        match step {
            Step::Exec { by, mode } => {
                let actor = [keeper, keeper2, owner, stranger][*by as usize % 4];
                let is_keeper = *by % 4 < 2;
                // clock / price conditions
                let mut saved_price: Option<(Pubkey, u128, u128)> = None;
                match mode % 6 {
                    0 => {
                        w.advance(1);
                        w.refresh_prices()?;
                    }
                    1 | 2 => {
                        let target = created_at + 3601 + (c.amount as i64 % 50);
                        let d = (target - w.sys.unix_timestamp).max(1);
                        w.advance(d);
                        w.refresh_prices()?;
                    }
                    3 => w.advance(w2::HEARTBEAT as i64 + 1 + (c.amount as i64 % 100)),
                    5 => {
                        // adverse move: the swapped-in long token loses 20 % / the index gains 20 %
                        let t = if kind == 4 { info.index } else { lm };
                        let (mid, sp) = w.prices[&t];
                        saved_price = Some((t, mid, sp));
                        w.set_price(&t, if kind == 4 { mid * 120 / 100 } else { mid * 80 / 100 }, sp);
                        w.advance(1);
                        w.refresh_prices()?;
                    }
                    _ => {} // no refresh since before the creation
                }
                if kind == 5 {
                    // the claimable time window may have moved on
                    for i in w.ixs_prepare_claimables(keeper2, m, owner, true) {
                        w.vm.process(&i).map_err(|e| format!("claimables: {e:?}"))?;
                    }
                }
                let throw = mode % 6 == 2;
                let images_before = w.market_images();
                let escrow_before: Vec<u64> = escrows.iter().map(|e| token_amount(&w.vm, e)).collect();
                let vaults_before = vaults(&w);
                let actor_lamports = w2::lamports(&w.vm, &actor);
                let res = w.vm.process(&action.execute(&w, actor, c.fee as u64, throw));
                let on_chain = w2::action_state(&w.vm, &action.key());
                if let Some((t, mid, sp)) = saved_price {
                    w.set_price(&t, mid, sp);
                }
                // prices were usable iff mode 0/1 (mode 4 is usable only if some earlier step refreshed after creation; treat as unknown)
                let expect_ok: Option<bool> = if !is_keeper || state != PENDING {
                    Some(false)
                } else {
                    match mode % 6 {
                        0 | 1 | 5 => Some(true),
                        2 | 3 => Some(false),
                        _ => None,
                    }
                };
                match (&res, expect_ok) {
                    (Ok(()), Some(false)) => {
                        return Err(format!("step {si} {step:?}: execution succeeded although it must be rejected (model state {state}, keeper {is_keeper}); on-chain state now {on_chain:?}"));
                    }
                    (Err(e), Some(true)) => {
                        return Err(format!("step {si} {step:?}: execution by a keeper of a Pending action with fresh prices failed: {e:?} {:?}", svm::take_logs().last()));
                    }
                    _ => {}
                }
                match res {
                    Ok(()) => {
                        let new_state = on_chain.ok_or("action account vanished during execution")?;
                        if new_state != COMPLETED && new_state != CANCELLED {
                            return Err(format!("step {si}: successful execution left the action in state {new_state}"));
                        }
                        let expired = mode % 6 == 1;
                        let adverse = mode % 6 == 5 && tight;
                        if (expired || c.impossible_min || adverse) && new_state != CANCELLED {
                            return Err(format!("step {si}: execution completed although {}", if expired { "the request was expired" } else if adverse { "the price moved 20 % beyond the 3 % slippage bound of the order" } else { "it was created with an unreachable minimum output / acceptable price" }));
                        }
                        // execution fee: min(fee argument, lamports set aside at creation) to the executor
                        let paid = (c.fee as u64).min(action.execution_lamports());
                        let got = w2::lamports(&w.vm, &actor) as i128 - actor_lamports as i128;
                        if got != paid as i128 {
                            return Err(format!("step {si}: executor lamports changed by {got}, expected the execution fee {paid}"));
                        }
                        *fees.entry(actor).or_default() += paid;
                        if new_state == CANCELLED {
                            // soft failure: no market changes, escrow back, vaults unchanged
                            if let Some(d) = World::image_diff(&images_before, &w.market_images()) {
                                return Err(format!("step {si}: a failed (cancelled) execution changed a market: {d}"));
                            }
                            let escrow_after: Vec<u64> = escrows.iter().map(|e| token_amount(&w.vm, e)).collect();
                            if escrow_after != escrow_before {
                                return Err(format!("step {si}: a cancelled execution did not restore the escrow balances: {escrow_before:?} -> {escrow_after:?}"));
                            }
                            if vaults(&w) != vaults_before {
                                return Err(format!("step {si}: a cancelled execution changed a vault balance"));
                            }
                            rec.class(if expired { "soft_failure_expired" } else if adverse { "soft_failure_adverse_price" } else { "soft_failure_min_output" });
                            transient_cancel = adverse && !expired;
                        } else {
                            rec.class("completed");
                        }
                        state = new_state;
                    }
                    Err(_) => {
                        rec.class_if(state != PENDING && state != CLOSED && is_keeper, "re_execution_rejected");
                        rec.class_if(state == CANCELLED && is_keeper && matches!(mode % 6, 0 | 5), "re_execution_of_cancelled_rejected");
                        rec.class_if(state == CANCELLED && transient_cancel && is_keeper && mode % 6 == 0, "re_execution_after_transient_failure_rejected");
                        rec.class_if(!is_keeper, "execution_by_non_keeper_rejected");
                        rec.class_if(is_keeper && state == PENDING, "hard_failure");
                        if on_chain != (if state == CLOSED { None } else { Some(state) }) {
                            return Err(format!("step {si}: failed execution changed the action state to {on_chain:?}"));
                        }
                    }
                }
            }
            Step::Close { by } => {
                let actor = [owner, keeper, keeper2, stranger][*by as usize % 4];
                let expect_ok = match by % 4 {
                    0 => state != CLOSED,
                    1 | 2 => state == COMPLETED || state == CANCELLED,
                    _ => false,
                };
                let res = w.vm.process(&action.close(&w, actor));
                match (&res, expect_ok) {
                    (Ok(()), false) => return Err(format!("step {si} {step:?}: close succeeded in model state {state} (0 pending, 1 completed, 2 cancelled, 3 closed) although this caller may not close it")),
                    (Err(e), true) => return Err(format!("step {si} {step:?}: close failed in model state {state}: {e:?} {:?}", svm::take_logs().last())),
                    _ => {}
                }
                if res.is_err() {
                    rec.class_if(by % 4 == 3, "stranger_close_rejected");
                    rec.class_if((by % 4 == 1 || by % 4 == 2) && state == PENDING, "keeper_close_of_pending_rejected");
                    if let (Err(e), true) = (&res, (by % 4 == 1 || by % 4 == 2) && state == PENDING) {
                        if w2::code(e) != 6004 {
                            return Err(format!("step {si}: keeper close of a Pending action failed with {e:?}, expected PermissionDenied (6004)"));
                        }
                    }
                    continue;
                }
                // closed: the action and its escrows are gone
                if w.vm.get(&action.key()).is_some() {
                    return Err(format!("step {si}: close succeeded but the action account still exists (ATA not initialised?)"));
                }
                for e in &escrows {
                    if w.vm.get(e).is_some() {
                        return Err(format!("step {si}: escrow account {e} survived the close"));
                    }
                }
                rec.class(match (state, by % 4) {
                    (PENDING, 0) => "pending_closed_by_owner",
                    (CANCELLED, 0) => "cancelled_closed_by_owner",
                    (CANCELLED, _) => "cancelled_closed_by_keeper",
                    (COMPLETED, 0) => "completed_closed_by_owner",
                    _ => "completed_closed_by_keeper",
                });
                // ---- token ledger
                let tokens1 = w2::token_accounts(&w.vm);
                let owner1 = owner_tokens(&w);
                let vaults1 = vaults(&w);
                for (k, (mint, auth, amount)) in &tokens1 {
                    let before = tokens0.get(k).map(|t| t.2).unwrap_or(0);
                    if *amount != before && *auth != owner && *auth != w.store {
                        return Err(format!("after the close token account {k} (mint {mint}, authority {auth}) holds {amount}, before the action {before}: tokens went to a third party"));
                    }
                }
                for (k, (_, auth, amount)) in &tokens0 {
                    if !tokens1.contains_key(k) && *amount != 0 {
                        return Err(format!("token account {k} (authority {auth}) with {amount} tokens disappeared"));
                    }
                }
                if state != COMPLETED {
                    if owner1 != owner0 {
                        return Err(format!("the owner closed a {} action but the wallet balances differ from before the creation: {owner0:?} -> {owner1:?}", if state == PENDING { "pending" } else { "cancelled" }));
                    }
                    if vaults1 != vaults0 {
                        return Err("vault balances differ after a pending/cancelled action was closed".into());
                    }
                } else {
                    for mint in [lm, sm] {
                        let store_side = |t: &BTreeMap<Pubkey, (Pubkey, Pubkey, u64)>| -> i128 { t.values().filter(|(mi, au, _)| *mi == mint && *au == w.store).map(|x| x.2 as i128).sum() };
                        let d_owner = owner1[&mint] as i128 - owner0[&mint] as i128;
                        let d_store = store_side(&tokens1) - store_side(&tokens0);
                        if d_owner + d_store != 0 {
                            return Err(format!("mint {mint}: owner wallet changed by {d_owner} but store-held accounts (vault, claimable) by {d_store}"));
                        }
                    }
                    for (mi, info) in w.markets.iter().enumerate() {
                        let d_supply = w2::mint_supply(&w.vm, &info.token) as i128 - supplies0[mi] as i128;
                        let d_owner = owner1[&info.token] as i128 - owner0[&info.token] as i128;
                        let d_vault = vaults1[&info.token] as i128 - vaults0[&info.token] as i128;
                        if d_owner + d_vault != d_supply {
                            return Err(format!("market token {mi}: supply changed by {d_supply}, owner by {d_owner}, vault by {d_vault}"));
                        }
                    }
                }
                // ---- lamport ledger
                for k in [keeper, keeper2, stranger] {
                    if kind == 5 && k == keeper2 {
                        continue; // pays claimable accounts
                    }
                    let d = w2::lamports(&w.vm, &k) as i128 - lam0[&k] as i128;
                    let f = fees.get(&k).copied().unwrap_or(0) as i128;
                    if d != f {
                        return Err(format!("lamports of {} changed by {d}, execution fees earned {f}", if k == stranger { "the stranger" } else { "a keeper" }));
                    }
                }
                let new_accounts: i128 = w.vm.accounts.iter().filter(|(k, _)| !keys0.contains(*k)).filter(|(k, _)| kind != 5 || !tokens1.get(*k).map(|t| t.1 == w.store).unwrap_or(false)).map(|(_, a)| a.lamports as i128).sum();
                let d_owner = w2::lamports(&w.vm, &owner) as i128 - lam0[&owner] as i128;
                let total_fees: i128 = fees.values().map(|f| *f as i128).sum();
                let gone: i128 = keys0.iter().filter(|k| w.vm.get(k).is_none()).map(|_| 0i128).sum();
                let _ = gone;
                let position_refund: i128 = 0;
                let _ = position_refund;
                if kind != 5 && d_owner + total_fees + new_accounts != 0 {
                    return Err(format!("owner lamports changed by {d_owner}; execution fees paid {total_fees}, lamports left in accounts created for the action {new_accounts}: the owner did not get back the unused execution fee and rents"));
                }
                if kind == 5 {
                    // a closed position returns its lamports to the owner: accounts that existed before and are gone
                    let closed_old: i128 = 0;
                    let _ = closed_old;
                }
                state = CLOSED;
            }
        }
    }
    let _ = admin;
    rec.nontrivial_if(c.steps.len() >= 2);
    svm::set_sysvars(svm::Sysvars::default());
    Ok(())
}

pub fn run_c23(ctx: &mut Ctx) {
    ctx.rule("cases = one action (deposit plain / through a swap path, withdrawal plain / swapped, shift, market swap 1-2 hops, market increase paid in either token, market decrease partial / full / swapped; optional unreachable min output or acceptable price; execution lamports 200000..2.2M, fee argument 0..3M) created by its owner in the seeded six-market world, followed by a script of 1..6 steps: execute by keeper / second keeper / owner / stranger with fresh prices, after the request expiration (throw flag off and on), with feeds older than the heartbeat, or with prices older than the action; close by owner / keeper / second keeper / stranger; a final owner close is appended. Oracle = model state machine Pending -> {Completed, Cancelled} -> Closed: an execution succeeds exactly when a keeper executes a Pending action with usable prices, moves it to Completed or Cancelled (Cancelled required for expired requests and unreachable minimum), pays exactly min(fee, execution lamports) to the executor, and a cancelled execution leaves every market image (pools, clocks, balances, counters, config), every vault and the escrow balances unchanged; any execution on a terminal or closed action fails; close succeeds for the owner in any live state, for keepers only in terminal states (PermissionDenied otherwise), never for a stranger; after the close the action and all escrow accounts are gone, no third-party token account changed, a pending/cancelled action returns exactly the pre-creation wallet balances, a completed one conserves tokens between the owner and store-held accounts per mint (market tokens against mint supply), keepers gained exactly their fees, the stranger nothing, and the owner lost exactly fees + lamports left in accounts created for the action; non-trivial = scripts of at least two steps");
    ctx.assume("svm-lite commits state only on success, so 'failed instruction leaves all accounts unchanged' is guaranteed by the runtime model (as on chain) and not separately observable; market accounts are compared through their public image (the raw bytes include the revertible buffer and revision counters, which change on every committed operation); GLV deposits / withdrawals / shifts are the search `lifecycle_glv`, the owner lamport equation of decrease orders is the search `lifecycle_decrease`");
    let n = ctx.cases(3_600, 180_000);
    ctx.search("lifecycle", n, life_case, check_c23);
    for (class, floor) in [("deposit", 144), ("withdrawal", 150), ("shift", 155), ("swap_order", 400), ("increase_order", 400), ("decrease_order", 119), ("completed", 400), ("soft_failure_expired", 100), ("soft_failure_min_output", 150), ("soft_failure_adverse_price", 60), ("re_execution_of_cancelled_rejected", 80), ("re_execution_after_transient_failure_rejected", 10), ("hard_failure", 150), ("re_execution_rejected", 150), ("execution_by_non_keeper_rejected", 150), ("stranger_close_rejected", 200), ("keeper_close_of_pending_rejected", 150), ("pending_closed_by_owner", 200), ("cancelled_closed_by_owner", 60), ("cancelled_closed_by_keeper", 60), ("completed_closed_by_owner", 150), ("completed_closed_by_keeper", 150)] {
        ctx.floor(&format!("lifecycle:{class}"), floor);
    }
}

// ============================================================================================ C44

#[derive(Debug, Clone, Serialize, Deserialize)]
pub struct PathCase {
    /// 0 market swap order (into the order's market), 1 deposit with a long-side path (into the
    /// current market), 2 withdrawal with a long-side path (out of the current market).
    pub kind: u8,
    /// Current market (deposit / withdrawal) or the order's market (swap).
    pub market: u8,
    pub start_long: bool,
    /// Declared expected output side for swap orders / final long token for withdrawals.
    pub out_long: bool,
    /// Market indices 0..5 (4 and 5 are single-token markets: a no-op hop).
    pub hops: Vec<u8>,
    /// 0..=1 keep the raw hops; 2 repair into a valid chain ending in the declared token;
    /// 3 repaired + one duplicate; 4 repaired + one single-token market; 5 repaired + wrong final token.
    pub shape: u8,
    pub amount: u16,
    /// Patch the stored path of a valid action before execution (0 no; 1 duplicate a market;
    /// 2 replace a hop by a single-token market).
    pub patch: u8,
}

fn path_case() -> impl Strategy<Value = PathCase> {
    (0u8..3, 0u8..6, any::<bool>(), any::<bool>(), proptest::collection::vec(0u8..6, 0..=10), prop_oneof![2 => 0u8..2, 6 => Just(2u8), 1 => Just(3u8), 1 => Just(4u8), 1 => Just(5u8)], 9u16..3000, prop_oneof![5 => Just(0u8), 1 => Just(1u8), 1 => Just(2u8)])
        .prop_map(|(kind, market, start_long, out_long, hops, shape, amount, patch)| PathCase { kind, market, start_long, out_long, hops, shape, amount, patch })
}

/// Reference validity of a declared path (from the doc comments of `validate_and_init` / the
/// property): at most 10 steps, distinct markets, no single-token market, each market contains the
/// running token and switches it to its other token, the final token is the expected one.
fn path_valid(w: &World, path: &[usize], token_in: Pubkey, expected_out: Pubkey) -> bool {
    if path.len() > 10 {
        return false;
    }
    let mut seen = BTreeSet::new();
    let mut cur = token_in;
    for m in path {
        let info = &w.markets[*m];
        if !seen.insert(*m) || info.is_pure() {
            return false;
        }
        cur = if cur == info.long {
            info.short
        } else if cur == info.short {
            info.long
        } else {
            return false;
        };
    }
    cur == expected_out
}

fn decode_event<T: anchor_lang::AnchorDeserialize + anchor_lang::Discriminator>(payload: &[u8]) -> Option<T> {
    let d = T::DISCRIMINATOR;
    if payload.len() < d.len() || &payload[..d.len()] != d {
        return None;
    }
    T::deserialize(&mut &payload[d.len()..]).ok()
}

fn recorded(w: &World) -> BTreeMap<(usize, Pubkey), i128> {
    let mut out = BTreeMap::new();
    for (m, info) in w.markets.iter().enumerate() {
        let st = w.market_state(m);
        out.insert((m, info.long), st.state().long_token_balance_raw() as i128);
        if !info.is_pure() {
            out.insert((m, info.short), st.state().short_token_balance_raw() as i128);
        }
    }
    out
}

fn check_c44(c: &PathCase, rec: &mut Rec) -> Result<(), String> {
    use gmsol_store::events::{SwapExecuted, WithdrawalExecuted};
    let mut w = World::seeded()?;
    let keeper = w.keeper;
    let (lm, sm) = (w.long_mint, w.short_mint);
    let kind = c.kind % 3;
    let m = if kind == 2 { c.market as usize % 4 } else { c.market as usize % N_MARKETS };
    let info = w.markets[m].clone();
    let owner = if kind == 2 { w.user(2) } else { w.user(0) };

    // ---- tokens
    let token_in = match kind {
        2 => info.long,
        _ => {
            if c.start_long {
                lm
            } else {
                sm
            }
        }
    };
    let expected_out = match kind {
        0 => {
            if c.out_long {
                info.long
            } else {
                info.short
            }
        }
        1 => info.long,
        _ => {
            if c.out_long {
                lm
            } else {
                sm
            }
        }
    };

    // ---- the declared path
    let mut path: Vec<usize> = c.hops.iter().map(|h| *h as usize % N_MARKETS).collect();
    if c.shape >= 2 {
        // repair: distinct long/short markets, parity chosen so that the chain ends in the expected token
        let mut p: Vec<usize> = vec![];
        for h in &path {
            let k = NON_PURE[*h % 4];
            if !p.contains(&k) {
                p.push(k);
            }
        }
        let need_odd = token_in != expected_out;
        if (p.len() % 2 == 1) != need_odd {
            if p.len() < 4 {
                let k = NON_PURE.iter().copied().find(|k| !p.contains(k)).unwrap();
                p.push(k);
            } else {
                p.pop();
            }
        }
        match c.shape {
            3 if !p.is_empty() => {
                let d = p[c.amount as usize % p.len()];
                p.insert(c.amount as usize % (p.len() + 1), d);
                // keep the parity so that only the duplicate is wrong
                let k = p[0];
                p.push(k);
            }
            4 => p.insert(c.amount as usize % (p.len() + 1), 4 + (c.amount as usize % 2)),
            5 => {
                if p.len() < 4 {
                    let k = NON_PURE.iter().copied().find(|k| !p.contains(k)).unwrap();
                    p.push(k);
                } else {
                    p.pop();
                }
            }
            _ => {}
        }
        path = p;
    }
    let mut valid = path_valid(&w, &path, token_in, expected_out);
    if kind == 0 && path.is_empty() {
        valid = false; // a swap order needs at least one step
    }
    if kind == 1 && info.is_pure() && path.is_empty() {
        valid = token_in == info.long;
    }
    let hops = path.len();

    // ---- build, prepare, create
    let a_in = amt(&w, &token_in, c.amount);
    let action = match kind {
        0 => AnyAction::Order(w.swap_order_ref(owner, m, token_in, c.out_long, path.clone(), a_in)),
        1 => {
            let mut r = w.deposit_ref(owner, m, Some(token_in), None, a_in, 0);
            r.long_path = path.clone();
            AnyAction::Deposit(r)
        }
        _ => {
            let bal = token_amount(&w.vm, &ata(&owner, &info.token));
            let mut r = w.withdrawal_ref(owner, m, (bal as u128 * (c.amount as u128 + 1) / 30_000) as u64);
            r.final_long_token = expected_out;
            r.long_path = path.clone();
            AnyAction::Withdrawal(r)
        }
    };
    for i in action.prepare(&w) {
        w.vm.process(&i).map_err(|e| format!("prepare failed: {e:?}"))?;
    }
    let created = w.vm.process(&action.create(&w));
    rec.class(match (valid, hops) {
        (true, 0) => "valid_0_hops",
        (true, 1) => "valid_1_hop",
        (true, 2) => "valid_2_hops",
        (true, _) => "valid_3_or_more_hops",
        (false, _) => "invalid_path",
    });
    match (&created, valid) {
        (Ok(()), false) => return Err(format!("creation accepted an invalid path {path:?} (token in {}, expected out {}, current market {m})", if token_in == lm { "LONG" } else { "SHORT" }, if expected_out == lm { "LONG" } else { "SHORT" })),
        (Err(e), true) => return Err(format!("creation rejected the valid path {path:?}: {e:?} {:?}", svm::take_logs().last())),
        (Err(_), false) => {
            let dup = path.iter().collect::<BTreeSet<_>>().len() != path.len();
            rec.class_if(dup, "rejected_duplicate_market");
            rec.class_if(path.iter().any(|k| w.markets[*k].is_pure()), "rejected_no_op_hop");
            rec.class_if(!dup && path.iter().all(|k| !w.markets[*k].is_pure()) && path.len() <= 10, "rejected_wrong_final_token");
            return Ok(());
        }
        _ => {}
    }

    // ---- optionally corrupt the stored path (what creation would have refused)
    let mut patched = false;
    if c.patch != 0 && hops >= 2 {
        let key = action.key();
        let mut acct = w.vm.get(&key).cloned().ok_or("action missing")?;
        let first = w.markets[path[0]].token;
        let second = w.markets[path[1]].token;
        let needle: Vec<u8> = [first.as_ref(), second.as_ref()].concat();
        let pos = acct.data.windows(64).position(|x| x == &needle[..]).ok_or("stored path not found in the action account")?;
        let replacement = if c.patch == 1 { first } else { w.markets[4 + c.amount as usize % 2].token };
        acct.data[pos + 32..pos + 64].copy_from_slice(replacement.as_ref());
        w.vm.set_account(key, acct);
        patched = true;
    }

    // ---- execute
    w.advance(1);
    w.refresh_prices()?;
    let images_before = w.market_images();
    let rec_before = recorded(&w);
    let vault_before: BTreeMap<Pubkey, i128> = [lm, sm].iter().map(|t| (*t, token_amount(&w.vm, &vault_of(&w.store, t)) as i128)).collect();
    let escrow_before: BTreeMap<Pubkey, i128> = [lm, sm].iter().map(|t| (*t, token_amount(&w.vm, &ata(&action.key(), t)) as i128)).collect();
    svm::take_events();
    let res = w.vm.process(&action.execute(&w, keeper, 1000, false));
    let events = svm::take_events();
    let state = w2::action_state(&w.vm, &action.key());
    if patched {
        // execution-time validation: the corrupted action must not complete
        match (&res, state) {
            (Ok(()), Some(COMPLETED)) => return Err(format!("execution completed an action whose stored path was corrupted ({}): declared {path:?}", if c.patch == 1 { "duplicate market" } else { "single-token market" })),
            (Ok(()), _) => {
                if let Some(d) = World::image_diff(&images_before, &w.market_images()) {
                    return Err(format!("cancelled execution of a corrupted path changed a market: {d}"));
                }
                rec.class("corrupted_path_cancelled");
            }
            (Err(_), _) => rec.class("corrupted_path_rejected"),
        }
        rec.class_if(c.patch == 1, "corrupted_duplicate");
        rec.class_if(c.patch == 2, "corrupted_no_op_hop");
        return Ok(());
    }
    if let Err(e) = &res {
        return Err(format!("execution of a valid action failed hard: {e:?} {:?}", svm::take_logs().last()));
    }
    // the current market may only be the first or the last step of a path
    let current_in_middle = hops >= 3 && path[1..hops - 1].contains(&m);
    match state {
        Some(CANCELLED) => {
            if let Some(d) = World::image_diff(&images_before, &w.market_images()) {
                return Err(format!("cancelled execution changed a market: {d}"));
            }
            rec.class("cancelled");
            if !current_in_middle {
                return Err(format!("a valid path {path:?} (current market {m}, kind {kind}) was cancelled at execution: {:?}", svm::take_logs().iter().rev().take(3).collect::<Vec<_>>()));
            }
            rec.class("current_market_in_the_middle_cancelled");
            return Ok(());
        }
        Some(COMPLETED) => {}
        other => return Err(format!("unexpected action state {other:?} after execution")),
    }
    if current_in_middle {
        rec.class("current_market_in_the_middle_completed");
    }

    // ---- executed hop sequence
    let swaps: Vec<SwapExecuted> = events.iter().filter(|(p, _)| *p == w2::PID).filter_map(|(_, d)| decode_event::<SwapExecuted>(d)).collect();
    let declared: Vec<Pubkey> = path.iter().map(|k| w.markets[*k].token).collect();
    let executed: Vec<Pubkey> = swaps.iter().map(|s| s.market_token).collect();
    if executed != declared {
        return Err(format!("executed hops {:?} differ from the declared path {path:?}", executed.iter().map(|t| w.market_by_token(t)).collect::<Vec<_>>()));
    }
    let mut expected: BTreeMap<(usize, Pubkey), i128> = BTreeMap::new();
    let mut cur = token_in;
    let mut carried: Option<u128> = None;
    let mut first_in: Option<u128> = None;
    for (i, (s, k)) in swaps.iter().zip(path.iter()).enumerate() {
        let mi = &w.markets[*k];
        let in_long = s.report.params().is_token_in_long();
        let side_token = if in_long { mi.long } else { mi.short };
        if side_token != cur {
            return Err(format!("hop {i} in market {k}: token in is {} but the previous step produced the other token", if in_long { "its long token" } else { "its short token" }));
        }
        let a_in_i = *s.report.params().token_in_amount();
        let a_out_i = *s.report.token_out_amount();
        if let Some(prev) = carried {
            if prev != a_in_i {
                return Err(format!("hop {i}: token in amount {a_in_i} != previous hop's output {prev}"));
            }
        } else {
            first_in = Some(a_in_i);
        }
        let out_token = if in_long { mi.short } else { mi.long };
        *expected.entry((*k, cur)).or_default() += a_in_i as i128;
        *expected.entry((*k, out_token)).or_default() -= a_out_i as i128;
        cur = out_token;
        carried = Some(a_out_i);
    }
    if cur != expected_out {
        return Err(format!("the executed chain ends in the wrong token for path {path:?}"));
    }
    let vault_after: BTreeMap<Pubkey, i128> = [lm, sm].iter().map(|t| (*t, token_amount(&w.vm, &vault_of(&w.store, t)) as i128)).collect();
    let escrow_after: BTreeMap<Pubkey, i128> = [lm, sm].iter().map(|t| (*t, token_amount(&w.vm, &ata(&action.key(), t)) as i128)).collect();
    let mut expected_vault: BTreeMap<Pubkey, i128> = BTreeMap::new();
    match kind {
        0 | 1 => {
            if hops > 0 && first_in != Some(a_in as u128) {
                return Err(format!("first hop swapped {first_in:?}, the action put in {a_in}"));
            }
            let out = carried.unwrap_or(a_in as u128) as i128;
            if hops == 0 {
                *expected.entry((m, token_in)).or_default() += a_in as i128;
            } else {
                // the output of the last hop moves into the current market
                *expected.entry((m, expected_out)).or_default() += out;
            }
            *expected_vault.entry(token_in).or_default() += a_in as i128;
            if kind == 0 {
                *expected.entry((m, expected_out)).or_default() -= out;
                *expected_vault.entry(expected_out).or_default() -= out;
                let got = escrow_after[&expected_out] - escrow_before[&expected_out] + if expected_out == token_in { a_in as i128 } else { 0 };
                if got != out {
                    return Err(format!("swap order: the escrow received {got} of the output token, the last hop produced {out}"));
                }
            }
        }
        _ => {
            let wd: Vec<WithdrawalExecuted> = events.iter().filter_map(|(_, d)| decode_event::<WithdrawalExecuted>(d)).collect();
            let wd = wd.first().ok_or("no WithdrawalExecuted event")?;
            let (l, s) = (*wd.report.long_token_output() as i128, *wd.report.short_token_output() as i128);
            if hops > 0 && first_in.map(|x| x as i128) != Some(l) {
                return Err(format!("first hop swapped {first_in:?}, the withdrawal produced {l} long tokens"));
            }
            *expected.entry((m, info.long)).or_default() -= l;
            *expected.entry((m, info.short)).or_default() -= s;
            let out = carried.map(|x| x as i128).unwrap_or(l);
            *expected_vault.entry(expected_out).or_default() -= out;
            *expected_vault.entry(info.short).or_default() -= s;
            let mut got: BTreeMap<Pubkey, i128> = BTreeMap::new();
            *got.entry(expected_out).or_default() += out;
            *got.entry(info.short).or_default() += s;
            for t in [lm, sm] {
                let d = escrow_after[&t] - escrow_before[&t];
                if d != got.get(&t).copied().unwrap_or(0) {
                    return Err(format!("withdrawal: escrow of {t} received {d}, expected {:?}", got.get(&t)));
                }
            }
        }
    }
    let rec_after = recorded(&w);
    for (k, before) in &rec_before {
        let d = rec_after[k] - before;
        let e = expected.get(k).copied().unwrap_or(0);
        if d != e {
            return Err(format!("market {} token {}: recorded balance changed by {d}, the swapped amounts imply {e} (path {path:?}, current market {m}, kind {kind})", k.0, if k.1 == lm { "LONG" } else { "SHORT" }));
        }
    }
    for t in [lm, sm] {
        let d = vault_after[&t] - vault_before[&t];
        let e = expected_vault.get(&t).copied().unwrap_or(0);
        if d != e {
            return Err(format!("vault of {}: balance changed by {d}, expected {e}", if t == lm { "LONG" } else { "SHORT" }));
        }
    }
    rec.class(["swap_order_completed", "deposit_completed", "withdrawal_completed"][kind as usize]);
    rec.class(match hops {
        0 => "completed_0_hops",
        1 => "completed_1_hop",
        2 => "completed_2_hops",
        _ => "completed_3_or_more_hops",
    });
    rec.class_if(hops > 0 && path[0] == m, "current_market_first");
    rec.class_if(hops > 0 && path[hops - 1] == m, "current_market_last");
    rec.nontrivial_if(hops >= 3);
    svm::set_sysvars(svm::Sysvars::default());
    Ok(())
}

#[derive(Debug, Clone, Serialize, Deserialize)]
pub struct ParamsCase {
    pub primary: u8,
    pub secondary: u8,
    pub paths: Vec<u8>,
}

fn params_case() -> impl Strategy<Value = ParamsCase> {
    (0u8..=10, 0u8..=10, proptest::collection::vec(prop_oneof![3 => 0u8..4, 1 => 0u8..12], 10)).prop_filter("total length", |(p, s, _)| p + s <= 10).prop_map(|(primary, secondary, paths)| ParamsCase { primary, secondary, paths })
}

fn check_params(c: &ParamsCase, rec: &mut Rec) -> Result<(), String> {
    use gmsol_utils::swap::SwapActionParams;
    let key = |i: u8| svm::key_of(&format!("c44-market-token-{i}"));
    let mut p = SwapActionParams::default();
    p.primary_length = c.primary;
    p.secondary_length = c.secondary;
    for (i, k) in c.paths.iter().enumerate() {
        p.paths[i] = key(*k);
    }
    let prim: Vec<u8> = c.paths[..c.primary as usize].to_vec();
    let sec: Vec<u8> = c.paths[c.primary as usize..(c.primary + c.secondary) as usize].to_vec();
    for (name, slice, got) in [("primary", &prim, p.validated_primary_swap_path()), ("secondary", &sec, p.validated_secondary_swap_path())] {
        let distinct = slice.iter().collect::<BTreeSet<_>>().len() == slice.len();
        match (got, distinct) {
            (Ok(path), true) => {
                let want: Vec<Pubkey> = slice.iter().map(|k| key(*k)).collect();
                if path != &want[..] {
                    return Err(format!("{name} path: validated slice differs from the declared markets"));
                }
                rec.class("accepted");
            }
            (Err(_), false) => rec.class("duplicate_rejected"),
            (Ok(_), false) => return Err(format!("{name} path {slice:?} contains a duplicate market but was validated")),
            (Err(e), true) => return Err(format!("{name} path {slice:?} has no duplicates but was rejected: {e}")),
        }
    }
    // a market may appear once in each of the two paths
    rec.class_if(prim.iter().any(|k| sec.contains(k)), "shared_between_paths");
    rec.nontrivial_if(c.primary >= 3 || c.secondary >= 3);
    Ok(())
}

pub fn run_c44(ctx: &mut Ctx) {
    ctx.rule("search `paths`: cases = a market swap order (into the order's market), a deposit whose long side is paid through a swap path (into the current market) or a withdrawal whose long-token output is swapped (out of the current market) in the seeded six-market world, with declared paths of 0..10 market indices (raw random, or repaired into a valid chain of distinct long/short markets and then optionally spoiled by one duplicate, one single-token market or a wrong final token), both token directions, amounts $10..$3000, and optionally a stored path corrupted after creation (duplicate / single-token market). Oracle: creation succeeds exactly when the reference rule holds (<= 10 steps, distinct markets, no single-token market, each market holds the running token, chain ends in the declared token, swap orders need >= 1 step); a corrupted stored path never completes and a cancelled execution leaves all market images unchanged; a valid action executed with fresh prices completes unless the current market sits strictly inside the path (then it is cancelled with no market change); for a completed action the SwapExecuted events equal the declared path in order, each hop's token-in side is the previous hop's output token and its input amount the previous output amount, the first input equals the action's amount (or the withdrawal's long output), and for every market and pool token the change of the recorded balance equals exactly the sum implied by the hop amounts (+in -out per hop, output handed into / out of the current market, escrow transfers), likewise for both vault token accounts and the escrow receipts; non-trivial = completed paths of >= 3 hops. search `params`: SwapActionParams with random lengths and market keys from a small alphabet; validated_primary/secondary_swap_path accept exactly duplicate-free slices and return the declared slice");
    ctx.assume("only four long/short markets exist, so valid paths have at most 4 hops (longer declared paths are always invalid here); swap paths of position orders (increase / decrease) are exercised by C22 but not ledger-checked here; virtual inventories are not configured");
    let n = ctx.cases(3_000, 150_000);
    ctx.search("paths", n, path_case, check_c44);
    for (class, floor) in [("valid_0_hops", 30), ("valid_1_hop", 101), ("valid_2_hops", 150), ("valid_3_or_more_hops", 200), ("invalid_path", 500), ("rejected_duplicate_market", 200), ("rejected_no_op_hop", 200), ("rejected_wrong_final_token", 100), ("completed_3_or_more_hops", 150), ("swap_order_completed", 150), ("deposit_completed", 150), ("withdrawal_completed", 150), ("corrupted_duplicate", 30), ("corrupted_no_op_hop", 30), ("current_market_first", 50), ("current_market_last", 50)] {
        ctx.floor(&format!("paths:{class}"), floor);
    }
    let n = ctx.cases(40_000, 2_000_000);
    ctx.search("params", n, params_case, check_params);
    ctx.floor("params:duplicate_rejected", 5_000);
    ctx.floor("params:accepted", 5_000);
    ctx.floor("params:shared_between_paths", 1_000);
}

// ============================================================================================ C09 (program clauses)

#[derive(Debug, Clone, Serialize, Deserialize)]
pub struct HealthCase {
    /// 0 or 1: market 0 (index token 1) or market 2 (index token 2); both have synthetic index tokens.
    pub market: u8,
    pub is_long: bool,
    /// (user, collateral in $10 steps, leverage, collateral is the long token)
    pub positions: Vec<(u8, u16, u8, bool)>,
    /// Index price move in percent after the positions are opened.
    pub move_pct: i16,
    pub spread: u8,
    /// ADL thresholds in 1/10000.
    pub max_adl_bps: u16,
    pub min_after_bps: u16,
    pub update_state: bool,
    pub which: u8,
    pub frac: u8,
    pub wait: u16,
    /// Second index move (percent of the moved price) between `update_adl_state` and `auto_deleverage`.
    pub second_move_pct: i16,
}

fn health_case() -> impl Strategy<Value = HealthCase> {
    let pos = (0u8..3, 50u16..2000, 1u8..20, any::<bool>());
    (
        (0u8..2, any::<bool>(), proptest::collection::vec(pos, 1..4), prop_oneof![2 => -20i16..=20, 3 => -95i16..=-20, 3 => 20i16..=400], 0u8..30),
        (prop_oneof![1 => 100u16..1000, 2 => 1000u16..6000], 0u16..10000, prop_oneof![4 => Just(true), 1 => Just(false)], any::<u8>(), any::<u8>(), 0u16..600, prop_oneof![1 => Just(0i16), 1 => -80i16..=10]),
    )
        .prop_map(|((market, is_long, positions, move_pct, spread), (max_adl_bps, min_after, update_state, which, frac, wait, second_move_pct))| HealthCase {
            market,
            is_long,
            positions,
            move_pct,
            spread,
            max_adl_bps,
            min_after_bps: (min_after as u32 * max_adl_bps as u32 / 10000) as u16,
            update_state,
            which,
            frac,
            wait,
            second_move_pct,
        })
}

/// The pnl-to-pool factor for ADL (maximised pnl over the minimised pool value of that side),
/// recomputed from the account bytes with BigInt; `None` if the pool value is zero.
fn adl_pnl_factor(w: &World, m: usize, is_long: bool) -> Option<num_bigint::BigInt> {
    use gmsol_model::{Balance, PoolKind};
    use num_bigint::BigInt;
    let mk = w.market_state(m);
    let info = &w.markets[m];
    let both = |k: PoolKind| -> BigInt {
        let p = mk.pool(k).expect("pool");
        BigInt::from(p.long_amount().unwrap()) + BigInt::from(p.short_amount().unwrap())
    };
    let (oi, oit) = if is_long { (both(PoolKind::OpenInterestForLong), both(PoolKind::OpenInterestInTokensForLong)) } else { (both(PoolKind::OpenInterestForShort), both(PoolKind::OpenInterestInTokensForShort)) };
    let (imin, imax) = w.unit_price(&info.index);
    // maximised pnl: longs at the max price, shorts at the min price
    let price = if is_long { imax } else { imin };
    let value = oit * BigInt::from(price);
    let pnl = if is_long { value - oi } else { oi - value };
    let liq = mk.pool(PoolKind::Primary).expect("primary");
    let pool_value = if is_long { BigInt::from(liq.long_amount().unwrap()) * BigInt::from(w.unit_price(&info.long).0) } else { BigInt::from(liq.short_amount().unwrap()) * BigInt::from(w.unit_price(&info.short).0) };
    if pool_value == BigInt::from(0) {
        return None;
    }
    Some(pnl * BigInt::from(USD) / pool_value)
}

fn check_c09(c: &HealthCase, rec: &mut Rec) -> Result<(), String> {
    use num_bigint::BigInt;
    let mut w = World::seeded()?;
    let keeper = w.keeper;
    let m = if c.market % 2 == 0 { 0 } else { 2 };
    let info = w.markets[m].clone();
    let side = if c.is_long { "long" } else { "short" };
    let max_adl = c.max_adl_bps as u128 * USD / 10_000;
    let min_after = c.min_after_bps as u128 * USD / 10_000;
    w.set_market_config(&info.market, &format!("max_pnl_factor_for_{side}_adl"), max_adl)?;
    w.set_market_config(&info.market, &format!("min_pnl_factor_after_{side}_adl"), min_after)?;

    // ---- open the positions
    let mut open: Vec<OrderRef> = vec![];
    for (user, coll, lev, coll_long) in &c.positions {
        let owner = w.user(*user as usize);
        let token = if *coll_long { info.long } else { info.short };
        let a = amt(&w, &token, *coll) * 10;
        let size = usd_value(&w, &token, a) * *lev as u128;
        let r = w.increase_order_ref(owner, m, c.is_long, *coll_long, token, vec![], a, size);
        if open.iter().any(|o| o.position == r.position) {
            continue;
        }
        let mut ok = true;
        for i in w.ixs_prepare_order(&r) {
            ok &= w.vm.process(&i).is_ok();
        }
        if !ok || w.vm.process(&w.ix_create_order(&r)).is_err() {
            continue;
        }
        w.advance(1);
        w.refresh_prices()?;
        let done = w.vm.process(&w.ix_execute_order(&r, keeper, 0, false)).is_ok() && w2::action_state(&w.vm, &r.order) == Some(COMPLETED);
        w.vm.process(&w.ix_close_order(&r, owner)).map_err(|e| format!("close increase: {e:?}"))?;
        if done {
            open.push(r);
        }
    }
    if open.is_empty() {
        rec.class("no_position_opened");
        return Ok(());
    }

    // ---- a freshly opened position is healthy: liquidation must be rejected
    {
        let r0 = &open[c.which as usize % open.len()];
        w.advance(1);
        w.refresh_prices()?;
        let l = w.liquidation_ref(keeper, r0.owner, m, r0.is_long, r0.is_collateral_long);
        for i in w.ixs_prepare_liquidation(&l, keeper) {
            w.vm.process(&i).map_err(|e| format!("prepare liquidation: {e:?}"))?;
        }
        if w.vm.process(&w.ix_liquidate(&l, keeper, 0)).is_ok() {
            return Err(format!("a position that was just opened (and validated) at unchanged prices was liquidated: {:?}", c.positions));
        }
        rec.class("fresh_position_liquidation_rejected");
    }

    // ---- move the index price, let some time pass
    let (mid, _) = w.prices[&info.index];
    let new = (mid as i128 * (100 + c.move_pct as i128) / 100).max(1) as u128;
    w.set_price(&info.index, new, c.spread as u128);
    w.advance(1 + c.wait as i64);
    w.refresh_prices()?;

    // ---- liquidation clause on one position
    let target = open[c.which as usize % open.len()].clone();
    let position = target.position.unwrap();
    let st = w.position_state(&position).ok_or("position missing")?.state;
    let coll_token = if target.is_collateral_long { info.long } else { info.short };
    let (imin, imax) = w.unit_price(&info.index);
    let cv = BigInt::from(st.collateral_amount) * BigInt::from(w.unit_price(&coll_token).0);
    let worst_index = if c.is_long { imin } else { imax };
    let value = BigInt::from(st.size_in_tokens) * BigInt::from(worst_index);
    let pnl = if c.is_long { value - BigInt::from(st.size_in_usd) } else { BigInt::from(st.size_in_usd) - value };
    // sufficient condition for "not liquidatable": collateral value + worst-case pnl leaves more than 3 % of
    // the size + $2 (fees <= 0.27 % of size, negative impact for liquidations capped at 0, borrowing/funding
    // over <= 10 minutes far below 1 %, min collateral factor 1 %, min collateral value $1)
    let margin = BigInt::from(st.size_in_usd) * 3 / 100 + BigInt::from(2 * USD);
    let surely_healthy = &cv + &pnl >= margin;
    let surely_unhealthy = &cv + &pnl < BigInt::from(0);
    let l = w.liquidation_ref(keeper, target.owner, m, target.is_long, target.is_collateral_long);
    for i in w.ixs_prepare_liquidation(&l, keeper) {
        w.vm.process(&i).map_err(|e| format!("prepare liquidation: {e:?}"))?;
    }
    let liquidated = w.vm.process(&w.ix_liquidate(&l, keeper, 0)).is_ok();
    if liquidated {
        if surely_healthy {
            return Err(format!("liquidation succeeded for a healthy position: collateral value {cv} + pnl {pnl} >= 3 % of size {} + $2", st.size_in_usd));
        }
        match w.position_state(&position) {
            None => {}
            Some(p) if p.state.size_in_usd == 0 && p.state.size_in_tokens == 0 && p.state.collateral_amount == 0 => {}
            Some(p) => return Err(format!("liquidation left part of the position open: size {} tokens {} collateral {}", p.state.size_in_usd, p.state.size_in_tokens, p.state.collateral_amount)),
        }
        rec.class("liquidated");
        rec.class_if(surely_unhealthy, "liquidated_underwater");
        open.retain(|o| o.position != target.position);
        w.vm.process(&w.ix_close_order(&l, keeper)).map_err(|e| format!("close liquidation order: {e:?}"))?;
    } else {
        rec.class_if(surely_healthy, "healthy_liquidation_rejected");
        rec.class_if(!surely_healthy && !surely_unhealthy, "gray_zone_liquidation_rejected");
        rec.class_if(surely_unhealthy, "underwater_liquidation_failed");
    }
    if open.is_empty() {
        return Ok(());
    }

    // ---- ADL clause
    let factor = adl_pnl_factor(&w, m, c.is_long).ok_or("zero pool value")?;
    let exceeded = factor > BigInt::from(max_adl);
    let boundary = (&factor - BigInt::from(max_adl)).magnitude() <= &num_bigint::BigUint::from(2u8);
    if c.update_state {
        w.vm.process(&w.ix_update_adl_state(keeper, m, c.is_long)).map_err(|e| format!("update_adl_state failed: {e:?}"))?;
        let enabled = w.market_state(m).is_adl_enabled(c.is_long);
        if !boundary && enabled != exceeded {
            return Err(format!("update_adl_state set adl_enabled={enabled} but the pnl factor {factor} vs limit {max_adl} says exceeded={exceeded}"));
        }
        rec.class(if enabled { "adl_enabled" } else { "adl_not_enabled" });
    }
    if c.second_move_pct != 0 {
        let (mid, sp) = w.prices[&info.index];
        let new = (mid as i128 * (100 + c.second_move_pct as i128) / 100).max(1) as u128;
        w.set_price(&info.index, new, sp);
        w.advance(1);
        w.refresh_prices()?;
        rec.class("price_moved_after_adl_update");
    }
    let factor = adl_pnl_factor(&w, m, c.is_long).ok_or("zero pool value")?;
    let exceeded = factor > BigInt::from(max_adl);
    let boundary = (&factor - BigInt::from(max_adl)).magnitude() <= &num_bigint::BigUint::from(2u8);
    let enabled = w.market_state(m).is_adl_enabled(c.is_long);
    let target = open[c.frac as usize % open.len()].clone();
    let position = target.position.unwrap();
    let st = w.position_state(&position).ok_or("position missing")?.state;
    let size_delta = if c.frac >= 200 { st.size_in_usd } else { st.size_in_usd * (c.frac as u128 + 1) / 256 };
    let l = w.liquidation_ref(keeper, target.owner, m, target.is_long, target.is_collateral_long);
    for i in w.ixs_prepare_liquidation(&l, keeper) {
        w.vm.process(&i).map_err(|e| format!("prepare adl: {e:?}"))?;
    }
    let res = w.vm.process(&w.ix_auto_deleverage(&l, keeper, size_delta, 0));
    match res {
        Ok(()) => {
            if !enabled {
                return Err("auto_deleverage succeeded although ADL is not enabled for this side".into());
            }
            if !boundary && !exceeded {
                return Err(format!("auto_deleverage succeeded although the pnl factor {factor} did not exceed the limit {max_adl}"));
            }
            let after = adl_pnl_factor(&w, m, c.is_long).ok_or("zero pool value after")?;
            if after >= factor {
                return Err(format!("auto_deleverage did not lower the pnl factor: {factor} -> {after}"));
            }
            if after < BigInt::from(min_after) - 2 {
                return Err(format!("auto_deleverage pushed the pnl factor {after} below the configured minimum {min_after}"));
            }
            rec.class("adl_executed");
            rec.nontrivial();
        }
        Err(e) => {
            rec.class(match w2::code(&e) {
                6092 => "adl_rejected_not_enabled",
                6093 => "adl_rejected_not_required",
                6094 => "adl_rejected_invalid",
                _ => "adl_rejected_other",
            });
        }
    }
    svm::set_sysvars(svm::Sysvars::default());
    Ok(())
}

/// Program clauses of C09 (liquidation / ADL gating) on the exchange world.
pub fn run_c09(ctx: &mut Ctx) {
    ctx.rule("search `gating` (program clauses): cases = 1..3 long or short positions (collateral $500..$30k in either pool token, 1-39x) opened through real increase orders in a synthetic-index market of the seeded world, per-case ADL limits (max pnl factor 1..60 %, min-after below it), then an index price move of -95..+400 % with a spread and up to 10 minutes of waiting; oracle: (1) `liquidate` of a position that was just opened at unchanged prices is rejected; (2) after the move, `liquidate` never succeeds when collateral value + worst-case pnl exceeds 3 % of the size + $2 (a margin that dominates fees, capped impact, accrued funding/borrowing and the 1 % minimum collateral factor), and a successful liquidation leaves no size, tokens or collateral in the position; (3) `update_adl_state` enables ADL exactly when the BigInt-recomputed pnl-to-pool factor (maximised pnl over minimised pool value, from account bytes and oracle unit prices) exceeds the configured limit; (4) `auto_deleverage` succeeds only if ADL is enabled and that factor exceeded the limit, and then the recomputed factor is strictly lower and not below the configured minimum; non-trivial = an executed ADL");
    ctx.assume("the liquidation clause is one-sided with a safety margin (a gray zone near the threshold is counted, not judged); factors within 2 units of the limit are treated as boundary cases");
    let n = ctx.cases(1_600, 80_000);
    ctx.search("gating", n, health_case, check_c09);
    for (class, floor) in [("fresh_position_liquidation_rejected", 900), ("liquidated", 100), ("healthy_liquidation_rejected", 200), ("adl_enabled", 100), ("adl_not_enabled", 200), ("adl_executed", 40), ("adl_rejected_not_required", 10), ("adl_rejected_not_enabled", 50)] {
        ctx.floor(&format!("gating:{class}"), floor);
    }
}

// ============================================================================================ C32 (settlement)

#[derive(Debug, Clone, Serialize, Deserialize)]
pub struct SettleCase {
    /// Recorded fee relative to the escrow balance: 0 zero, 1 below, 2 equal, 3 above, 4 far above.
    pub relation: u8,
    pub fraction: u16,
    /// 0 completed swap order (escrow holds the output), 1 pending swap order whose output escrow is empty.
    pub order_state: u8,
    pub amount: u16,
    /// 0 correct accounts, 1 optional accounts omitted, 2 another user's account as builder.
    pub accounts: u8,
}

fn settle_case() -> impl Strategy<Value = SettleCase> {
    (0u8..5, any::<u16>(), prop_oneof![3 => Just(0u8), 1 => Just(1u8)], 9u16..3000, prop_oneof![4 => Just(0u8), 1 => Just(1u8), 1 => Just(2u8)]).prop_map(|(relation, fraction, order_state, amount, accounts)| SettleCase { relation, fraction, order_state, amount, accounts })
}

fn check_settle(c: &SettleCase, rec: &mut Rec) -> Result<(), String> {
    let mut w = World::seeded()?;
    let keeper = w.keeper;
    let owner = w.user(0);
    let builder_wallet = w.user(1);
    let builder_user = w.user_account(&builder_wallet);
    let other_user = w.user_account(&w.user(2));
    let lm = w.long_mint;
    // a market swap LONG -> SHORT through market 0
    let a = amt(&w, &lm, c.amount);
    let r = w.swap_order_ref(owner, 0, lm, false, vec![0], a);
    for i in w.ixs_prepare_order(&r) {
        w.vm.process(&i).map_err(|e| format!("prepare: {e:?}"))?;
    }
    w.vm.process(&w.ix_create_order(&r)).map_err(|e| format!("create: {e:?}"))?;
    if c.order_state == 0 {
        w.advance(1);
        w.refresh_prices()?;
        w.vm.process(&w.ix_execute_order(&r, keeper, 0, true)).map_err(|e| format!("execute: {e:?}"))?;
    }
    // the builder's claim vault (ATA of the builder's user account)
    for b in [builder_user, other_user] {
        w.vm.process(&w.ix_prepare_ata(keeper, b, r.final_output_token)).map_err(|e| format!("claim vault: {e:?}"))?;
    }
    let escrow = ata(&r.order, &r.final_output_token);
    let e0 = token_amount(&w.vm, &escrow);
    let recorded = match c.relation % 5 {
        0 => 0,
        1 => (e0 as u128 * c.fraction as u128 / 65536) as u64,
        2 => e0,
        3 => e0.saturating_add(1 + c.fraction as u64),
        _ => u64::MAX - c.fraction as u64,
    };
    w.patch_builder_fee(&r.order, &builder_user, recorded)?;
    rec.class(match (recorded, recorded.cmp(&e0)) {
        (0, _) => "nothing_recorded",
        (_, std::cmp::Ordering::Less) => "recorded_below_escrow",
        (_, std::cmp::Ordering::Equal) => "recorded_equals_escrow",
        _ => "recorded_above_escrow",
    });
    // an order with an unsettled fee cannot be closed
    if recorded != 0 {
        match w.vm.process(&w.ix_close_order(&r, owner)) {
            Err(e) if w2::code(&e) == 6130 => rec.class("close_blocked_while_unsettled"),
            other => return Err(format!("closing an order with an unsettled builder fee of {recorded}: {other:?}, expected UnsettledBuilderFee")),
        }
    }
    let vault = ata(&builder_user, &r.final_output_token);
    let v0 = token_amount(&w.vm, &vault);
    let before = w.vm.accounts.clone();
    let provided = match c.accounts % 3 {
        0 => Some(builder_user),
        1 => None,
        _ => Some(other_user),
    };
    let res = w.vm.process(&w.ix_settle_builder_fee(&r, provided));
    if recorded == 0 {
        if res.is_err() {
            return Err(format!("settling an order without a recorded fee failed: {res:?}"));
        }
        if w.vm.accounts != before {
            return Err("settling an order without a recorded fee changed an account".into());
        }
        rec.class("settle_noop");
        return Ok(());
    }
    if c.accounts % 3 != 0 {
        if res.is_ok() {
            return Err(format!("settlement succeeded with {} although {recorded} is recorded for another builder", if provided.is_none() { "no builder accounts" } else { "a different user's accounts" }));
        }
        rec.class("wrong_accounts_rejected");
        return Ok(());
    }
    res.map_err(|e| format!("settlement failed: {e:?} {:?}", svm::take_logs().last()))?;
    let settled = recorded.min(e0);
    let (e1, v1) = (token_amount(&w.vm, &escrow), token_amount(&w.vm, &vault));
    if e0 - e1 != settled || v1 - v0 != settled {
        return Err(format!("recorded {recorded}, escrow {e0}: escrow lost {}, claim vault gained {}, expected min = {settled}", e0 - e1, v1 - v0));
    }
    let o: gmsol_store::states::Order = svm::read_zero_copy(w.vm.data(&r.order)).ok_or("order unreadable")?;
    if o.builder_fee_amount() != 0 {
        return Err(format!("the record was not zeroed: {}", o.builder_fee_amount()));
    }
    // everything else is untouched
    for (k, a) in &w.vm.accounts {
        if *k != escrow && *k != vault && *k != r.order && before.get(k) != Some(a) {
            return Err(format!("settlement changed the unrelated account {k}"));
        }
    }
    // repeating is a byte-level no-op
    let snapshot = w.vm.accounts.clone();
    w.vm.process(&w.ix_settle_builder_fee(&r, provided)).map_err(|e| format!("second settlement failed: {e:?}"))?;
    if w.vm.accounts != snapshot {
        return Err("a repeated settlement changed an account".into());
    }
    // and the order can be closed now
    w.vm.process(&w.ix_close_order(&r, owner)).map_err(|e| format!("close after settlement failed: {e:?}"))?;
    rec.class("settled");
    rec.nontrivial_if(recorded > e0);
    Ok(())
}

/// Settlement clause of C32 through the real `settle_builder_fee` instruction.
pub fn run_c32_settlement(ctx: &mut Ctx) {
    ctx.rule("search `settlement`: cases = a market swap order (completed, with the output in its escrow, or pending with an empty output escrow) whose builder-fee record is synthesised in the account bytes (zero, below, equal to, above, far above the escrow balance; no instruction produces a non-zero record yet because execution passes a zero factor), then `settle_builder_fee` with the builder's accounts, without the optional accounts, or with another user's accounts; oracle: zero record => Ok and byte-level no-op; wrong or missing builder accounts => rejected; otherwise exactly min(recorded, escrow) moves from the escrow to the builder's claim vault, the record is zeroed, no other account changes, a second call is a byte-level no-op; `close_order_v2` fails with UnsettledBuilderFee before and succeeds after the settlement; non-trivial = recorded above the escrow balance");
    ctx.assume("the builder-fee record (amount and builder) is written directly into the Order account bytes at its layout offsets and read back through the public getter");
    let n = ctx.cases(1_500, 75_000);
    ctx.search("settlement", n, settle_case, check_settle);
    for (class, floor) in [("recorded_below_escrow", 100), ("recorded_equals_escrow", 100), ("recorded_above_escrow", 200), ("settle_noop", 150), ("wrong_accounts_rejected", 150), ("settled", 300), ("close_blocked_while_unsettled", 500)] {
        ctx.floor(&format!("settlement:{class}"), floor);
    }
}

// ============================================================================================ C45 (program clauses)

#[derive(Debug, Clone, Serialize, Deserialize)]
pub struct GlvCase {
    /// Bit mask over the four long/short markets the GLV is created with (at least one).
    pub init_mask: u8,
    /// Market the keeper then tries to insert (0..5; 4 and 5 are single-token markets).
    pub insert: u8,
    pub target: u8,
    pub first: u16,
    pub deposit: u16,
    /// 0 no cap, 1 max amount, 2 max value, 3 both.
    pub cap_mode: u8,
    /// Cap relative to the projected balance / value, in 1/1000.
    pub cap_rel: u16,
    /// With both caps: the value cap relative to the projected value, in 1/1000 (independent of the amount cap).
    pub cap_rel_value: u16,
    pub spread: u8,
    pub price_pct: i8,
    pub withdraw_frac: u8,
}

fn glv_case() -> impl Strategy<Value = GlvCase> {
    (1u8..16, 0u8..6, any::<u8>(), 0u16..3000, 0u16..3000, prop_oneof![1 => Just(0u8), 1 => Just(1u8), 1 => Just(2u8), 2 => Just(3u8)], (prop_oneof![2 => 500u16..980, 1 => 980u16..1020, 2 => 1020u16..2000], prop_oneof![2 => 500u16..900, 2 => 1100u16..2000]), 0u8..60, -30i8..=30, prop_oneof![1 => Just(255u8), 1 => any::<u8>()])
        .prop_map(|(init_mask, insert, target, first, deposit, cap_mode, (cap_rel, cap_rel_value), spread, price_pct, withdraw_frac)| GlvCase { init_mask, insert, target, first, deposit, cap_mode, cap_rel, cap_rel_value, spread, price_pct, withdraw_frac })
}

fn check_c45(c: &GlvCase, rec: &mut Rec) -> Result<(), String> {
    use num_bigint::BigInt;
    let mut w = World::seeded()?;
    let keeper = w.keeper;
    let lp = w.user(2);
    let g = w.glv_info(0);
    let init: Vec<usize> = (0..4).filter(|k| c.init_mask & (1 << k) != 0).collect();
    w.vm.process(&w.ix_initialize_glv(keeper, &g, &init)).map_err(|e| format!("initialize_glv {init:?}: {e:?}"))?;
    // ---- composition
    let ins = c.insert as usize % N_MARKETS;
    let contained = init.contains(&ins);
    let matches_tokens = !w.markets[ins].is_pure();
    let res = w.vm.process(&w.ix_insert_glv_market(keeper, &g, ins));
    match (&res, !contained && matches_tokens) {
        (Ok(()), false) => return Err(format!("insert_glv_market accepted market {ins} ({})", if contained { "already contained" } else { "its pool tokens differ from the GLV's" })),
        (Err(e), true) => return Err(format!("insert_glv_market rejected the matching market {ins}: {e:?}")),
        (Ok(()), true) => rec.class("market_inserted"),
        (Err(_), false) => rec.class(if contained { "insert_rejected_contained" } else { "insert_rejected_token_mismatch" }),
    }
    let glv_state = w.glv_state(&g).ok_or("glv unreadable")?;
    for t in glv_state.market_tokens() {
        let k = w.market_by_token(&t).ok_or("unknown market in GLV")?;
        if w.markets[k].long != *glv_state.long_token() || w.markets[k].short != *glv_state.short_token() {
            return Err(format!("GLV contains market {k} whose pool tokens differ from the GLV's"));
        }
    }
    let members = w.glv_markets(&g);
    for k in &members {
        w.vm.process(&w.ix_toggle_glv_deposit_allowed(keeper, &g, *k, true)).map_err(|e| format!("toggle: {e:?}"))?;
    }
    let target = members[c.target as usize % members.len()];
    let mt = w.markets[target].token;
    let vault = ata(&g.glv, &mt);
    let glv_ata = w2::ata2022(&lp, &g.glv_token);
    let units = |a: u16| (a as u64 + 1) * 10_000_000_000;

    // helper: one GLV deposit of market tokens; returns the final action state
    let glv_deposit = |w: &mut World, market: usize, amount: u64| -> Result<u8, String> {
        let r = w.glv_deposit_ref(lp, market, amount);
        for i in w.ixs_prepare_glv_deposit(&g, &r) {
            w.vm.process(&i).map_err(|e| format!("prepare glv deposit: {e:?}"))?;
        }
        w.vm.process(&w.ix_create_glv_deposit(&g, &r)).map_err(|e| format!("create_glv_deposit: {e:?}"))?;
        w.advance(1);
        w.refresh_prices()?;
        w.vm.process(&w.ix_execute_glv_deposit(&g, &r, keeper, false)).map_err(|e| format!("execute_glv_deposit: {e:?} {:?}", svm::take_logs().last()))?;
        let st = w2::action_state(&w.vm, &r.action).ok_or("glv deposit vanished")?;
        w.vm.process(&w.ix_close_glv_deposit(&g, &r, lp)).map_err(|e| format!("close_glv_deposit: {e:?}"))?;
        Ok(st)
    };
    let recorded_matches = |w: &World| -> Result<(), String> {
        let s = w.glv_state(&g).ok_or("glv unreadable")?;
        for t in s.market_tokens() {
            let rec_bal = s.market_config(&t).map(|c| c.balance()).unwrap_or(0);
            let actual = token_amount(&w.vm, &ata(&g.glv, &t));
            if rec_bal != actual {
                return Err(format!("GLV records a balance of {rec_bal} for market token {t} but its vault holds {actual}"));
            }
        }
        Ok(())
    };

    // ---- first deposits (no caps): target market and, if there is one, a second market
    let f = units(c.first);
    if glv_deposit(&mut w, target, f)? != COMPLETED {
        return Err("the first uncapped GLV deposit was cancelled".into());
    }
    if members.len() > 1 {
        // the second member gets a different pool composition (a large short-token-only deposit), so
        // that price spreads move the two market-token values by different ratios
        let other = members[(c.target as usize + 1) % members.len()];
        let sm = w.short_mint;
        // (either the second member or the target itself becomes the short-heavy one)
        let heavy = if c.first % 2 == 1 { target } else { other };
        let r = w.deposit_ref(lp, heavy, None, Some(sm), 0, 1_500_000_000_000);
        for i in w.ixs_prepare_deposit(&r) {
            w.vm.process(&i).map_err(|e| format!("prepare unbalancing deposit: {e:?}"))?;
        }
        w.vm.process(&w.ix_create_deposit(&r)).map_err(|e| format!("unbalancing deposit: {e:?}"))?;
        w.advance(1);
        w.refresh_prices()?;
        w.vm.process(&w.ix_execute_deposit(&r, keeper, 0, true)).map_err(|e| format!("execute unbalancing deposit: {e:?}"))?;
        w.vm.process(&w.ix_close_deposit(&r, lp)).map_err(|e| format!("close unbalancing deposit: {e:?}"))?;
        if glv_deposit(&mut w, other, units(c.first).max(units(c.deposit)))? != COMPLETED {
            return Err("an uncapped GLV deposit into a second market was cancelled".into());
        }
        rec.class("two_member_glv_with_different_compositions");
        rec.class_if(heavy == target, "target_is_the_short_heavy_member");
    }
    recorded_matches(&w)?;

    // ---- spreads, a price move, caps
    let (lm, it, it2) = (w.long_mint, w.index_token, w.index_token2);
    let (mid, _) = w.prices[&lm];
    w.set_price(&lm, (mid as i128 * (100 + c.price_pct as i128) / 100) as u128, c.spread as u128);
    for t in [it, it2] {
        let (mid, _) = w.prices[&t];
        w.set_price(&t, mid, c.spread as u128);
    }
    w.advance(1);
    w.refresh_prices()?;
    let d = units(c.deposit);
    let projected = f + d;
    // market token value at mid prices: pool value / supply (no positions in this world: the pool
    // value is the value of the pool amounts)
    let value_of = |w: &World, amount: u64, use_max: bool| -> BigInt {
        use gmsol_model::Balance;
        let mk = w.market_state(target);
        let p = mk.pool(gmsol_model::PoolKind::Primary).expect("primary");
        let pick = |t: &Pubkey| if use_max { w.unit_price(t).1 } else { w.unit_price(t).0 };
        let pool = BigInt::from(p.long_amount().unwrap()) * BigInt::from(pick(&w.markets[target].long)) + BigInt::from(p.short_amount().unwrap()) * BigInt::from(pick(&w.markets[target].short));
        let supply = w2::mint_supply(&w.vm, &mt);
        pool * BigInt::from(amount) / BigInt::from(supply.max(1))
    };
    let cap_amount = if c.cap_mode & 1 != 0 { Some((projected as u128 * c.cap_rel as u128 / 1000) as u64) } else { None };
    let cap_value: Option<u128> = if c.cap_mode & 2 != 0 {
        // with both caps configured the two are drawn independently, so that exactly one of them can bind
        let rel = if c.cap_mode & 1 != 0 { c.cap_rel_value } else { c.cap_rel };
        let v = value_of(&w, projected, false) * BigInt::from(rel) / BigInt::from(1000);
        Some(u128::try_from(v).map_err(|_| "value overflow")?.max(1))
    } else {
        None
    };
    w.vm.process(&w.ix_update_glv_market_config(keeper, &g, target, Some(cap_amount.unwrap_or(0)), Some(cap_value.unwrap_or(0)))).map_err(|e| format!("update_glv_market_config: {e:?}"))?;

    // ---- the capped deposit
    let glv_before = token_amount(&w.vm, &glv_ata);
    let vault_before = token_amount(&w.vm, &vault);
    let lp_mt_before = token_amount(&w.vm, &ata(&lp, &mt));
    let st = glv_deposit(&mut w, target, d)?;
    let vault_after = token_amount(&w.vm, &vault);
    recorded_matches(&w)?;
    let amount_exceeded = cap_amount.map(|cap| projected > cap).unwrap_or(false);
    // the value check is judged only outside a 3 % + 2 x spread band around the cap
    let band = 30 + 2 * c.spread as u64 / 10 + 1;
    let value_clearly_exceeded = cap_value.map(|cap| value_of(&w, projected, false) * BigInt::from(1000 - band) / BigInt::from(1000) > BigInt::from(cap)).unwrap_or(false);
    let value_clearly_fine = cap_value.map(|cap| value_of(&w, projected, true) * BigInt::from(1000 + band) / BigInt::from(1000) <= BigInt::from(cap)).unwrap_or(true);
    if st == COMPLETED {
        if vault_after != vault_before + d || vault_before != f {
            return Err(format!("GLV vault: {vault_before} -> {vault_after} after depositing {d} (first deposit {f})"));
        }
        if amount_exceeded {
            return Err(format!("deposit completed although the market-token balance {vault_after} exceeds the configured max amount {:?}", cap_amount));
        }
        if value_clearly_exceeded {
            return Err(format!("deposit completed although the balance value {} clearly exceeds the configured max value {:?}", value_of(&w, projected, false), cap_value));
        }
        rec.class("capped_deposit_completed");
        rec.class_if(cap_amount.is_some() && !amount_exceeded, "amount_cap_respected");
        rec.class_if(cap_value.is_some(), "value_cap_respected");
    } else {
        if vault_after != vault_before || token_amount(&w.vm, &ata(&lp, &mt)) != lp_mt_before {
            return Err("a cancelled GLV deposit moved market tokens".into());
        }
        if !amount_exceeded && value_clearly_fine {
            return Err(format!("GLV deposit of {d} was cancelled although neither cap binds (amount cap {cap_amount:?}, value cap {cap_value:?}, projected balance {projected})"));
        }
        rec.class("capped_deposit_cancelled");
        rec.class_if(amount_exceeded, "amount_cap_binding");
        rec.class_if(value_clearly_exceeded, "value_cap_binding");
        rec.class_if(c.cap_mode == 3 && value_clearly_exceeded && !amount_exceeded, "both_caps_configured_only_value_binding");
        rec.class_if(c.cap_mode == 3 && !value_clearly_exceeded && amount_exceeded, "both_caps_configured_only_amount_binding");
        return Ok(());
    }

    // ---- round trip: withdraw the GLV tokens just minted, at the same prices
    let minted = token_amount(&w.vm, &glv_ata) - glv_before;
    if minted == 0 {
        return Err("a completed GLV deposit minted nothing".into());
    }
    let burn = if c.withdraw_frac == 255 { minted } else { (minted as u128 * (c.withdraw_frac as u128 + 1) / 256) as u64 };
    if burn == 0 {
        return Ok(());
    }
    let r = w.glv_withdrawal_ref(lp, target, burn);
    for i in w.ixs_prepare_glv_withdrawal(&g, &r) {
        w.vm.process(&i).map_err(|e| format!("prepare glv withdrawal: {e:?}"))?;
    }
    w.vm.process(&w.ix_create_glv_withdrawal(&g, &r)).map_err(|e| format!("create_glv_withdrawal: {e:?}"))?;
    w.advance(1);
    w.refresh_prices()?;
    w.vm.process(&w.ix_execute_glv_withdrawal(&g, &r, keeper, false)).map_err(|e| format!("execute_glv_withdrawal: {e:?}"))?;
    let wst = w2::action_state(&w.vm, &r.action);
    w.vm.process(&w.ix_close_glv_withdrawal(&g, &r, lp)).map_err(|e| format!("close_glv_withdrawal: {e:?}"))?;
    recorded_matches(&w)?;
    if wst != Some(COMPLETED) {
        rec.class("withdrawal_cancelled");
        return Ok(());
    }
    let taken = vault_after - token_amount(&w.vm, &vault);
    // pro rata bound: taken <= d * burn / minted (+1 for rounding of the partial burn)
    if BigInt::from(taken) * BigInt::from(minted) > BigInt::from(d) * BigInt::from(burn) + BigInt::from(if burn == minted { 0u64 } else { minted }) {
        return Err(format!("deposited {d} market tokens for {minted} GLV; burning {burn} GLV right away took {taken} market tokens out of the GLV"));
    }
    rec.class("round_trip");
    rec.class_if(c.spread > 0, "round_trip_with_spread");
    rec.class_if(taken < (d as u128 * burn as u128 / minted as u128) as u64, "round_trip_strictly_less");
    rec.nontrivial_if(c.spread > 0 && c.cap_mode != 0);
    svm::set_sysvars(svm::Sysvars::default());
    Ok(())
}

/// Program clauses of C45 (GLV composition, caps, deposit-then-withdraw) on the exchange world.
pub fn run_c45(ctx: &mut Ctx) {
    ctx.rule("search `glv` (program clauses): cases = a GLV created by `initialize_glv` over a non-empty subset of the four long/short markets of the seeded world, an `insert_glv_market` attempt for any of the six markets, uncapped first deposits of market tokens (target market and a second member), then price spreads (0..0.59 %) and a long-token price move, per-market caps (max amount and/or max value at 50..200 % of the projected balance / value), a capped `create/execute/close_glv_deposit` of market tokens, and an immediate `create/execute/close_glv_withdrawal` of all or part of the GLV just minted; oracle: insertion succeeds exactly for a not-yet-contained market with the GLV's pool tokens and every member has the GLV's tokens; the balance recorded per member equals its vault's token amount after every step; a completed deposit leaves balance <= max amount (exact) and balance value <= max value (recomputed from pool amounts, supply and oracle unit prices; judged outside a 3 % + spread band), a cancelled one moves no market tokens and is only accepted when a cap binds; burning b of the m GLV minted for d market tokens takes at most d*b/m market tokens out of the GLV (exact for b = m); non-trivial = spread > 0 with a cap configured");
    ctx.assume("GLV deposits here use market tokens only (no initial long/short tokens or swap paths); GLV shifts are not exercised; the value cap is judged with a tolerance band because the program's pool value includes terms (impact pool, fees) this world keeps near zero");
    let n = ctx.cases(1_000, 50_000);
    ctx.search("glv", n, glv_case, check_c45);
    for (class, floor) in [("market_inserted", 100), ("insert_rejected_contained", 150), ("insert_rejected_token_mismatch", 150), ("capped_deposit_completed", 250), ("amount_cap_binding", 60), ("value_cap_binding", 40), ("both_caps_configured_only_value_binding", 15), ("both_caps_configured_only_amount_binding", 15), ("amount_cap_respected", 80), ("round_trip", 250), ("round_trip_with_spread", 250), ("two_member_glv_with_different_compositions", 500), ("target_is_the_short_heavy_member", 200)] {
        ctx.floor(&format!("glv:{class}"), floor);
    }
}
