//! C21 Uncommitted market operations never leak into stored state.
//!
//! The real `RevertibleMarket` (constructed through the `verif` hook) is driven over an in-memory
//! `AccountLoader<Market>`. Because `commit` always emits `MarketStateUpdated` through a CPI, the
//! whole interpreter runs *inside* svm-lite as a harness-defined driver program (registered with
//! `svm::register_processor`): the market account and the store's event authority are passed to it
//! as instruction accounts, so `invoke_signed` reaches the real `gmsol_store::entry`.

use crate::engine::{pick, Ctx, Rec};
use crate::props::rvfix;
use crate::svm::{self, Acct, Svm, Sysvars};
use anchor_lang::prelude::{AccountInfo, AccountLoader};
use anchor_lang::solana_program::{
    entrypoint::ProgramResult,
    instruction::{AccountMeta, Instruction},
    program_error::ProgramError,
    pubkey::Pubkey,
};
use anchor_lang::{AnchorSerialize, Discriminator};
use gmsol_model::{
    Balance, Bank, BaseMarket, BaseMarketMut, BorrowingFeeMarket, BorrowingFeeMarketMut, ClockKind,
    PerpMarket, PerpMarketMut, Pool as _, PoolKind, PositionImpactMarket, PositionImpactMarketMut,
    SwapMarketMut,
};
use gmsol_programs::gmsol_store::{accounts::Market as SdkMarket, types as sdk};
use gmsol_store::states::market::revertible::{market::RevertibleMarket, Revertible, Revision};
use gmsol_store::states::{market::pool::Pool, Market};
use proptest::prelude::*;
use serde::{Deserialize, Serialize};
use std::cell::RefCell;
use std::mem::{offset_of, size_of};
use strum::IntoEnumIterator;

// ---------------------------------------------------------------------------------------------
// Case
// ---------------------------------------------------------------------------------------------

#[derive(Debug, Clone, Serialize, Deserialize)]
pub enum Step {
    ReadPool { kind: u16 },
    WritePool { kind: u16, long: bool, delta: i128 },
    /// 0 = position impact distribution, 1 = borrowing (funding has no read-only accessor).
    ReadClock { which: u8 },
    /// Advance the sysvar clock by `dt`, then `just_passed_in_seconds_for_*` (0 = distribution,
    /// 1 = borrowing, 2 = funding).
    WriteClock { which: u8, dt: u32 },
    ReadOther,
    WriteFunding { value: i128 },
    TransferIn { long: bool, amount: u64 },
    TransferOut { long: bool, amount: u64 },
}

#[derive(Debug, Clone, Serialize, Deserialize)]
pub struct Operation {
    pub steps: Vec<Step>,
    pub commit: bool,
}

#[derive(Debug, Clone, Serialize, Deserialize)]
pub struct Case {
    pub pure_market: bool,
    /// The pool kinds most steps concentrate on (indices into `PoolKind::iter()`).
    pub hot: [u8; 3],
    pub ops: Vec<Operation>,
}

const KINDS: usize = 16;

fn delta() -> impl Strategy<Value = i128> {
    prop_oneof![
        4 => 1i128..=1_000_000_000_000,
        3 => -1_000_000_000_000i128..=-1,
        2 => 1i128..=(1i128 << 100),
        1 => -(1i128 << 100)..=-1i128,
        1 => Just(0i128),
        1 => prop_oneof![Just(i128::MAX), Just(i128::MIN), Just(i128::MAX - 1)],
    ]
}

fn step() -> impl Strategy<Value = Step> {
    let amount = || prop_oneof![4 => 0u64..=1_000_000_000_000, 1 => Just(u64::MAX), 1 => (u64::MAX / 2)..=u64::MAX];
    prop_oneof![
        6 => any::<u16>().prop_map(|kind| Step::ReadPool { kind }),
        8 => (any::<u16>(), any::<bool>(), delta()).prop_map(|(kind, long, delta)| Step::WritePool { kind, long, delta }),
        2 => (0u8..2).prop_map(|which| Step::ReadClock { which }),
        3 => (0u8..3, prop_oneof![2 => 1u32..=3600, 1 => Just(0u32), 1 => 3600u32..=10_000_000]).prop_map(|(which, dt)| Step::WriteClock { which, dt }),
        2 => Just(Step::ReadOther),
        2 => prop_oneof![3 => -1_000_000_000_000i128..=1_000_000_000_000, 1 => any::<i128>()].prop_map(|value| Step::WriteFunding { value }),
        2 => (any::<bool>(), amount()).prop_map(|(long, amount)| Step::TransferIn { long, amount }),
        2 => (any::<bool>(), amount()).prop_map(|(long, amount)| Step::TransferOut { long, amount }),
    ]
}

fn case() -> impl Strategy<Value = Case> {
    let op = (proptest::collection::vec(step(), 0..8), prop_oneof![1 => Just(true), 1 => Just(false)]).prop_map(|(steps, commit)| Operation { steps, commit });
    (any::<bool>(), [0u8..KINDS as u8, 0u8..KINDS as u8, 0u8..KINDS as u8], proptest::collection::vec(op, 1..10)).prop_map(|(pure_market, hot, ops)| Case { pure_market, hot, ops })
}

/// Map a 16-bit selector to a pool kind: three quarters of the selectors land on the hot kinds.
fn kind_of(c: &Case, sel: u16) -> usize {
    if sel % 4 != 3 {
        c.hot[(sel as usize / 4) % 3] as usize % KINDS
    } else {
        pick(sel, KINDS)
    }
}

// ---------------------------------------------------------------------------------------------
// Reference model: committed cells + per-operation overlay of cells
// ---------------------------------------------------------------------------------------------

#[derive(Debug, Clone, PartialEq, Eq)]
struct Cells<P, C, O, F> {
    pools: [P; KINDS],
    /// price_impact_distribution, borrowing, funding, adl_for_long, adl_for_short
    clocks: [C; 5],
    long_balance: O,
    short_balance: O,
    funding: F,
}

type Committed = Cells<(u128, u128), i64, u64, i128>;
type Overlay = Cells<Option<(u128, u128)>, Option<i64>, Option<u64>, Option<i128>>;

fn empty_overlay() -> Overlay {
    Cells { pools: [None; KINDS], clocks: [None; 5], long_balance: None, short_balance: None, funding: None }
}

struct Model {
    committed: Committed,
    overlay: Overlay,
    pure_market: bool,
}

/// Pools that hold per-side quantities rather than token amounts stay two-sided in a single-token
/// market (documented on `Pools::init`).
const ALWAYS_IMPURE: [PoolKind; 3] = [PoolKind::PositionImpact, PoolKind::BorrowingFactor, PoolKind::TotalBorrowing];

impl Model {
    fn pool_is_pure(&self, kind: PoolKind) -> bool {
        self.pure_market && !ALWAYS_IMPURE.contains(&kind)
    }
    fn pool(&self, k: usize) -> (u128, u128) {
        self.overlay.pools[k].unwrap_or(self.committed.pools[k])
    }
    fn clock(&self, i: usize) -> i64 {
        self.overlay.clocks[i].unwrap_or(self.committed.clocks[i])
    }
    fn long_balance(&self) -> u64 {
        self.overlay.long_balance.unwrap_or(self.committed.long_balance)
    }
    fn short_balance(&self) -> u64 {
        self.overlay.short_balance.unwrap_or(self.committed.short_balance)
    }
    fn funding(&self) -> i128 {
        self.overlay.funding.unwrap_or(self.committed.funding)
    }
    fn commit(&mut self) {
        let o = std::mem::replace(&mut self.overlay, empty_overlay());
        for k in 0..KINDS {
            if let Some(p) = o.pools[k] {
                self.committed.pools[k] = p;
            }
        }
        for i in 0..5 {
            if let Some(c) = o.clocks[i] {
                self.committed.clocks[i] = c;
            }
        }
        if let Some(v) = o.long_balance {
            self.committed.long_balance = v;
        }
        if let Some(v) = o.short_balance {
            self.committed.short_balance = v;
        }
        if let Some(v) = o.funding {
            self.committed.funding = v;
        }
    }
    fn abandon(&mut self) {
        self.overlay = empty_overlay();
    }
}

// ---------------------------------------------------------------------------------------------
// Program-side access
// ---------------------------------------------------------------------------------------------

fn read_pool<'m>(rm: &'m RevertibleMarket<'_, '_>, kind: PoolKind) -> gmsol_model::Result<&'m Pool> {
    use PoolKind::*;
    match kind {
        Primary => rm.liquidity_pool(),
        SwapImpact => rm.swap_impact_pool(),
        ClaimableFee => rm.claimable_fee_pool(),
        OpenInterestForLong => rm.open_interest_pool(true),
        OpenInterestForShort => rm.open_interest_pool(false),
        OpenInterestInTokensForLong => rm.open_interest_in_tokens_pool(true),
        OpenInterestInTokensForShort => rm.open_interest_in_tokens_pool(false),
        PositionImpact => rm.position_impact_pool(),
        BorrowingFactor => rm.borrowing_factor_pool(),
        FundingAmountPerSizeForLong => rm.funding_amount_per_size_pool(true),
        FundingAmountPerSizeForShort => rm.funding_amount_per_size_pool(false),
        ClaimableFundingAmountPerSizeForLong => rm.claimable_funding_amount_per_size_pool(true),
        ClaimableFundingAmountPerSizeForShort => rm.claimable_funding_amount_per_size_pool(false),
        CollateralSumForLong => rm.collateral_sum_pool(true),
        CollateralSumForShort => rm.collateral_sum_pool(false),
        TotalBorrowing => rm.total_borrowing_pool(),
        _ => Err(gmsol_model::Error::MissingPoolKind(kind)),
    }
}

fn write_pool<'m>(rm: &'m mut RevertibleMarket<'_, '_>, kind: PoolKind) -> gmsol_model::Result<&'m mut Pool> {
    use PoolKind::*;
    match kind {
        Primary => rm.liquidity_pool_mut(),
        SwapImpact => rm.swap_impact_pool_mut(),
        ClaimableFee => rm.claimable_fee_pool_mut(),
        OpenInterestForLong => rm.open_interest_pool_mut(true),
        OpenInterestForShort => rm.open_interest_pool_mut(false),
        OpenInterestInTokensForLong => rm.open_interest_in_tokens_pool_mut(true),
        OpenInterestInTokensForShort => rm.open_interest_in_tokens_pool_mut(false),
        PositionImpact => rm.position_impact_pool_mut(),
        BorrowingFactor => rm.borrowing_factor_pool_mut(),
        FundingAmountPerSizeForLong => rm.funding_amount_per_size_pool_mut(true),
        FundingAmountPerSizeForShort => rm.funding_amount_per_size_pool_mut(false),
        ClaimableFundingAmountPerSizeForLong => rm.claimable_funding_amount_per_size_pool_mut(true),
        ClaimableFundingAmountPerSizeForShort => rm.claimable_funding_amount_per_size_pool_mut(false),
        CollateralSumForLong => rm.collateral_sum_pool_mut(true),
        CollateralSumForShort => rm.collateral_sum_pool_mut(false),
        TotalBorrowing => rm.total_borrowing_pool_mut(),
        _ => Err(gmsol_model::Error::MissingPoolKind(kind)),
    }
}

/// (is_pure, raw long field, raw short field) of a pool, through its borsh encoding.
fn raw(pool: &Pool) -> Result<(bool, u128, u128), String> {
    let bytes = pool.try_to_vec().map_err(|e| e.to_string())?;
    if bytes.len() != 48 {
        return Err(format!("pool encodes to {} bytes", bytes.len()));
    }
    Ok((bytes[0] != 0, u128::from_le_bytes(bytes[16..32].try_into().unwrap()), u128::from_le_bytes(bytes[32..48].try_into().unwrap())))
}

/// Amounts a reader sees (documented on `Pool`: a single-token pool keeps everything in the long
/// field and reports ceil(x/2) as long and floor(x/2) as short).
fn visible(pure_pool: bool, p: (u128, u128)) -> (u128, u128) {
    if pure_pool {
        (p.0.div_ceil(2), p.0 / 2)
    } else {
        p
    }
}

fn kinds() -> Vec<PoolKind> {
    PoolKind::iter().collect()
}

fn clock_kinds() -> [ClockKind; 5] {
    [ClockKind::PriceImpactDistribution, ClockKind::Borrowing, ClockKind::Funding, ClockKind::AdlForLong, ClockKind::AdlForShort]
}

// Layout of the stored state and of the buffer inside the account, taken from the SDK's declared
// layout of the same account (its agreement with the program layout is C40's subject; here it only
// decides which byte ranges are compared, the semantic comparison below does not depend on it).
const OFF_STATE: usize = offset_of!(SdkMarket, state);
const OFF_BUFFER: usize = offset_of!(SdkMarket, buffer);
const LEN_STATE: usize = size_of::<sdk::State>();
const LEN_BUFFER: usize = size_of::<sdk::RevertibleBuffer>();
const LEN_POOL: usize = size_of::<sdk::PoolStorage>();

fn pool_offset(kind: PoolKind) -> usize {
    use PoolKind::*;
    let within = match kind {
        Primary => offset_of!(sdk::Pools, primary),
        SwapImpact => offset_of!(sdk::Pools, swap_impact),
        ClaimableFee => offset_of!(sdk::Pools, claimable_fee),
        OpenInterestForLong => offset_of!(sdk::Pools, open_interest_for_long),
        OpenInterestForShort => offset_of!(sdk::Pools, open_interest_for_short),
        OpenInterestInTokensForLong => offset_of!(sdk::Pools, open_interest_in_tokens_for_long),
        OpenInterestInTokensForShort => offset_of!(sdk::Pools, open_interest_in_tokens_for_short),
        PositionImpact => offset_of!(sdk::Pools, position_impact),
        BorrowingFactor => offset_of!(sdk::Pools, borrowing_factor),
        FundingAmountPerSizeForLong => offset_of!(sdk::Pools, funding_amount_per_size_for_long),
        FundingAmountPerSizeForShort => offset_of!(sdk::Pools, funding_amount_per_size_for_short),
        ClaimableFundingAmountPerSizeForLong => offset_of!(sdk::Pools, claimable_funding_amount_per_size_for_long),
        ClaimableFundingAmountPerSizeForShort => offset_of!(sdk::Pools, claimable_funding_amount_per_size_for_short),
        CollateralSumForLong => offset_of!(sdk::Pools, collateral_sum_for_long),
        CollateralSumForShort => offset_of!(sdk::Pools, collateral_sum_for_short),
        TotalBorrowing => offset_of!(sdk::Pools, total_borrowing),
        _ => unreachable!(),
    };
    OFF_STATE + offset_of!(sdk::State, pools) + within
}

const OFF_CLOCKS: usize = OFF_STATE + offset_of!(sdk::State, clocks);
const LEN_CLOCKS: usize = size_of::<sdk::Clocks>();
const OFF_OTHER: usize = OFF_STATE + offset_of!(sdk::State, other);
const LEN_OTHER: usize = size_of::<sdk::OtherState>();

fn outside(bytes: &[u8], holes: &[(usize, usize)]) -> Vec<u8> {
    let mut v = bytes.to_vec();
    for (off, len) in holes {
        v[*off..*off + *len].fill(0);
    }
    v
}

// ---------------------------------------------------------------------------------------------
// Interpreter (runs inside svm-lite as the driver program)
// ---------------------------------------------------------------------------------------------

#[derive(Default)]
struct Outcome {
    classes: Vec<&'static str>,
    nontrivial: bool,
}

impl Outcome {
    fn class(&mut self, c: &'static str) {
        if !self.classes.contains(&c) {
            self.classes.push(c);
        }
    }
    fn class_if_both(&mut self, cond: bool, c: &'static str) {
        if cond {
            self.class(c);
        }
    }
}

thread_local! {
    static CASE: RefCell<Option<Case>> = const { RefCell::new(None) };
    static OUT: RefCell<Option<(Result<(), String>, Outcome)>> = const { RefCell::new(None) };
}

static STORE_PROGRAM: Pubkey = gmsol_store::ID;
const T0: i64 = 1_700_000_000;

fn driver_id() -> Pubkey {
    svm::key_of("c21-driver-program")
}

fn driver(_pid: &Pubkey, accounts: &[AccountInfo<'static>], _data: &[u8]) -> ProgramResult {
    let case = CASE.with(|c| c.borrow().clone()).ok_or(ProgramError::InvalidInstructionData)?;
    let mut out = Outcome::default();
    let r = interpret(&case, accounts, &mut out);
    OUT.with(|o| *o.borrow_mut() = Some((r, out)));
    Ok(())
}

/// Compare the stored view (what `Market::pool/clock/state` return) with the model's committed state.
fn check_stored(m: &Market, model: &Model, when: &str) -> Result<(), String> {
    for (k, kind) in kinds().into_iter().enumerate() {
        let p = m.pool(kind).ok_or_else(|| format!("{when}: stored pool {kind:?} missing"))?;
        let (is_pure, l, s) = raw(&p)?;
        if is_pure != model.pool_is_pure(kind) {
            return Err(format!("{when}: stored pool {kind:?} pure bit {is_pure}"));
        }
        if (l, s) != model.committed.pools[k] {
            return Err(format!("{when}: stored pool {kind:?} holds ({l},{s}), committed state is {:?}", model.committed.pools[k]));
        }
    }
    for (i, ck) in clock_kinds().into_iter().enumerate() {
        let t = m.clock(ck).ok_or_else(|| format!("{when}: stored clock {ck:?} missing"))?;
        if t != model.committed.clocks[i] {
            return Err(format!("{when}: stored clock {ck:?} = {t}, committed state is {}", model.committed.clocks[i]));
        }
    }
    let st = m.state();
    if st.long_token_balance_raw() != model.committed.long_balance || st.short_token_balance_raw() != model.committed.short_balance {
        return Err(format!(
            "{when}: stored balances ({},{}), committed state is ({},{})",
            st.long_token_balance_raw(),
            st.short_token_balance_raw(),
            model.committed.long_balance,
            model.committed.short_balance
        ));
    }
    if st.funding_factor_per_second() != model.committed.funding {
        return Err(format!("{when}: stored funding factor {}, committed state is {}", st.funding_factor_per_second(), model.committed.funding));
    }
    if st.trade_count() != 0 {
        return Err(format!("{when}: trade count changed to {}", st.trade_count()));
    }
    Ok(())
}

/// Everything a reader of the open operation can observe, compared with overlay-or-committed.
fn check_reads(rm: &RevertibleMarket<'_, '_>, model: &Model, which: &[usize], tokens: (&Pubkey, &Pubkey), now: i64, when: &str) -> Result<(), String> {
    let ks = kinds();
    for &k in which {
        let kind = ks[k];
        let p = read_pool(rm, kind).map_err(|e| format!("{when}: reading {kind:?}: {e}"))?;
        let (is_pure, l, s) = raw(p)?;
        let want = model.pool(k);
        if (l, s) != want || is_pure != model.pool_is_pure(kind) {
            return Err(format!("{when}: read of pool {kind:?} sees ({l},{s}), the operation's view is {want:?} (committed {:?}, written in this operation: {})", model.committed.pools[k], model.overlay.pools[k].is_some()));
        }
        let vis = visible(is_pure, want);
        let got = (p.long_amount().map_err(|e| e.to_string())?, p.short_amount().map_err(|e| e.to_string())?);
        if got != vis {
            return Err(format!("{when}: pool {kind:?} reports amounts {got:?}, expected {vis:?}"));
        }
    }
    let elapsed = |c: i64| -> u64 { (now as i128 - c as i128).clamp(0, u64::MAX as i128) as u64 };
    let d = rm.passed_in_seconds_for_position_impact_distribution().map_err(|e| e.to_string())?;
    if d != elapsed(model.clock(0)) {
        return Err(format!("{when}: distribution clock read gives {d} s elapsed, the operation's view is {} (clock {}, now {now})", elapsed(model.clock(0)), model.clock(0)));
    }
    let d = rm.passed_in_seconds_for_borrowing().map_err(|e| e.to_string())?;
    if d != elapsed(model.clock(1)) {
        return Err(format!("{when}: borrowing clock read gives {d} s elapsed, the operation's view is {} (clock {}, now {now})", elapsed(model.clock(1)), model.clock(1)));
    }
    let f = *rm.funding_factor_per_second();
    if f != model.funding() {
        return Err(format!("{when}: funding factor read {f}, the operation's view is {}", model.funding()));
    }
    let lb = rm.balance(tokens.0).map_err(|e| e.to_string())?;
    let sb = rm.balance(tokens.1).map_err(|e| e.to_string())?;
    let want_sb = if model.pure_market { model.long_balance() } else { model.short_balance() };
    if lb != model.long_balance() || sb != want_sb {
        return Err(format!("{when}: balances read ({lb},{sb}), the operation's view is ({},{want_sb})", model.long_balance()));
    }
    Ok(())
}

fn interpret(c: &Case, accounts: &[AccountInfo<'static>], out: &mut Outcome) -> Result<(), String> {
    let [market_acc, event_authority] = accounts else {
        return Err("driver expects 2 accounts".into());
    };
    // The same account data viewed as an account of the store program.
    let market_info: AccountInfo<'static> = AccountInfo {
        key: market_acc.key,
        lamports: market_acc.lamports.clone(),
        data: market_acc.data.clone(),
        owner: &STORE_PROGRAM,
        rent_epoch: 0,
        is_signer: false,
        is_writable: true,
        executable: false,
    };
    // SAFETY: the loader and every borrow derived from it are dropped before this function returns;
    // the data they point to lives in svm-lite's account block for the whole instruction.
    let market_ref: &'static AccountInfo<'static> = unsafe { std::mem::transmute(&market_info) };
    let event_ref: &'static AccountInfo<'static> = unsafe { std::mem::transmute(event_authority) };
    let loader: AccountLoader<'static, Market> = AccountLoader::try_from(market_ref).map_err(|e| format!("loader: {e}"))?;
    let (_, bump) = Pubkey::find_program_address(&[b"__event_authority"], &gmsol_store::ID);

    let ks = kinds();
    if ks.len() != KINDS {
        return Err(format!("PoolKind has {} variants, the model table has {KINDS}", ks.len()));
    }
    let (long_token, short_token) = {
        let m = loader.load().map_err(|e| e.to_string())?;
        (m.meta().long_token_mint, m.meta().short_token_mint)
    };
    let mut model = Model {
        committed: Cells { pools: [(0, 0); KINDS], clocks: [T0, T0, T0, 0, 0], long_balance: 0, short_balance: 0, funding: 0 },
        overlay: empty_overlay(),
        pure_market: c.pure_market,
    };
    {
        let m = loader.load().map_err(|e| e.to_string())?;
        // The ADL clocks are not part of the property; take their initial values as found.
        model.committed.clocks[3] = m.clock(ClockKind::AdlForLong).unwrap_or(0);
        model.committed.clocks[4] = m.clock(ClockKind::AdlForShort).unwrap_or(0);
        check_stored(&m, &model, "fresh market")?;
    }
    let mut now = T0;
    let mut last_rev: Option<u64> = None;
    // cells written by an operation that was later abandoned (and not rewritten by a commit since)
    let mut abandoned_pools = [false; KINDS];
    let mut abandoned_clocks = false;
    let mut abandoned_other = false;
    let mut consecutive_abandons = 0u32;
    let all: Vec<usize> = (0..KINDS).collect();

    for (oi, op) in c.ops.iter().enumerate() {
        let pre: Vec<u8> = {
            let m = loader.load().map_err(|e| e.to_string())?;
            bytemuck::bytes_of(&*m).to_vec()
        };
        let pre_outside_buffer = outside(&pre, &[(OFF_BUFFER, LEN_BUFFER)]);
        let mut rm = gmsol_store::verif::new_revertible_market(&loader, event_ref, bump).map_err(|e| format!("begin: {e}"))?;
        let rev = rm.rev();
        if let Some(prev) = last_rev {
            if rev != prev + 1 {
                return Err(format!("operation #{oi} runs at revision {rev}, the previous one at {prev}"));
            }
        }
        last_rev = Some(rev);
        let mut touched_pools = [false; KINDS];
        let mut touched_clocks = false;
        let mut touched_other = false;
        let mut wrote_anything = false;

        for (si, st) in op.steps.iter().enumerate() {
            let when = format!("operation #{oi} step #{si} {st:?}");
            match st {
                Step::ReadPool { kind } => {
                    let k = kind_of(c, *kind);
                    check_reads(&rm, &model, &[k], (&long_token, &short_token), now, &when)?;
                    if abandoned_pools[k] {
                        out.class("read_pool_after_abandoned_write_of_same_kind");
                        out.nontrivial = true;
                    }
                    if model.overlay.pools[k].is_some() {
                        out.class("read_own_write");
                    }
                }
                Step::WritePool { kind, long, delta } => {
                    let k = kind_of(c, *kind);
                    let kind = ks[k];
                    let cur = model.pool(k);
                    let to_long_field = *long || model.pool_is_pure(kind);
                    let target = if to_long_field { cur.0 } else { cur.1 };
                    let expect = target.checked_add_signed(*delta);
                    let res = {
                        let p = write_pool(&mut rm, kind).map_err(|e| format!("{when}: {e}"))?;
                        if *long {
                            p.apply_delta_to_long_amount(delta)
                        } else {
                            p.apply_delta_to_short_amount(delta)
                        }
                    };
                    touched_pools[k] = true;
                    wrote_anything = true;
                    match (res, expect) {
                        (Ok(()), Some(v)) => {
                            model.overlay.pools[k] = Some(if to_long_field { (v, cur.1) } else { (cur.0, v) });
                        }
                        (Err(_), None) => {
                            out.class("write_rejected_out_of_range");
                            // the pool was opened for writing: its current view becomes part of the overlay
                            model.overlay.pools[k] = Some(cur);
                        }
                        (Ok(()), None) => return Err(format!("{when}: delta accepted although {target} + {delta} is out of range")),
                        (Err(e), Some(_)) => return Err(format!("{when}: delta rejected: {e}")),
                    }
                    if abandoned_pools[k] {
                        out.class("write_pool_after_abandoned_write_of_same_kind");
                    }
                    check_reads(&rm, &model, &[k], (&long_token, &short_token), now, &when)?;
                }
                Step::ReadClock { .. } | Step::ReadOther => {
                    check_reads(&rm, &model, &[], (&long_token, &short_token), now, &when)?;
                    if matches!(st, Step::ReadClock { .. }) && abandoned_clocks {
                        out.class("read_clock_after_abandoned_clock_write");
                        out.nontrivial = true;
                    }
                    if matches!(st, Step::ReadOther) && abandoned_other {
                        out.class("read_other_after_abandoned_other_write");
                        out.nontrivial = true;
                    }
                }
                Step::WriteClock { which, dt } => {
                    now += *dt as i64;
                    svm::set_sysvars(Sysvars { unix_timestamp: now, ..Default::default() });
                    let i = (*which % 3) as usize;
                    let got = match i {
                        0 => rm.just_passed_in_seconds_for_position_impact_distribution(),
                        1 => rm.just_passed_in_seconds_for_borrowing(),
                        _ => rm.just_passed_in_seconds_for_funding(),
                    }
                    .map_err(|e| format!("{when}: {e}"))?;
                    let last = model.clock(i);
                    let want = if now > last { (now - last) as u64 } else { 0 };
                    if got != want {
                        return Err(format!("{when}: {got} s reported, the operation's view of the clock is {last} and now is {now}"));
                    }
                    if now > last {
                        model.overlay.clocks[i] = Some(now);
                    } else {
                        model.overlay.clocks[i] = Some(last);
                    }
                    touched_clocks = true;
                    wrote_anything = true;
                    check_reads(&rm, &model, &[], (&long_token, &short_token), now, &when)?;
                }
                Step::WriteFunding { value } => {
                    *rm.funding_factor_per_second_mut() = *value;
                    model.overlay.funding = Some(*value);
                    touched_other = true;
                    wrote_anything = true;
                    check_reads(&rm, &model, &[], (&long_token, &short_token), now, &when)?;
                }
                Step::TransferIn { long, amount } | Step::TransferOut { long, amount } => {
                    let incoming = matches!(st, Step::TransferIn { .. });
                    let token = if *long { &long_token } else { &short_token };
                    let res = if incoming { rm.record_transferred_in_by_token(token, amount) } else { rm.record_transferred_out_by_token(token, amount) };
                    let on_long = *long || c.pure_market;
                    let cur = if on_long { model.long_balance() } else { model.short_balance() };
                    let expect = if incoming { cur.checked_add(*amount) } else { cur.checked_sub(*amount) };
                    touched_other = true;
                    wrote_anything = true;
                    match (res, expect) {
                        (Ok(()), Some(v)) => {
                            if on_long {
                                model.overlay.long_balance = Some(v);
                            } else {
                                model.overlay.short_balance = Some(v);
                            }
                        }
                        (Err(_), None) => out.class("transfer_rejected_out_of_range"),
                        (Ok(()), None) => return Err(format!("{when}: accepted although the balance {cur} cannot absorb it")),
                        (Err(e), Some(_)) => return Err(format!("{when}: rejected: {e}")),
                    }
                    check_reads(&rm, &model, &[], (&long_token, &short_token), now, &when)?;
                }
            }
            // nothing reaches the stored state while the operation is open
            let m: &Market = rm.as_ref();
            if outside(bytemuck::bytes_of(m), &[(OFF_BUFFER, LEN_BUFFER)]) != pre_outside_buffer {
                return Err(format!("{when}: account bytes outside the revertible buffer changed before commit"));
            }
            check_stored(m, &model, &when)?;
        }

        if op.commit {
            rm.commit();
            model.commit();
            consecutive_abandons = 0;
            out.class(if wrote_anything { "commit_with_writes" } else { "commit_without_writes" });
            let m = loader.load().map_err(|e| e.to_string())?;
            let when = format!("after commit of operation #{oi}");
            check_stored(&m, &model, &when)?;
            let post = bytemuck::bytes_of(&*m);
            // untouched parts of the account are byte-identical
            let holes = [(OFF_BUFFER, LEN_BUFFER), (OFF_STATE, LEN_STATE)];
            if outside(post, &holes) != outside(&pre, &holes) {
                return Err(format!("{when}: bytes outside the state and the buffer changed"));
            }
            for (k, kind) in ks.iter().enumerate() {
                let off = pool_offset(*kind);
                if !touched_pools[k] && post[off..off + LEN_POOL] != pre[off..off + LEN_POOL] {
                    return Err(format!("{when}: stored pool {kind:?} was not written by the operation but its bytes changed"));
                }
                if touched_pools[k] {
                    abandoned_pools[k] = false;
                }
            }
            if !touched_clocks && post[OFF_CLOCKS..OFF_CLOCKS + LEN_CLOCKS] != pre[OFF_CLOCKS..OFF_CLOCKS + LEN_CLOCKS] {
                return Err(format!("{when}: clocks were not written by the operation but their bytes changed"));
            }
            if !touched_other && post[OFF_OTHER..OFF_OTHER + LEN_OTHER] != pre[OFF_OTHER..OFF_OTHER + LEN_OTHER] {
                return Err(format!("{when}: balances/funding were not written by the operation but their bytes changed"));
            }
            // the remainder of the state struct (reserved pools, reserved bytes)
            let mut state_holes: Vec<(usize, usize)> = ks.iter().map(|k| (pool_offset(*k) - OFF_STATE, LEN_POOL)).collect();
            state_holes.push((OFF_CLOCKS - OFF_STATE, LEN_CLOCKS));
            state_holes.push((OFF_OTHER - OFF_STATE, LEN_OTHER));
            if outside(&post[OFF_STATE..OFF_STATE + LEN_STATE], &state_holes) != outside(&pre[OFF_STATE..OFF_STATE + LEN_STATE], &state_holes) {
                return Err(format!("{when}: reserved parts of the stored state changed"));
            }
            if touched_clocks {
                abandoned_clocks = false;
            }
            if touched_other {
                abandoned_other = false;
            }
        } else {
            drop(rm);
            model.abandon();
            consecutive_abandons += 1;
            out.class(if wrote_anything { "abandon_with_writes" } else { "abandon_without_writes" });
            if consecutive_abandons >= 2 {
                out.class("repeated_abandon");
            }
            for k in 0..KINDS {
                abandoned_pools[k] |= touched_pools[k];
            }
            abandoned_clocks |= touched_clocks;
            abandoned_other |= touched_other;
            let m = loader.load().map_err(|e| e.to_string())?;
            let when = format!("after abandoning operation #{oi}");
            if outside(bytemuck::bytes_of(&*m), &[(OFF_BUFFER, LEN_BUFFER)]) != pre_outside_buffer {
                return Err(format!("{when}: account bytes outside the revertible buffer changed"));
            }
            check_stored(&m, &model, &when)?;
        }
    }

    // Final sweep: a fresh operation must see exactly the committed state for every kind, and
    // committing it without writes must change nothing.
    {
        let pre: Vec<u8> = bytemuck::bytes_of(&*loader.load().map_err(|e| e.to_string())?).to_vec();
        let rm = gmsol_store::verif::new_revertible_market(&loader, event_ref, bump).map_err(|e| format!("final begin: {e}"))?;
        check_reads(&rm, &model, &all, (&long_token, &short_token), now, "final sweep")?;
        if abandoned_pools.iter().any(|b| *b) || abandoned_clocks || abandoned_other {
            out.nontrivial = true;
            out.class("final_sweep_over_abandoned_cells");
        }
        rm.commit();
        let m = loader.load().map_err(|e| e.to_string())?;
        if outside(bytemuck::bytes_of(&*m), &[(OFF_BUFFER, LEN_BUFFER)]) != outside(&pre, &[(OFF_BUFFER, LEN_BUFFER)]) {
            return Err("final sweep: a commit without writes changed stored bytes".into());
        }
        check_stored(&m, &model, "after the final empty commit")?;
    }
    Ok(())
}

// ---------------------------------------------------------------------------------------------
// Host side
// ---------------------------------------------------------------------------------------------

fn check(c: &Case, rec: &mut Rec) -> Result<(), String> {
    let mut vm = Svm::new();
    svm::register_processor(driver_id(), driver);
    svm::set_sysvars(Sysvars { unix_timestamp: T0, ..Default::default() });
    let market = crate::props::c17::new_market(&crate::props::c17::Case { pure_market: c.pure_market, enabled: true, seed: 21, now: T0 })?;
    let mut data = <Market as Discriminator>::DISCRIMINATOR.to_vec();
    data.extend_from_slice(bytemuck::bytes_of(&market));
    if data.len() != 8 + size_of::<SdkMarket>() {
        return Err(format!("program Market is {} bytes, SDK Market {} bytes", data.len() - 8, size_of::<SdkMarket>()));
    }
    let market_key = svm::key_of("c21-market");
    // Owned by the driver so that svm-lite's "only the owner writes" rule is satisfied; the driver
    // presents it to the store code with the store program as owner.
    vm.set_account(market_key, Acct { lamports: 1_000_000_000, data, owner: driver_id(), executable: false });
    let (event_authority, _) = Pubkey::find_program_address(&[b"__event_authority"], &gmsol_store::ID);
    let ix = Instruction {
        program_id: driver_id(),
        // The event authority signs for the store program's self-CPI; here the caller is the driver,
        // so the signature is granted at the top level.
        accounts: vec![AccountMeta::new(market_key, false), AccountMeta::new_readonly(event_authority, true)],
        data: vec![],
    };
    CASE.with(|k| *k.borrow_mut() = Some(c.clone()));
    OUT.with(|o| *o.borrow_mut() = None);
    svm::keep_logs(true);
    let res = vm.process(&ix);
    let logs = svm::take_logs();
    svm::keep_logs(false);
    CASE.with(|k| *k.borrow_mut() = None);
    let Some((r, out)) = OUT.with(|o| o.borrow_mut().take()) else {
        let tail: Vec<String> = logs.iter().rev().take(4).rev().cloned().collect();
        return Err(format!("driver did not finish: {res:?}; last logs: {tail:?}"));
    };
    for cl in &out.classes {
        rec.class(cl);
    }
    rec.class(if c.pure_market { "pure_market" } else { "two_token_market" });
    rec.nontrivial_if(out.nontrivial);
    r?;
    res.map_err(|e| format!("driver instruction failed after the interpreter finished: {e:?}"))
}

// ---------------------------------------------------------------------------------------------
// RevertibleLiquidityMarket: mint and burn are deferred to commit
// ---------------------------------------------------------------------------------------------

#[derive(Debug, Clone, Serialize, Deserialize)]
pub enum LStep {
    /// Mint `amount` (values above u64 and overflowing totals included).
    Mint { amount: u128 },
    /// Burn a 16-bit fraction of what the vault still holds beyond the burns already requested.
    Burn { fraction: u16 },
    /// Burn more than the whole supply.
    BurnTooMuch { extra: u64 },
    /// 0 = primary, 1 = claimable fee, 2 = swap impact.
    WritePool { which: u8, long: bool, delta: i128 },
    ReadSupply,
    TransferIn { long: bool, amount: u64 },
}

#[derive(Debug, Clone, Serialize, Deserialize)]
pub struct LOperation {
    pub steps: Vec<LStep>,
    pub commit: bool,
}

#[derive(Debug, Clone, Serialize, Deserialize)]
pub struct LCase {
    pub pure_market: bool,
    pub supply: u64,
    /// Share of the supply that sits in the store-owned vault (16-bit fraction).
    pub vault_share: u16,
    pub ops: Vec<LOperation>,
}

fn lcase() -> impl Strategy<Value = LCase> {
    let step = prop_oneof![
        4 => prop_oneof![4 => 1u128..=1_000_000_000_000, 1 => Just(0u128), 1 => (u64::MAX as u128 / 2)..=(u64::MAX as u128), 1 => (u64::MAX as u128)..=u128::MAX].prop_map(|amount| LStep::Mint { amount }),
        4 => any::<u16>().prop_map(|fraction| LStep::Burn { fraction }),
        1 => (0u64..=1000).prop_map(|extra| LStep::BurnTooMuch { extra }),
        3 => (0u8..3, any::<bool>(), delta()).prop_map(|(which, long, delta)| LStep::WritePool { which, long, delta }),
        3 => Just(LStep::ReadSupply),
        1 => (any::<bool>(), 0u64..=1_000_000_000).prop_map(|(long, amount)| LStep::TransferIn { long, amount }),
    ];
    let op = (proptest::collection::vec(step, 0..7), any::<bool>()).prop_map(|(steps, commit)| LOperation { steps, commit });
    (
        any::<bool>(),
        prop_oneof![3 => 0u64..=1_000_000_000_000, 1 => Just(0u64), 1 => (u64::MAX - 1_000_000)..=u64::MAX, 1 => (u64::MAX / 2)..=u64::MAX],
        any::<u16>(),
        proptest::collection::vec(op, 1..8),
    )
        .prop_map(|(pure_market, supply, vault_share, ops)| LCase { pure_market, supply, vault_share, ops })
}

thread_local! {
    static LCASE: RefCell<Option<LCase>> = const { RefCell::new(None) };
}

fn ldriver(_pid: &Pubkey, accounts: &[AccountInfo<'static>], _data: &[u8]) -> ProgramResult {
    let case = LCASE.with(|c| c.borrow().clone()).ok_or(ProgramError::InvalidInstructionData)?;
    let mut out = Outcome::default();
    // SAFETY: `env` and everything derived from it are dropped before this function returns.
    let env = unsafe { rvfix::Env::new(accounts)? };
    let r = linterpret(&case, &env, &mut out);
    OUT.with(|o| *o.borrow_mut() = Some((r, out)));
    Ok(())
}

fn linterpret(c: &LCase, env: &rvfix::Env, out: &mut Outcome) -> Result<(), String> {
    use gmsol_model::{LiquidityMarket, LiquidityMarketMut};
    let loader = env.market_loader()?;
    let store = env.store_loader()?;
    let (long_token, short_token) = {
        let m = loader.load().map_err(|e| e.to_string())?;
        (m.meta().long_token_mint, m.meta().short_token_mint)
    };
    let lkinds = [PoolKind::Primary, PoolKind::ClaimableFee, PoolKind::SwapImpact];
    let mut pools = [(0u128, 0u128); 3];
    let (mut long_balance, mut short_balance) = (0u64, 0u64);
    let mut supply = rvfix::mint_supply(env.mint)?;
    let mut vault = rvfix::token_amount(env.vault)?;
    let mut receiver = rvfix::token_amount(env.receiver)?;
    let mut abandoned_mint_or_burn = false;

    for (oi, op) in c.ops.iter().enumerate() {
        let pre: Vec<u8> = env.market_bytes()?;
        let pre_outside_buffer = outside(&pre, &[(OFF_BUFFER, LEN_BUFFER)]);
        let mint_account = env.mint_account()?;
        if mint_account.supply != supply {
            return Err(format!("operation #{oi}: the mint reports supply {}, expected {supply}", mint_account.supply));
        }
        let rm = gmsol_store::verif::new_revertible_market(&loader, env.event_authority, env.event_bump).map_err(|e| format!("begin: {e}"))?;
        let mut lm = gmsol_store::verif::new_revertible_liquidity_market(rm, &mint_account, env.token_program, &store, Some(env.receiver), Some(env.vault), None).map_err(|e| format!("liquidity market: {e}"))?;
        let (mut to_mint, mut to_burn) = (0u64, 0u64);
        let mut opools = pools;
        let (mut olong, mut oshort) = (long_balance, short_balance);
        for (si, st) in op.steps.iter().enumerate() {
            let when = format!("operation #{oi} step #{si} {st:?}");
            match st {
                LStep::Mint { amount } => {
                    let expect = u64::try_from(*amount).ok().and_then(|a| to_mint.checked_add(a)).filter(|t| supply.checked_add(*t).is_some());
                    let res = lm.mint(amount);
                    match (res, expect) {
                        (Ok(()), Some(t)) => to_mint = t,
                        (Err(_), None) => out.class("mint_rejected"),
                        (Ok(()), None) => return Err(format!("{when}: accepted although supply {supply} + pending mints {to_mint} + {amount} does not fit u64")),
                        (Err(e), Some(_)) => return Err(format!("{when}: rejected: {e}")),
                    }
                }
                LStep::Burn { fraction } => {
                    let room = vault - to_burn;
                    let amount = ((*fraction as u128 * (room as u128 + 1)) >> 16) as u64;
                    lm.burn(&(amount as u128)).map_err(|e| format!("{when}: burn of {amount} (vault {vault}, pending burns {to_burn}, supply {supply}) rejected: {e}"))?;
                    to_burn += amount;
                }
                LStep::BurnTooMuch { extra } => {
                    let amount = (supply - to_burn) as u128 + 1 + *extra as u128;
                    if lm.burn(&amount).is_ok() {
                        return Err(format!("{when}: burning {amount} accepted with supply {supply} and pending burns {to_burn}"));
                    }
                    out.class("burn_rejected");
                }
                LStep::WritePool { which, long, delta } => {
                    let i = (*which % 3) as usize;
                    let pure_pool = c.pure_market;
                    let cur = opools[i];
                    let to_long_field = *long || pure_pool;
                    let target = if to_long_field { cur.0 } else { cur.1 };
                    let expect = target.checked_add_signed(*delta);
                    let res = {
                        let p = match i {
                            0 => lm.liquidity_pool_mut(),
                            1 => lm.claimable_fee_pool_mut(),
                            _ => lm.swap_impact_pool_mut(),
                        }
                        .map_err(|e| format!("{when}: {e}"))?;
                        if *long {
                            p.apply_delta_to_long_amount(delta)
                        } else {
                            p.apply_delta_to_short_amount(delta)
                        }
                    };
                    match (res, expect) {
                        (Ok(()), Some(v)) => opools[i] = if to_long_field { (v, cur.1) } else { (cur.0, v) },
                        (Err(_), None) => {}
                        (Ok(()), None) => return Err(format!("{when}: out-of-range delta accepted")),
                        (Err(e), Some(_)) => return Err(format!("{when}: rejected: {e}")),
                    }
                }
                LStep::ReadSupply => {
                    if abandoned_mint_or_burn {
                        out.class("read_supply_after_abandoned_mint_or_burn");
                        out.nontrivial = true;
                    }
                }
                LStep::TransferIn { long, amount } => {
                    let token = if *long { &long_token } else { &short_token };
                    let on_long = *long || c.pure_market;
                    let cur = if on_long { olong } else { oshort };
                    match (lm.record_transferred_in_by_token(token, amount), cur.checked_add(*amount)) {
                        (Ok(()), Some(v)) => {
                            if on_long {
                                olong = v
                            } else {
                                oshort = v
                            }
                        }
                        (Err(_), None) => {}
                        (r, e) => return Err(format!("{when}: result {:?}, expected {e:?}", r.map_err(|e| e.to_string()))),
                    }
                }
            }
            // reads: the operation sees its own pending mints and burns
            let want_supply = supply as u128 + to_mint as u128 - to_burn as u128;
            let got = lm.total_supply();
            if got != want_supply {
                return Err(format!("{when}: total_supply() = {got}, expected supply {supply} + pending mints {to_mint} - pending burns {to_burn}"));
            }
            for (i, kind) in lkinds.iter().enumerate() {
                let p = match i {
                    0 => lm.liquidity_pool(),
                    1 => lm.claimable_fee_pool(),
                    _ => lm.swap_impact_pool(),
                }
                .map_err(|e| e.to_string())?;
                let (_, l, s) = raw(p)?;
                if (l, s) != opools[i] {
                    return Err(format!("{when}: pool {kind:?} read ({l},{s}), the operation's view is {:?}", opools[i]));
                }
            }
            let lb = lm.balance(&long_token).map_err(|e| e.to_string())?;
            if lb != olong {
                return Err(format!("{when}: long balance read {lb}, the operation's view is {olong}"));
            }
            // nothing is minted, burned or stored before commit
            if rvfix::mint_supply(env.mint)? != supply || rvfix::token_amount(env.vault)? != vault || rvfix::token_amount(env.receiver)? != receiver {
                return Err(format!("{when}: market tokens moved before commit"));
            }
        }
        if to_mint > 0 || to_burn > 0 {
            out.class(if op.commit { "commit_with_mint_or_burn" } else { "abandon_with_mint_or_burn" });
        }
        if op.commit {
            out.class_if_both(to_mint > 0 && to_burn > 0, "commit_with_mint_and_burn");
            lm.commit();
            supply = supply + to_mint - to_burn;
            vault -= to_burn;
            receiver += to_mint;
            pools = opools;
            long_balance = olong;
            short_balance = oshort;
            abandoned_mint_or_burn = false;
        } else {
            drop(lm);
            abandoned_mint_or_burn |= to_mint > 0 || to_burn > 0;
            if outside(&env.market_bytes()?, &[(OFF_BUFFER, LEN_BUFFER)]) != pre_outside_buffer {
                return Err(format!("after abandoning operation #{oi}: market bytes outside the buffer changed"));
            }
        }
        let when = format!("after {} operation #{oi}", if op.commit { "committing" } else { "abandoning" });
        let (s, v, r) = (rvfix::mint_supply(env.mint)?, rvfix::token_amount(env.vault)?, rvfix::token_amount(env.receiver)?);
        if (s, v, r) != (supply, vault, receiver) {
            return Err(format!("{when}: supply/vault/receiver = ({s},{v},{r}), expected ({supply},{vault},{receiver})"));
        }
        let m = loader.load().map_err(|e| e.to_string())?;
        for (i, kind) in lkinds.iter().enumerate() {
            let (_, l, s) = raw(&m.pool(*kind).ok_or("pool missing")?)?;
            if (l, s) != pools[i] {
                return Err(format!("{when}: stored pool {kind:?} holds ({l},{s}), committed state is {:?}", pools[i]));
            }
        }
        if m.state().long_token_balance_raw() != long_balance || m.state().short_token_balance_raw() != short_balance {
            return Err(format!("{when}: stored balances differ from the committed state"));
        }
    }
    Ok(())
}

fn lcheck(c: &LCase, rec: &mut Rec) -> Result<(), String> {
    let mut vm = Svm::new();
    let k = rvfix::keys("c21l");
    svm::register_processor(k.driver, ldriver);
    svm::set_sysvars(Sysvars { unix_timestamp: T0, ..Default::default() });
    let market = crate::props::c17::new_market(&crate::props::c17::Case { pure_market: c.pure_market, enabled: true, seed: 22, now: T0 })?;
    let vault_amount = ((c.vault_share as u128 * (c.supply as u128 + 1)) >> 16) as u64;
    let ix = rvfix::install(&mut vm, &k, &market, c.supply, vault_amount)?;
    LCASE.with(|x| *x.borrow_mut() = Some(c.clone()));
    OUT.with(|o| *o.borrow_mut() = None);
    svm::keep_logs(true);
    let res = vm.process(&ix);
    let logs = svm::take_logs();
    svm::keep_logs(false);
    LCASE.with(|x| *x.borrow_mut() = None);
    let Some((r, out)) = OUT.with(|o| o.borrow_mut().take()) else {
        let tail: Vec<String> = logs.iter().rev().take(4).rev().cloned().collect();
        return Err(format!("driver did not finish: {res:?}; last logs: {tail:?}"));
    };
    for cl in &out.classes {
        rec.class(cl);
    }
    rec.nontrivial_if(out.nontrivial);
    r?;
    res.map_err(|e| format!("driver instruction failed after the interpreter finished: {e:?}"))
}

pub fn run_c21(ctx: &mut Ctx) {
    ctx.rule("cases = 1..9 operations on one market (pure or two-token), each 0..7 steps {read pool, write pool (kind, side, signed delta incl. out-of-range), read/advance-and-write clock (distribution, borrowing, funding), read other, write funding factor, record transfer in/out (incl. overflow/underflow)} ending in commit or abandon (50/50), 3/4 of pool steps on 3 hot kinds out of all 16 so that operations collide; driven through the real RevertibleMarket (gmsol-model trait methods) inside svm-lite; oracle = reference {committed cells + per-operation overlay}: every read (checked after every step) equals overlay-or-committed; while an operation is open and after an abandon all account bytes outside the buffer are unchanged and Market::pool/clock/state equal the committed model; after commit stored == committed U overlay, pools/clocks/other the operation did not open for writing are byte-identical, bytes outside state+buffer unchanged; revision increases by exactly 1 per operation; a final operation reads all 16 kinds, clocks, balances, funding and commits with no writes (must change nothing); non-trivial = a cell written by an abandoned operation is read again by a later one (directly or in the final sweep)");
    ctx.assume("RevertibleMarket is built through the verif hook without virtual inventories; the interpreter runs as a registered driver program in svm-lite so that the MarketStateUpdated CPI executes the real event entrypoint (payload content is not inspected: svm-lite records event payloads only for self-CPIs); byte ranges of state/buffer come from the SDK's declared layout (size equality asserted); next_trade_id, SwapMarkets, RevertiblePosition and virtual inventories are not driven here; RevertibleLiquidityMarket's deferred mint/burn is the separate 'liquidity' search");
    let n = ctx.cases(6_000, 300_000);
    ctx.search("operations", n, case, check);
    let l = ctx.cases(3_000, 150_000);
    ctx.search("liquidity", l, lcase, lcheck);
    ctx.floor("liquidity:commit_with_mint_or_burn", l / 4);
    ctx.floor("liquidity:abandon_with_mint_or_burn", l / 4);
    ctx.floor("liquidity:commit_with_mint_and_burn", l / 20);
    ctx.floor("liquidity:read_supply_after_abandoned_mint_or_burn", l / 20);
    ctx.floor("liquidity:mint_rejected", l / 10);
    ctx.floor("liquidity:burn_rejected", l / 20);
    ctx.floor("operations:read_pool_after_abandoned_write_of_same_kind", n / 10);
    ctx.floor("operations:write_pool_after_abandoned_write_of_same_kind", n / 10);
    ctx.floor("operations:read_clock_after_abandoned_clock_write", n / 50);
    ctx.floor("operations:read_other_after_abandoned_other_write", n / 50);
    ctx.floor("operations:repeated_abandon", n / 5);
    ctx.floor("operations:commit_without_writes", n / 10);
    ctx.floor("operations:commit_with_writes", n / 3);
    ctx.floor("operations:pure_market", n / 4);
}
