//! C04 A swap moves exactly the traded tokens and is all-or-nothing.
//! C05 A swap never pays out more value than it takes in, beyond capped impact.

use crate::engine::{Ctx, Rec};
use crate::mgen::*;
use crate::refmath::*;
use crate::vmarket::VPool;
use num_bigint::BigInt;
use num_traits::{Signed, Zero};

#[derive(Clone, PartialEq, Eq, Debug)]
struct Pools {
    primary: VPool<u128>,
    swap_impact: VPool<u128>,
    fee: VPool<u128>,
    vi_swaps: Option<VPool<u128>>,
    rest: String,
}

fn pools(m: &M) -> Pools {
    Pools {
        primary: m.primary,
        swap_impact: m.swap_impact,
        fee: m.fee,
        vi_swaps: m.vi_swaps,
        rest: format!(
            "{:?}|{:?}|{:?}|{:?}|{:?}|{:?}|{:?}|{:?}|{:?}|{:?}|{:?}|{}",
            m.open_interest, m.open_interest_in_tokens, m.position_impact, m.borrowing_factor,
            m.funding_factor_per_second, m.funding_amount_per_size, m.claimable_funding_amount_per_size,
            m.collateral_sum, m.total_borrowing, m.vi_positions, m.clocks, m.total_supply
        ),
    }
}

fn side(p: &VPool<u128>, long: bool) -> u128 {
    if long { p.long_amount } else { p.short_amount }
}

fn holdings(p: &Pools, long: bool) -> BigInt {
    b(side(&p.primary, long)) + b(side(&p.swap_impact, long)) + b(side(&p.fee, long))
}

pub fn check_history(h: &History, rec: &mut Rec, c05: bool) -> Result<(), String> {
    let mut w = World::start(h);
    let mut swaps_ok = 0;
    for (step, op) in h.ops.iter().enumerate() {
        let before = pools(&w.market);
        let prices = w.prices;
        let is_swap = matches!(op, Op::Swap { .. });
        let out = w.apply(op);
        if !is_swap {
            continue;
        }
        let Op::Swap { long_in, amount } = op else { unreachable!() };
        match out {
            Outcome::Swap(report) => {
                swaps_ok += 1;
                let after = pools(&w.market);
                let (pin, pout) = if *long_in { (prices.long, prices.short) } else { (prices.short, prices.long) };
                let out_amount = *report.token_out_amount();
                let impact = *report.price_impact();
                rec.class(if impact > 0 { "impact_positive" } else if impact < 0 { "impact_negative" } else { "impact_zero" });
                let d_in = holdings(&after, *long_in) - holdings(&before, *long_in);
                let d_out = holdings(&after, !*long_in) - holdings(&before, !*long_in);
                if !c05 {
                    // C04: exact movement of tokens.
                    if d_in != b(*amount) {
                        return Err(format!("step {step}: input-token holdings changed by {d_in}, swap input was {amount}"));
                    }
                    if d_out != -b(out_amount) {
                        return Err(format!("step {step}: output-token holdings changed by {d_out}, paid out {out_amount}"));
                    }
                    // fee accounting consistent with the pool deltas
                    let fees = report.token_in_fees();
                    let d_fee_in = b(side(&after.fee, *long_in)) - b(side(&before.fee, *long_in));
                    if d_fee_in != b(*fees.fee_amount_for_receiver()) {
                        return Err(format!("step {step}: claimable fee pool moved by {d_fee_in}, report says {}", fees.fee_amount_for_receiver()));
                    }
                    if side(&after.fee, !*long_in) != side(&before.fee, !*long_in) {
                        return Err(format!("step {step}: claimable fee of the output token changed"));
                    }
                    // impact pool: output side pays the positive impact amount, input side receives the negative one
                    let d_imp_out = b(side(&after.swap_impact, !*long_in)) - b(side(&before.swap_impact, !*long_in));
                    let d_imp_in = b(side(&after.swap_impact, *long_in)) - b(side(&before.swap_impact, *long_in));
                    if impact > 0 {
                        if d_imp_out != -b(*report.price_impact_amount()) {
                            return Err(format!("step {step}: positive impact: output-side impact pool moved {d_imp_out}, report amount {}", report.price_impact_amount()));
                        }
                        if d_imp_in.is_positive() {
                            return Err(format!("step {step}: positive impact increased the input-side impact pool"));
                        }
                        rec.class_if(!d_imp_in.is_zero(), "positive_capped");
                    } else {
                        if !d_imp_out.is_zero() {
                            return Err(format!("step {step}: non-positive impact touched the output-side impact pool"));
                        }
                        if d_imp_in != b(*report.price_impact_amount()) {
                            return Err(format!("step {step}: negative impact: input-side impact pool moved {d_imp_in}, report amount {}", report.price_impact_amount()));
                        }
                    }
                    if after.rest != before.rest {
                        return Err(format!("step {step}: a swap changed pools other than liquidity / swap impact / claimable fee / virtual inventory"));
                    }
                    if after.vi_swaps.is_some() != before.vi_swaps.is_some() {
                        return Err("virtual inventory appeared/disappeared".into());
                    }
                    if let (Some(a), Some(bf)) = (&after.vi_swaps, &before.vi_swaps) {
                        // virtual inventory moves exactly like the liquidity pool
                        for long in [true, false] {
                            let dl = b(side(&after.primary, long)) - b(side(&before.primary, long));
                            let dv = b(side(a, long)) - b(side(bf, long));
                            if dl != dv {
                                return Err(format!("step {step}: virtual inventory delta {dv} != liquidity delta {dl}"));
                            }
                        }
                        rec.class("with_virtual_inventory");
                    }
                    rec.nontrivial_if(impact != 0);
                } else {
                    // C05: value out <= value in + funded positive impact.
                    let d_imp_out = b(side(&before.swap_impact, !*long_in)) - b(side(&after.swap_impact, !*long_in));
                    let d_imp_in = b(side(&before.swap_impact, *long_in)) - b(side(&after.swap_impact, *long_in));
                    let funded = crate::refmath::max(d_imp_out.clone(), zero()) * b(pout.1)
                        + crate::refmath::max(d_imp_in.clone(), zero()) * b(pin.0);
                    let lhs = b(out_amount) * b(pout.1);
                    let rhs = b(*amount) * b(pin.0) + funded;
                    if lhs > rhs {
                        return Err(format!("step {step}: swap paid out value {lhs} > input value + funded impact {rhs}"));
                    }
                    let fees = report.token_in_fees();
                    let zero_fee = fees.fee_amount_for_pool().is_zero() && fees.fee_amount_for_receiver().is_zero();
                    if zero_fee && impact == 0 {
                        rec.class("zero_fee_zero_impact");
                        let exact = floor_div(&(b(*amount) * b(pin.0)), &b(pout.1));
                        if b(out_amount) != exact {
                            return Err(format!("step {step}: zero-fee zero-impact swap paid {out_amount}, expected floor(in*p_in.min/p_out.max) = {exact}"));
                        }
                    }
                    let spreadful = pin.0 != pin.1 || pout.0 != pout.1;
                    rec.class_if(spreadful, "spread");
                    rec.nontrivial_if(spreadful || impact != 0);
                }
            }
            Outcome::Failed { raw, error, .. } => {
                rec.class("swap_failed");
                rec.class_if(error.contains("reserve") || error.contains("pool amount") || error.contains("pnl") || error.contains("Pnl"), "failed_in_validation");
                if !c05 {
                    let after_raw = pools(&raw);
                    if after_raw != before {
                        return Err(format!("step {step}: failed swap ({error}) changed the market: before {before:?} after {after_raw:?}"));
                    }
                }
            }
            _ => {}
        }
    }
    rec.class_if(swaps_ok > 0, "has_successful_swap");
    Ok(())
}

fn swap_heavy(max_ops: usize) -> impl proptest::strategy::Strategy<Value = History> {
    use proptest::prelude::*;
    // a history whose tail is dominated by swaps in both directions
    (history_strategy(max_ops / 2), proptest::collection::vec((any::<bool>(), prop_oneof![4 => 1_000u128..=10u128.pow(11), 1 => 1u128..=1000, 1 => 10u128.pow(11)..=10u128.pow(14)]), 1..=max_ops / 2), 0u8..4, 0u128..=10u128.pow(10))
        .prop_map(|(mut h, swaps, tight, slack)| {
            if tight == 0 {
                // pool caps just above the seeded liquidity: swaps fail in `validate_pool_amount`,
                // i.e. after all new pool values were computed
                h.cfg.max_pool_amount = (h.seed_liquidity.0 + slack, h.seed_liquidity.1 + slack / 100);
            }
            for (long_in, amount) in swaps {
                let amount = if long_in { amount } else { amount / 10 + 1 };
                h.ops.push(Op::Swap { long_in, amount });
            }
            h
        })
}

pub fn run_c04(ctx: &mut Ctx) {
    ctx.rule("cases = generated market configuration (fees, impact factors/exponents, caps, reserve/pnl factors, max pool amounts, optional virtual inventory) + prices with spreads + a history of deposits/withdrawals/swaps/position ops ending in a run of swaps; oracle = per-swap ledger over liquidity+impact+claimable pools (exact equality), byte-equality of all pools after a failed swap (checked before the interpreter restores its snapshot); non-trivial = successful swap with non-zero price impact");
    let n = ctx.cases(40_000, 2_000_000);
    ctx.search("swap_ledger", n, || swap_heavy(16), |h, rec| check_history(h, rec, false));
    ctx.floor("swap_ledger:impact_positive", 50);
    ctx.floor("swap_ledger:impact_negative", 50);
    ctx.floor("swap_ledger:swap_failed", 50);
    ctx.floor("swap_ledger:failed_in_validation", 50);
}

pub fn run_c05(ctx: &mut Ctx) {
    ctx.rule("cases = same generator as C04; oracle = BigInt inequality out*p_out.max <= in*p_in.min + (impact-pool decrease valued at max/min price), and exact floor conversion when fees and impact are zero; non-trivial = spread on a token or non-zero impact");
    let n = ctx.cases(40_000, 2_000_000);
    ctx.search("swap_value", n, || swap_heavy(16), |h, rec| check_history(h, rec, true));
    ctx.floor("swap_value:spread", 50);
}
