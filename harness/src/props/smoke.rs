//! Smoke test of svm-lite (not a property check).
use crate::engine::Ctx;
use crate::svm::*;
use anchor_lang::solana_program::{instruction::Instruction, pubkey::Pubkey, system_program};
use anchor_lang::{InstructionData, ToAccountMetas};

pub fn run(_ctx: &mut Ctx) {
    let mut svm = Svm::new();
    keep_logs(true);
    let payer = key_of("payer");
    svm.fund(payer, 1_000_000_000_000);
    let (store, _) = Pubkey::find_program_address(&[b"data_store", &gmsol_utils::to_seed("")], &gmsol_store::ID);
    let ix = Instruction {
        program_id: gmsol_store::ID,
        accounts: gmsol_store::accounts::Initialize {
            payer,
            authority: None,
            receiver: None,
            holding: None,
            store,
            system_program: system_program::ID,
        }
        .to_account_metas(None),
        data: gmsol_store::instruction::Initialize { key: String::new() }.data(),
    };
    let r = svm.process(&ix);
    crate::engine::out(&format!("initialize: {r:?}; store len = {}", svm.data(&store).len()));
    let stranger = key_of("stranger");
    svm.fund(stranger, 1_000_000);
    for (who, name) in [(stranger, "stranger"), (payer, "admin")] {
        let ix = Instruction {
            program_id: gmsol_store::ID,
            accounts: gmsol_store::accounts::EnableRole { authority: who, store }.to_account_metas(None),
            data: gmsol_store::instruction::EnableRole { role: "MARKET_KEEPER".into() }.data(),
        };
        let before = svm.accounts.clone();
        let r = svm.process(&ix);
        crate::engine::out(&format!("enable_role by {name}: {r:?} unchanged={}", before == svm.accounts));
    }
    let st: gmsol_store::states::Store = read_zero_copy(svm.data(&store)).unwrap();
    crate::engine::out(&format!("roles = {}", st.role().num_roles()));
    for l in take_logs().iter().take(20) { crate::engine::out(&format!("  log: {l}")); }
}
