//! C32 Builder fees are bounded by what the order actually produced (helper-level part).

use crate::engine::{no_panic, Ctx, Rec};
use crate::gens::*;
use crate::refmath::*;
use gmsol_model::action::decrease_position::DecreasePositionSwapType;
use gmsol_model::price::Price;
use gmsol_store::ops::order::verif as hook;
use proptest::prelude::*;
use serde::{Deserialize, Serialize};

const UNIT: u128 = 100_000_000_000_000_000_000;

#[derive(Debug, Clone, Serialize, Deserialize)]
pub struct Case {
    pub size: u128,
    pub factor: u128,
    pub price_min: u128,
    pub spread: u128,
    pub increment: u64,
    pub available: u128,
    pub withdrawal: u128,
    pub swap: u8,
}

fn case() -> impl Strategy<Value = Case> {
    (
        prop_oneof![4 => 0u128..=(10_000_000 * UNIT), 1 => u128_mix()],
        prop_oneof![1 => Just(0u128), 4 => 0u128..=(UNIT / 100), 1 => 0u128..=UNIT, 1 => u128_mix()],
        prop_oneof![1 => Just(1u128), 4 => 1u128..=10u128.pow(16), 1 => Just(0u128)],
        0u128..=10u128.pow(12),
        prop_oneof![3 => 0u64..=10u64.pow(12), 1 => any::<u64>(), 1 => 0u64..=10],
        prop_oneof![3 => 0u128..=10u128.pow(12), 1 => u128_mix()],
        prop_oneof![3 => 0u128..=10u128.pow(12), 1 => u128_mix()],
        0u8..3,
    )
        .prop_map(|(size, factor, price_min, spread, increment, available, withdrawal, swap)| Case { size, factor, price_min, spread, increment, available, withdrawal, swap })
}

fn check(c: &Case, rec: &mut Rec) -> Result<(), String> {
    let price = Price { min: c.price_min, max: c.price_min.saturating_add(c.spread) };
    let value = floor_div(&(b(c.size) * b(c.factor)), &b(UNIT));
    let exact = if c.factor == 0 {
        Some(zero())
    } else if c.price_min == 0 || value > b(u128::MAX) || &value + b(c.price_min) > b(u128::MAX) {
        None
    } else {
        Some(ceil_div(&value, &b(c.price_min)))
    };
    let got = no_panic(|| hook::compute_builder_fee_amount(c.size, c.factor, &price)).map_err(|p| format!("compute panicked: {p}"))?;
    match (&got, &exact) {
        (Ok(g), Some(e)) if b(*g) == *e => {}
        (Err(_), None) => rec.class("compute_rejected"),
        (Ok(g), Some(e)) => return Err(format!("builder fee {g} != ceil(floor(size*factor)/price.min) = {e}")),
        (Ok(g), None) => return Err(format!("builder fee {g} computed where failure is required (zero price / overflow)")),
        (Err(e), Some(x)) => return Err(format!("builder fee failed ({e}) although the exact amount {x} is representable")),
    }
    let fee = exact.clone();
    rec.class_if(fee.as_ref().map(|f| !num_traits::Zero::is_zero(f)).unwrap_or(false), "fee_positive");
    // increase: fee + remaining increment == original increment, or the order fails
    let inc = no_panic(|| hook::charge_builder_fee_on_collateral_increment(c.increment, c.size, c.factor, &price)).map_err(|p| format!("charge panicked: {p}"))?;
    match (&inc, &fee) {
        (Ok((after, paid)), Some(f)) => {
            if b(*paid) != *f {
                return Err(format!("charged {paid}, fee is {f}"));
            }
            if *after as u128 + *paid as u128 != c.increment as u128 {
                return Err(format!("increase: remaining {after} + fee {paid} != increment {}", c.increment));
            }
            rec.class_if(*paid > 0, "increase_charged");
        }
        (Ok(_), None) => return Err("increase charged although the fee cannot be computed".into()),
        (Err(_), Some(f)) => {
            if *f <= b(c.increment) {
                return Err(format!("increase rejected although fee {f} <= increment {}", c.increment));
            }
            rec.class("increase_rejected_fee_exceeds_collateral");
        }
        (Err(_), None) => {}
    }
    // decrease: the recorded (clamped) fee never exceeds what is available
    if let Some(f) = &fee {
        if let Some(f128) = num_traits::ToPrimitive::to_u128(f) {
            let clamped = hook::clamp_builder_fee_amount(f128, c.available);
            if clamped > c.available || clamped > f128 || (clamped != f128 && clamped != c.available) {
                return Err(format!("clamp({f128}, {}) = {clamped}", c.available));
            }
            rec.class_if(clamped < f128, "clamped");
        }
    }
    // withdrawal estimate: withdrawal + fee, swap to pnl token forbidden with a non-zero factor
    let swap = match c.swap {
        0 => DecreasePositionSwapType::NoSwap,
        1 => DecreasePositionSwapType::PnlTokenToCollateralToken,
        _ => DecreasePositionSwapType::CollateralToPnlToken,
    };
    let est = no_panic(|| hook::estimate_builder_fee_for_collateral_withdrawal(c.withdrawal, c.size, c.factor, &price, swap)).map_err(|p| format!("estimate panicked: {p}"))?;
    match est {
        Ok(total) => {
            if c.factor == 0 {
                if total != c.withdrawal {
                    return Err("zero factor changed the withdrawal amount".into());
                }
            } else {
                if c.swap == 2 {
                    return Err("collateral-to-pnl-token swap accepted with a non-zero builder fee factor".into());
                }
                match &fee {
                    Some(f) if b(total) == b(c.withdrawal) + f => {}
                    _ => return Err(format!("withdrawal estimate {total} != withdrawal {} + fee {fee:?}", c.withdrawal)),
                }
            }
        }
        Err(_) => {
            let fits = fee.as_ref().map(|f| b(c.withdrawal) + f <= b(u128::MAX)).unwrap_or(false);
            if c.factor == 0 || (c.swap != 2 && fits) {
                return Err("withdrawal estimate failed although it is computable".into());
            }
        }
    }
    rec.nontrivial_if(c.factor != 0 && c.price_min != 0);
    Ok(())
}

pub fn run(ctx: &mut Ctx) {
    ctx.rule("cases = executed size, builder factor (0, <= 1 %, <= 100 %, mixture), collateral price (min = 1, zero, spread), collateral increment, available output, withdrawal amount, decrease swap type; oracle (BigInt) = fee == ceil(floor(size*factor/UNIT)/price.min) or failure exactly when the price is zero / the value overflows; increase: remaining + fee == increment, rejected iff fee > increment; clamp == min(fee, available); withdrawal estimate == withdrawal + fee, zero factor is the identity, collateral->pnl-token swap rejected with a non-zero factor; non-trivial = non-zero factor and price");
    ctx.assume("fee arithmetic is checked at helper level (ops::order::verif hooks); the settlement clause is the search `settlement`, executed through the real settle_builder_fee instruction in the svm-lite exchange world");
    let n = ctx.cases(200_000, 10_000_000);
    ctx.search("builder_fee", n, case, check);
    ctx.floor("builder_fee:fee_positive", 20_000);
    ctx.floor("builder_fee:increase_charged", 5_000);
    ctx.floor("builder_fee:increase_rejected_fee_exceeds_collateral", 2_000);
    ctx.floor("builder_fee:clamped", 2_000);
}
