//! C21 (virtual inventories) Uncommitted market operations never leak into stored state.
//!
//! `revertible.rs` drives `RevertibleMarket` without virtual inventories. Here the markets are
//! attached to shared `VirtualInventory` accounts, so that the single-pool revertible buffer inside
//! each `VirtualInventory` account (`RevertiblePoolBuffer`) is exercised as well.
//!
//! World: `World1` (store, token map, markets A and B sharing the long/short tokens, all built with
//! real instructions) plus a single-token market C on A's index token, one virtual inventory for
//! swaps (joined by A and B) and two virtual inventories for positions (index token of A: joined by A
//! and C; index token of B: joined by B). All creations / joins / leaves / disables are the real
//! instructions. Each generated operation runs as one invocation of a harness-defined driver program
//! inside svm-lite (see `rvfix.rs` for why), through the hooks
//! `gmsol_store::verif::{load_revertible_virtual_inventories,
//! new_revertible_market_with_virtual_inventories, commit_revertible_virtual_inventories}`.

use crate::engine::{Ctx, Rec};
use crate::props::rvfix;
use crate::svm::{self, Acct, Svm, Sysvars};
use crate::world1::World1;
use anchor_lang::prelude::{AccountInfo, AccountLoader};
use anchor_lang::solana_program::{
    entrypoint::ProgramResult,
    instruction::{AccountMeta, Instruction},
    program_error::ProgramError,
    pubkey::Pubkey,
};
use anchor_lang::AnchorSerialize;
use gmsol_model::{BaseMarket, BaseMarketMut, BaseMarketMutExt, PerpMarketMut, PerpMarketMutExt, Pool as _, PoolKind};
use gmsol_programs::gmsol_store::{accounts::Market as SdkMarket, accounts::VirtualInventory as SdkVi, types as sdk};
use gmsol_store::states::market::revertible::{market::RevertibleMarket, Revertible};
use gmsol_store::states::{market::pool::Pool, Market};
use gmsol_utils::role::RoleKey;
use proptest::prelude::*;
use serde::{Deserialize, Serialize};
use std::cell::RefCell;
use std::mem::{offset_of, size_of};

// ---------------------------------------------------------------------------------------------
// Case
// ---------------------------------------------------------------------------------------------

/// Markets: 0 = A (two tokens, index a), 1 = B (same two tokens, index b), 2 = C (single token, index a).
const NM: usize = 3;
/// Virtual inventories: 0 = for swaps (A, B), 1 = for positions of index a (A, C), 2 = for positions of index b (B).
const NV: usize = 3;
const VS: usize = 0;

fn positions_vi_of(m: usize) -> usize {
    if m == 1 {
        2
    } else {
        1
    }
}

#[derive(Debug, Clone, Serialize, Deserialize)]
pub enum Admin {
    /// Join the virtual inventory for swaps if the market (0 or 1) is detached, leave it otherwise.
    ToggleSwaps { m: u8 },
    /// Same for the virtual inventory for positions of the market (0..3).
    TogglePositions { m: u8 },
    Disable { vi: u8 },
}

#[derive(Debug, Clone, Copy, PartialEq, Eq, Serialize, Deserialize)]
pub enum Mode {
    /// Exactly the inventories the opened markets are attached to (what clients pass).
    Needed,
    /// All three inventory accounts (unrelated ones included).
    All,
    /// `RevertibleMarket::new(.., None, ..)` (what the transfer-in / transfer-out operations do).
    NoneGiven,
    /// One needed inventory is left out.
    Missing,
}

/// A signed delta, constructed against the amount it is applied to.
#[derive(Debug, Clone, Copy, Serialize, Deserialize)]
pub enum Delta {
    Add(u64),
    /// Remove a 16-bit fraction of the current amount (never out of range for the written pool itself).
    Take(u16),
    Raw(i128),
}

impl Delta {
    fn resolve(self, current: u128) -> i128 {
        match self {
            Delta::Add(a) => a as i128,
            Delta::Take(f) => {
                let c = current.min(i128::MAX as u128);
                -(((c >> 16) * f as u128 + (((c & 0xffff) * f as u128) >> 16)) as i128)
            }
            Delta::Raw(d) => d,
        }
    }
}

#[derive(Debug, Clone, Serialize, Deserialize)]
pub enum Step {
    /// `apply_delta` on the liquidity pool (mirrored into the inventory for swaps).
    ApplyDelta { second: bool, long: bool, delta: Delta },
    /// `apply_delta_to_open_interest` (mirrored into the inventory for positions).
    ApplyOi { second: bool, is_long: bool, long_collateral: bool, delta: Delta },
    /// Write the inventory pool through `virtual_inventory_for_*_pool_mut` (what the swap action does).
    WriteVi { second: bool, positions: bool, long: bool, delta: Delta },
    ReadVi { second: bool, positions: bool },
    ReadPools { second: bool },
}

#[derive(Debug, Clone, Serialize, Deserialize)]
pub struct Tx {
    /// Administrative instructions executed before this operation.
    pub admin: Vec<Admin>,
    pub mode: Mode,
    pub first: u8,
    /// A second market opened in the same operation (offset 1 or 2 from the first).
    pub second: Option<u8>,
    /// Which needed inventory `Mode::Missing` leaves out.
    pub drop: u8,
    pub steps: Vec<Step>,
    pub commit: bool,
}

#[derive(Debug, Clone, Serialize, Deserialize)]
pub struct Case {
    /// Initially attached: A-swaps, B-swaps, A-positions, B-positions, C-positions.
    pub initial: [bool; 5],
    pub txs: Vec<Tx>,
}

fn delta() -> impl Strategy<Value = Delta> {
    prop_oneof![
        14 => (1u64..=1_000_000_000_000_000).prop_map(Delta::Add),
        8 => any::<u16>().prop_map(Delta::Take),
        1 => prop_oneof![
            2 => (1i128..=(1i128 << 90)).prop_map(Delta::Raw),
            2 => (-(1i128 << 90)..=-1i128).prop_map(Delta::Raw),
            1 => Just(Delta::Raw(0)),
            1 => Just(Delta::Raw(i128::MAX)),
            1 => Just(Delta::Raw(i128::MIN)),
        ],
    ]
}

fn step() -> impl Strategy<Value = Step> {
    prop_oneof![
        8 => (any::<bool>(), any::<bool>(), delta()).prop_map(|(second, long, delta)| Step::ApplyDelta { second, long, delta }),
        6 => (any::<bool>(), any::<bool>(), any::<bool>(), delta()).prop_map(|(second, is_long, long_collateral, delta)| Step::ApplyOi { second, is_long, long_collateral, delta }),
        3 => (any::<bool>(), any::<bool>(), any::<bool>(), delta()).prop_map(|(second, positions, long, delta)| Step::WriteVi { second, positions, long, delta }),
        4 => (any::<bool>(), any::<bool>()).prop_map(|(second, positions)| Step::ReadVi { second, positions }),
        2 => any::<bool>().prop_map(|second| Step::ReadPools { second }),
    ]
}

fn admin() -> impl Strategy<Value = Admin> {
    prop_oneof![
        6 => (0u8..2).prop_map(|m| Admin::ToggleSwaps { m }),
        6 => (0u8..3).prop_map(|m| Admin::TogglePositions { m }),
        1 => (0u8..3).prop_map(|vi| Admin::Disable { vi }),
    ]
}

fn tx() -> impl Strategy<Value = Tx> {
    (
        prop_oneof![4 => Just(vec![]), 3 => proptest::collection::vec(admin(), 1..3)],
        prop_oneof![12 => Just(Mode::Needed), 4 => Just(Mode::All), 2 => Just(Mode::NoneGiven), 1 => Just(Mode::Missing)],
        // A and B (the markets sharing the inventory for swaps) twice as often as C
        prop_oneof![2 => Just(0u8), 2 => Just(1u8), 1 => Just(2u8)],
        prop_oneof![1 => Just(None), 1 => (1u8..3).prop_map(Some)],
        any::<u8>(),
        proptest::collection::vec(step(), 0..7),
        any::<bool>(),
    )
        .prop_map(|(admin, mode, first, second, drop, steps, commit)| Tx { admin, mode, first, second, drop, steps, commit })
}

fn case() -> impl Strategy<Value = Case> {
    let on = || prop_oneof![2 => Just(true), 1 => Just(false)];
    ([on(), on(), on(), on(), on()], proptest::collection::vec(tx(), 1..9)).prop_map(|(initial, txs)| Case { initial, txs })
}

// ---------------------------------------------------------------------------------------------
// Reference model
// ---------------------------------------------------------------------------------------------

type Amounts = (u128, u128);

#[derive(Debug, Clone, Default)]
struct ViModel {
    committed: Amounts,
    ref_count: u32,
    disabled: bool,
    /// Written by an operation that was abandoned, and not rewritten by a committed one since
    /// (`Some(market that wrote)`).
    abandoned_by: Option<usize>,
    joined_since_last_op: bool,
    /// ... and the join or leave changed the stored amounts
    changed_by_join_or_leave_since_last_op: bool,
    left_since_last_op: bool,
}

#[derive(Debug, Clone, Default)]
struct MktModel {
    pure_market: bool,
    swaps: bool,
    positions: bool,
    primary: Amounts,
    /// open interest for long, for short
    oi: [Amounts; 2],
}

#[derive(Debug, Clone, Default)]
struct Model {
    vis: [ViModel; NV],
    mkts: [MktModel; NM],
    max_open_interest: [u128; 2],
    consecutive_abandons_with_vi_write: u32,
}

/// Apply a signed delta to one side of a pool (a single-token pool keeps everything in the long field).
fn apply(p: Amounts, pure_pool: bool, long: bool, delta: i128) -> Option<Amounts> {
    if long || pure_pool {
        Some((p.0.checked_add_signed(delta)?, p.1))
    } else {
        Some((p.0, p.1.checked_add_signed(delta)?))
    }
}

/// Amounts a reader sees (documented on `Pool`).
fn visible(pure_pool: bool, p: Amounts) -> Amounts {
    if pure_pool {
        (p.0.div_ceil(2), p.0 / 2)
    } else {
        p
    }
}

fn cancel(p: Amounts) -> Amounts {
    if p.0 >= p.1 {
        (p.0 - p.1, 0)
    } else {
        (0, p.1 - p.0)
    }
}

fn signed(x: u128) -> Option<i128> {
    i128::try_from(x).ok()
}

impl Model {
    /// What `join_virtual_inventory_for_swaps` adds / `leave_..` removes: the visible liquidity pool amounts.
    fn swaps_contribution(&self, m: usize) -> Amounts {
        visible(self.mkts[m].pure_market, self.mkts[m].primary)
    }
    /// Net open interest of the market: (total long, total short) with the common part cancelled.
    fn positions_contribution(&self, m: usize) -> Option<Amounts> {
        let mk = &self.mkts[m];
        let total = |p: Amounts| {
            let v = visible(mk.pure_market, p);
            v.0.checked_add(v.1)
        };
        Some(cancel((total(mk.oi[0])?, total(mk.oi[1])?)))
    }
}

// ---------------------------------------------------------------------------------------------
// Layout (from the SDK's declared layout of the same accounts; C40 checks its agreement with the program)
// ---------------------------------------------------------------------------------------------

const M_OFF_STATE: usize = offset_of!(SdkMarket, state);
const M_OFF_BUFFER: usize = offset_of!(SdkMarket, buffer);
const M_LEN_BUFFER: usize = size_of::<sdk::RevertibleBuffer>();
const LEN_POOL: usize = size_of::<sdk::PoolStorage>();
const V_OFF_POOL: usize = offset_of!(SdkVi, pool);
const V_OFF_BUFFER: usize = offset_of!(SdkVi, buffer);
const V_LEN_BUFFER: usize = size_of::<sdk::RevertiblePoolBuffer>();
const V_OFF_REF_COUNT: usize = offset_of!(SdkVi, ref_count);
const V_OFF_FLAGS: usize = offset_of!(SdkVi, flags);
const P_OFF_PURE: usize = offset_of!(sdk::PoolStorage, pool) + offset_of!(sdk::Pool, is_pure);
const P_OFF_LONG: usize = offset_of!(sdk::PoolStorage, pool) + offset_of!(sdk::Pool, long_token_amount);
const P_OFF_SHORT: usize = offset_of!(sdk::PoolStorage, pool) + offset_of!(sdk::Pool, short_token_amount);

const MKINDS: [PoolKind; 3] = [PoolKind::Primary, PoolKind::OpenInterestForLong, PoolKind::OpenInterestForShort];

fn market_pool_offset(i: usize) -> usize {
    let within = match i {
        0 => offset_of!(sdk::Pools, primary),
        1 => offset_of!(sdk::Pools, open_interest_for_long),
        _ => offset_of!(sdk::Pools, open_interest_for_short),
    };
    M_OFF_STATE + offset_of!(sdk::State, pools) + within
}

fn u128_at(b: &[u8], off: usize) -> u128 {
    u128::from_le_bytes(b[off..off + 16].try_into().unwrap())
}

fn u64_at(b: &[u8], off: usize) -> u64 {
    u64::from_le_bytes(b[off..off + 8].try_into().unwrap())
}

/// (revision of the buffer, stored pool is pure, stored amounts, ref count, flags byte) of a
/// `VirtualInventory` account body.
struct ViView {
    buffer_rev: u64,
    stored_pure: bool,
    stored: Amounts,
    ref_count: u32,
    flags: u8,
}

fn vi_view(body: &[u8]) -> ViView {
    ViView {
        buffer_rev: u64_at(body, V_OFF_BUFFER),
        stored_pure: body[V_OFF_POOL + P_OFF_PURE] != 0,
        stored: (u128_at(body, V_OFF_POOL + P_OFF_LONG), u128_at(body, V_OFF_POOL + P_OFF_SHORT)),
        ref_count: u32::from_le_bytes(body[V_OFF_REF_COUNT..V_OFF_REF_COUNT + 4].try_into().unwrap()),
        flags: body[V_OFF_FLAGS],
    }
}

fn outside(bytes: &[u8], holes: &[(usize, usize)]) -> Vec<u8> {
    let mut v = bytes.to_vec();
    for (off, len) in holes {
        v[*off..*off + *len].fill(0);
    }
    v
}

/// (is_pure, raw long field, raw short field) of a pool, through its borsh encoding.
fn raw(pool: &Pool) -> Result<(bool, u128, u128), String> {
    let bytes = pool.try_to_vec().map_err(|e| e.to_string())?;
    if bytes.len() != 48 {
        return Err(format!("pool encodes to {} bytes", bytes.len()));
    }
    Ok((bytes[0] != 0, u128_at(&bytes, 16), u128_at(&bytes, 32)))
}

// ---------------------------------------------------------------------------------------------
// Interpreter of one operation (runs inside svm-lite as the driver program)
// ---------------------------------------------------------------------------------------------

#[derive(Default)]
struct Outcome {
    classes: Vec<&'static str>,
    nontrivial: bool,
    /// The driver fails the instruction (what the real instruction does when the constructor fails).
    rolled_back: bool,
}

impl Outcome {
    fn class(&mut self, c: &'static str) {
        if !self.classes.contains(&c) {
            self.classes.push(c);
        }
    }
}

struct Job {
    tx: Tx,
    model: Model,
}

thread_local! {
    static JOB: RefCell<Option<Job>> = const { RefCell::new(None) };
    static OUT: RefCell<Option<(Result<(), String>, Model, Outcome)>> = const { RefCell::new(None) };
    static WORLD: RefCell<Option<Setup>> = const { RefCell::new(None) };
}

fn driver_id() -> Pubkey {
    svm::key_of("c21vi-driver-program")
}

fn driver(_pid: &Pubkey, accounts: &[AccountInfo<'static>], _data: &[u8]) -> ProgramResult {
    let Job { tx, mut model } = JOB.with(|j| j.borrow_mut().take()).ok_or(ProgramError::InvalidInstructionData)?;
    let mut out = Outcome::default();
    let r = interpret(&tx, &mut model, accounts, &mut out);
    let rolled_back = out.rolled_back;
    OUT.with(|o| *o.borrow_mut() = Some((r, model, out)));
    if rolled_back {
        return Err(ProgramError::Custom(0xc21));
    }
    Ok(())
}

fn body_of(info: &AccountInfo<'static>) -> Result<Vec<u8>, String> {
    let d = info.try_borrow_data().map_err(|e| format!("account {} is still borrowed: {e}", info.key))?;
    Ok(d[8..].to_vec())
}

/// The view an open operation has: own overlay or the committed state.
struct Overlay {
    vis: [Option<Amounts>; NV],
    primary: [Option<Amounts>; NM],
    oi: [[Option<Amounts>; 2]; NM],
}

struct View<'m> {
    model: &'m Model,
    ov: Overlay,
    /// Effective inventory for swaps / for positions of each opened market in this operation.
    eff_swaps: [bool; NM],
    eff_positions: [bool; NM],
}

impl View<'_> {
    fn vi(&self, v: usize) -> Amounts {
        self.ov.vis[v].unwrap_or(self.model.vis[v].committed)
    }
    fn primary(&self, m: usize) -> Amounts {
        self.ov.primary[m].unwrap_or(self.model.mkts[m].primary)
    }
    fn oi(&self, m: usize, i: usize) -> Amounts {
        self.ov.oi[m][i].unwrap_or(self.model.mkts[m].oi[i])
    }
}

/// Everything the open markets can read, compared with overlay-or-committed.
fn observe(rms: &[(usize, RevertibleMarket<'_, 'static>)], view: &View<'_>, when: &str) -> Result<(), String> {
    for (m, rm) in rms {
        let m = *m;
        let pure_market = view.model.mkts[m].pure_market;
        let got = raw(rm.liquidity_pool().map_err(|e| format!("{when}: {e}"))?)?;
        let want = view.primary(m);
        if got != (pure_market, want.0, want.1) {
            return Err(format!("{when}: market #{m} reads liquidity pool {got:?}, the operation's view is {want:?}"));
        }
        for (i, is_long) in [true, false].into_iter().enumerate() {
            let got = raw(rm.open_interest_pool(is_long).map_err(|e| format!("{when}: {e}"))?)?;
            let want = view.oi(m, i);
            if got != (pure_market, want.0, want.1) {
                return Err(format!("{when}: market #{m} reads open interest (long={is_long}) {got:?}, the operation's view is {want:?}"));
            }
        }
        for positions in [false, true] {
            let (eff, v) = if positions { (view.eff_positions[m], positions_vi_of(m)) } else { (view.eff_swaps[m], VS) };
            let what = if positions { "positions" } else { "swaps" };
            let got = {
                if positions {
                    let p = rm.virtual_inventory_for_positions_pool().map_err(|e| format!("{when}: market #{m} inventory for positions: {e}"))?;
                    p.map(|p| raw(&*p)).transpose()?
                } else {
                    let p = rm.virtual_inventory_for_swaps_pool().map_err(|e| format!("{when}: market #{m} inventory for swaps: {e}"))?;
                    p.map(|p| raw(&*p)).transpose()?
                }
            };
            match (got, eff) {
                (None, false) => {}
                (Some(g), true) => {
                    let want = view.vi(v);
                    if g != (false, want.0, want.1) {
                        return Err(format!(
                            "{when}: market #{m} reads the virtual inventory for {what} as ({},{}), the operation's view is {want:?} (committed {:?}, written in this operation: {}, last write abandoned: {})",
                            g.1,
                            g.2,
                            view.model.vis[v].committed,
                            view.ov.vis[v].is_some(),
                            view.model.vis[v].abandoned_by.is_some()
                        ));
                    }
                }
                (Some(_), false) => return Err(format!("{when}: market #{m} sees a virtual inventory for {what} although none is in effect")),
                (None, true) => return Err(format!("{when}: market #{m} sees no virtual inventory for {what} although it is attached, enabled and provided")),
            }
        }
    }
    Ok(())
}

/// Nothing reaches stored state while the operation is open.
fn stored_unchanged(rms: &[(usize, RevertibleMarket<'_, 'static>)], vi_infos: &[AccountInfo<'static>], pre_m: &[Vec<u8>], pre_v: &[Vec<u8>], when: &str) -> Result<(), String> {
    for (m, rm) in rms {
        let mk: &Market = rm.as_ref();
        if outside(bytemuck::bytes_of(mk), &[(M_OFF_BUFFER, M_LEN_BUFFER)]) != outside(&pre_m[*m], &[(M_OFF_BUFFER, M_LEN_BUFFER)]) {
            return Err(format!("{when}: bytes of market #{m} outside its revertible buffer changed before commit"));
        }
    }
    for (v, info) in vi_infos.iter().enumerate() {
        if outside(&body_of(info)?, &[(V_OFF_BUFFER, V_LEN_BUFFER)]) != outside(&pre_v[v], &[(V_OFF_BUFFER, V_LEN_BUFFER)]) {
            return Err(format!("{when}: bytes of virtual inventory #{v} outside its revertible buffer changed before commit"));
        }
    }
    Ok(())
}

fn interpret(tx: &Tx, model: &mut Model, accounts: &[AccountInfo<'static>], out: &mut Outcome) -> Result<(), String> {
    if accounts.len() != NM + NV + 1 {
        return Err("driver expects 3 markets, 3 virtual inventories and the event authority".into());
    }
    let market_infos: Vec<Box<AccountInfo<'static>>> = (0..NM).map(|i| Box::new(rvfix::as_store_owned(&accounts[i]))).collect();
    let vi_infos: Vec<AccountInfo<'static>> = (0..NV).map(|i| rvfix::as_store_owned(&accounts[NM + i])).collect();
    // SAFETY: everything derived from these references is dropped before this function returns; the
    // referents live in svm-lite's account block for the whole instruction.
    let event_ref: &'static AccountInfo<'static> = unsafe { rvfix::forever(&accounts[NM + NV]) };
    let (_, bump) = Pubkey::find_program_address(&[b"__event_authority"], &gmsol_store::ID);
    let mut loaders: Vec<AccountLoader<'static, Market>> = vec![];
    for info in &market_infos {
        let r: &'static AccountInfo<'static> = unsafe { rvfix::forever(info) };
        loaders.push(AccountLoader::try_from(r).map_err(|e| format!("market loader: {e}"))?);
    }

    let first = tx.first as usize % NM;
    let mut open = vec![first];
    if let Some(off) = tx.second {
        open.push((first + 1 + (off as usize + 1) % 2) % NM); // offset 1 or 2: always another market
    }
    let mut needed: Vec<usize> = vec![];
    for &m in &open {
        if model.mkts[m].swaps && !needed.contains(&VS) {
            needed.push(VS);
        }
        if model.mkts[m].positions && !needed.contains(&positions_vi_of(m)) {
            needed.push(positions_vi_of(m));
        }
    }
    needed.sort();
    let mode = if tx.mode == Mode::Missing && needed.is_empty() { Mode::Needed } else { tx.mode };
    let passed: Vec<usize> = match mode {
        Mode::Needed => needed.clone(),
        Mode::All => (0..NV).collect(),
        Mode::NoneGiven => vec![],
        Mode::Missing => {
            let d = needed[tx.drop as usize % needed.len()];
            needed.iter().copied().filter(|v| *v != d).collect()
        }
    };
    let given = mode != Mode::NoneGiven;

    let pre_m: Vec<Vec<u8>> = market_infos.iter().map(|i| body_of(i)).collect::<Result<_, _>>()?;
    let pre_v: Vec<Vec<u8>> = vi_infos.iter().map(body_of).collect::<Result<_, _>>()?;
    for v in 0..NV {
        let s = vi_view(&pre_v[v]);
        if s.stored != model.vis[v].committed || s.ref_count != model.vis[v].ref_count || (s.flags != 0) != model.vis[v].disabled || s.stored_pure {
            return Err(format!("before the operation: virtual inventory #{v} stores {:?} (ref count {}, flags {}), the committed state is {:?}", s.stored, s.ref_count, s.flags, model.vis[v]));
        }
    }

    // ---- begin ----
    let passed_infos: Vec<AccountInfo<'static>> = passed.iter().map(|v| vi_infos[*v].clone()).collect();
    let passed_slice: &'static [AccountInfo<'static>] = unsafe { std::mem::transmute(&passed_infos[..]) };
    let first_token = loaders[first].load().map_err(|e| e.to_string())?.meta().market_token_mint;
    let handle = if given { Some(gmsol_store::verif::load_revertible_virtual_inventories(passed_slice, first_token).map_err(|e| format!("loading the virtual inventories: {e}"))?) } else { None };
    for v in 0..NV {
        let now = body_of(&vi_infos[v])?;
        if given && passed.contains(&v) {
            let (a, b) = (vi_view(&pre_v[v]).buffer_rev, vi_view(&now).buffer_rev);
            if b != a + 1 {
                return Err(format!("begin: the revision of virtual inventory #{v} went from {a} to {b}"));
            }
        } else if now != pre_v[v] {
            return Err(format!("begin: virtual inventory #{v} was not given to the operation but its bytes changed"));
        }
    }

    let mut rms: Vec<(usize, RevertibleMarket<'_, 'static>)> = vec![];
    let mut view = View {
        model: &*model,
        ov: Overlay { vis: [None; NV], primary: [None; NM], oi: [[None; 2]; NM] },
        eff_swaps: [false; NM],
        eff_positions: [false; NM],
    };
    let committed: &Model = view.model;
    for &m in &open {
        let mk = &committed.mkts[m];
        let missing = given && ((mk.swaps && !passed.contains(&VS)) || (mk.positions && !passed.contains(&positions_vi_of(m))));
        let res = match &handle {
            Some(h) => gmsol_store::verif::new_revertible_market_with_virtual_inventories(&loaders[m], h, event_ref, bump),
            None => gmsol_store::verif::new_revertible_market(&loaders[m], event_ref, bump),
        };
        match (res, missing) {
            (Ok(rm), false) => rms.push((m, rm)),
            (Err(_), true) => {
                out.class("missing_inventory_rejected");
                out.rolled_back = true;
                return Ok(());
            }
            (Ok(_), true) => return Err(format!("begin: market #{m} opened although an attached virtual inventory was not provided")),
            (Err(e), false) => return Err(format!("begin: market #{m}: {e}")),
        }
        view.eff_swaps[m] = given && mk.swaps && !committed.vis[VS].disabled;
        view.eff_positions[m] = given && mk.positions && !committed.vis[positions_vi_of(m)].disabled;
        if given && ((mk.swaps && committed.vis[VS].disabled) || (mk.positions && committed.vis[positions_vi_of(m)].disabled)) {
            out.class("disabled_inventory_ignored");
        }
        if !given && (mk.swaps || mk.positions) {
            out.class("attached_market_opened_without_inventories");
        }
        if mk.pure_market && view.eff_positions[m] {
            out.class("single_token_market_with_inventory_for_positions");
        }
    }
    let effective_vis: Vec<usize> = {
        let mut e = vec![];
        for (m, _) in &rms {
            if view.eff_swaps[*m] && !e.contains(&VS) {
                e.push(VS);
            }
            if view.eff_positions[*m] && !e.contains(&positions_vi_of(*m)) {
                e.push(positions_vi_of(*m));
            }
        }
        e
    };
    if given && passed.iter().any(|v| !needed.contains(v)) {
        out.class("unrelated_inventory_given");
    }
    if rms.len() == 2 {
        let (a, b) = (rms[0].0, rms[1].0);
        if view.eff_swaps[a] && view.eff_swaps[b] {
            out.class("two_markets_share_swaps_inventory_in_one_operation");
        }
        if view.eff_positions[a] && view.eff_positions[b] && positions_vi_of(a) == positions_vi_of(b) {
            out.class("two_markets_share_positions_inventory_in_one_operation");
        }
    }
    for &v in &effective_vis {
        let vm = &view.model.vis[v];
        if let Some(by) = vm.abandoned_by {
            out.class("inventory_read_after_abandoned_write");
            out.nontrivial = true;
            let readers: Vec<usize> = rms.iter().map(|(m, _)| *m).filter(|m| if v == VS { view.eff_swaps[*m] } else { view.eff_positions[*m] && positions_vi_of(*m) == v }).collect();
            if readers.iter().any(|m| *m != by) {
                out.class("inventory_read_by_other_market_after_abandoned_write");
            }
        }
        if vm.joined_since_last_op {
            out.class("inventory_read_after_join");
            if vm.abandoned_by.is_some() {
                out.class("inventory_read_after_join_over_abandoned_write");
            }
        }
        if vm.left_since_last_op {
            out.class("inventory_read_after_leave");
        }
        if vm.changed_by_join_or_leave_since_last_op {
            out.class("inventory_read_after_join_or_leave_changed_stored_amounts");
            if vm.abandoned_by.is_some() {
                out.class("inventory_read_after_join_or_leave_changed_amounts_over_abandoned_write");
            }
        }
    }

    observe(&rms, &view, "begin")?;
    stored_unchanged(&rms, &vi_infos, &pre_m, &pre_v, "begin")?;

    // ---- steps ----
    let mut failed = false;
    let mut writers: [Option<usize>; NV] = [None; NV];
    for (si, st) in tx.steps.iter().enumerate() {
        let when = format!("step #{si} {st:?}");
        let n_open = rms.len();
        let sel = move |second: bool| if second && n_open > 1 { 1 } else { 0 };
        match st {
            Step::ReadVi { second, positions } => {
                let m = rms[sel(*second)].0;
                let (eff, v) = if *positions { (view.eff_positions[m], positions_vi_of(m)) } else { (view.eff_swaps[m], VS) };
                if eff && view.ov.vis[v].is_some() {
                    out.class("read_own_inventory_write");
                }
            }
            Step::ReadPools { .. } => {}
            Step::ApplyDelta { second, long, delta } => {
                let i = sel(*second);
                let m = rms[i].0;
                let pure_market = view.model.mkts[m].pure_market;
                let cur = view.primary(m);
                let delta = &delta.resolve(if *long || pure_market { cur.0 } else { cur.1 });
                let when = format!("{when} = {delta}");
                let next_primary = apply(cur, pure_market, *long, *delta);
                let next_vi = if view.eff_swaps[m] { Some(apply(view.vi(VS), false, *long, *delta)) } else { None };
                let expect_ok = next_primary.is_some() && next_vi != Some(None);
                let res = rms[i].1.apply_delta(*long, delta);
                match (res, expect_ok) {
                    (Ok(()), true) => {
                        view.ov.primary[m] = next_primary;
                        if let Some(n) = next_vi {
                            if view.model.vis[VS].abandoned_by.is_some() && view.ov.vis[VS].is_none() {
                                out.class("inventory_written_after_abandoned_write");
                            }
                            view.ov.vis[VS] = n;
                            writers[VS] = Some(m);
                            out.class("liquidity_delta_mirrored_into_swaps_inventory");
                            if rms.iter().any(|(o, _)| *o != m && view.eff_swaps[*o]) {
                                out.class("inventory_write_read_by_other_market_in_same_operation");
                            }
                        }
                    }
                    (Err(_), false) => {
                        out.class("apply_delta_rejected");
                        failed = true;
                    }
                    (Ok(()), false) => return Err(format!("{when}: accepted although the pool or the inventory cannot absorb the delta")),
                    (Err(e), true) => return Err(format!("{when}: rejected: {e}")),
                }
            }
            Step::ApplyOi { second, is_long, long_collateral, delta } => {
                let i = sel(*second);
                let m = rms[i].0;
                let pure_market = view.model.mkts[m].pure_market;
                let side = if *is_long { 0 } else { 1 };
                let v = positions_vi_of(m);
                // the reference follows the documented order: open interest pool, cap, then the inventory
                let cur = view.oi(m, side);
                let delta = &delta.resolve(if *long_collateral || pure_market { cur.0 } else { cur.1 });
                let when = format!("{when} = {delta}");
                let mut expect_ok = true;
                let mut next_oi = cur;
                let mut next_vi: Option<Amounts> = None;
                match apply(cur, pure_market, *long_collateral, *delta) {
                    None => expect_ok = false,
                    Some(n) => {
                        next_oi = n;
                        let vis_n = visible(pure_market, n);
                        let exceeded = *delta > 0 && vis_n.0.checked_add(vis_n.1).map(|t| t > view.model.max_open_interest[side]).unwrap_or(true);
                        if exceeded {
                            expect_ok = false;
                        } else if view.eff_positions[m] {
                            // the inventory is opened for writing before anything can fail
                            let p = view.vi(v);
                            next_vi = Some(p);
                            let to_long = *is_long == (*delta >= 0);
                            match signed(delta.unsigned_abs()).and_then(|a| apply(p, false, to_long, a)) {
                                None => expect_ok = false,
                                Some(q) => next_vi = Some(cancel(q)),
                            }
                        }
                    }
                }
                let res = rms[i].1.apply_delta_to_open_interest(*is_long, *long_collateral, delta);
                view.ov.oi[m][side] = Some(next_oi);
                if let Some(n) = next_vi {
                    if view.model.vis[v].abandoned_by.is_some() && view.ov.vis[v].is_none() {
                        out.class("inventory_written_after_abandoned_write");
                    }
                    view.ov.vis[v] = Some(n);
                    writers[v] = Some(m);
                    out.class("open_interest_delta_mirrored_into_positions_inventory");
                    if rms.iter().any(|(o, _)| *o != m && view.eff_positions[*o] && positions_vi_of(*o) == v) {
                        out.class("inventory_write_read_by_other_market_in_same_operation");
                    }
                }
                match (res, expect_ok) {
                    (Ok(()), true) => {}
                    (Err(_), false) => {
                        out.class("open_interest_delta_rejected");
                        failed = true;
                    }
                    (Ok(()), false) => return Err(format!("{when}: accepted although the pool, the cap or the inventory cannot absorb the delta")),
                    (Err(e), true) => return Err(format!("{when}: rejected: {e}")),
                }
            }
            Step::WriteVi { second, positions, long, delta } => {
                let i = sel(*second);
                let m = rms[i].0;
                let (eff, v) = if *positions { (view.eff_positions[m], positions_vi_of(m)) } else { (view.eff_swaps[m], VS) };
                let cur = view.vi(v);
                let delta = &delta.resolve(if *long { cur.0 } else { cur.1 });
                let when = format!("{when} = {delta}");
                let next = apply(cur, false, *long, *delta);
                let other_reader = rms.iter().any(|(o, _)| *o != m && if *positions { view.eff_positions[*o] && positions_vi_of(*o) == v } else { view.eff_swaps[*o] });
                let rm = &mut rms[i].1;
                let res: Result<Option<gmsol_model::Result<()>>, String> = if *positions {
                    rm.virtual_inventory_for_positions_pool_mut().map_err(|e| format!("{when}: {e}")).map(|p| {
                        p.map(|mut p| {
                            if *long {
                                p.apply_delta_to_long_amount(delta)?;
                            } else {
                                p.apply_delta_to_short_amount(delta)?;
                            }
                            // what the only real writer of this inventory does after applying a delta
                            let c = p.checked_cancel_amounts()?;
                            *p = c;
                            Ok(())
                        })
                    })
                } else {
                    rm.virtual_inventory_for_swaps_pool_mut().map_err(|e| format!("{when}: {e}")).map(|p| {
                        p.map(|mut p| if *long { p.apply_delta_to_long_amount(delta) } else { p.apply_delta_to_short_amount(delta) })
                    })
                };
                match (res?, eff) {
                    (None, false) => out.class("inventory_write_without_inventory"),
                    (Some(r), true) => {
                        if view.model.vis[v].abandoned_by.is_some() && view.ov.vis[v].is_none() {
                            out.class("inventory_written_after_abandoned_write");
                        }
                        writers[v] = Some(m);
                        if other_reader {
                            out.class("inventory_write_read_by_other_market_in_same_operation");
                        }
                        match (r, next) {
                            (Ok(()), Some(n)) => view.ov.vis[v] = Some(if *positions { cancel(n) } else { n }),
                            (Err(_), None) => {
                                // opened for writing: the current view becomes part of the overlay
                                view.ov.vis[v] = Some(cur);
                                out.class("inventory_write_rejected");
                                failed = true;
                            }
                            (Ok(()), None) => return Err(format!("{when}: accepted although the inventory cannot absorb the delta")),
                            (Err(e), Some(_)) => return Err(format!("{when}: rejected: {e}")),
                        }
                    }
                    (Some(_), false) => return Err(format!("{when}: a virtual inventory is writable although none is in effect")),
                    (None, true) => return Err(format!("{when}: no writable virtual inventory although it is attached, enabled and provided")),
                }
            }
        }
        observe(&rms, &view, &when)?;
        stored_unchanged(&rms, &vi_infos, &pre_m, &pre_v, &when)?;
        if failed {
            // a failed step ends the real operation: it is abandoned
            out.class("operation_abandoned_after_failed_step");
            break;
        }
    }

    // ---- end ----
    let commit = tx.commit && !failed;
    let opened: Vec<usize> = rms.iter().map(|(m, _)| *m).collect();
    let View { ov, .. } = view;
    let wrote_vi = ov.vis.iter().any(|o| o.is_some());
    if commit {
        for (_, rm) in rms {
            rm.commit();
        }
        if let Some(h) = handle {
            gmsol_store::verif::commit_revertible_virtual_inventories(h);
        }
        for v in 0..NV {
            if let Some(n) = ov.vis[v] {
                model.vis[v].committed = n;
                model.vis[v].abandoned_by = None;
            }
        }
        for m in 0..NM {
            if let Some(n) = ov.primary[m] {
                model.mkts[m].primary = n;
            }
            for i in 0..2 {
                if let Some(n) = ov.oi[m][i] {
                    model.mkts[m].oi[i] = n;
                }
            }
        }
        model.consecutive_abandons_with_vi_write = 0;
        if given && !passed.is_empty() {
            out.class(if wrote_vi { "commit_with_inventory_write" } else { "commit_without_inventory_write" });
        }
    } else {
        drop(rms);
        drop(handle);
        for v in 0..NV {
            if ov.vis[v].is_some() {
                model.vis[v].abandoned_by = writers[v].or(model.vis[v].abandoned_by);
            }
        }
        if wrote_vi {
            out.class("abandon_with_inventory_write");
            model.consecutive_abandons_with_vi_write += 1;
            if model.consecutive_abandons_with_vi_write >= 2 {
                out.class("repeated_abandon_with_inventory_write");
            }
        }
    }
    for &v in &effective_vis {
        model.vis[v].joined_since_last_op = false;
        model.vis[v].left_since_last_op = false;
        model.vis[v].changed_by_join_or_leave_since_last_op = false;
    }

    // ---- stored state after the operation ----
    let when = if commit { "after commit" } else { "after abandoning" };
    for v in 0..NV {
        let post = body_of(&vi_infos[v])?;
        let s = vi_view(&post);
        if s.stored != model.vis[v].committed {
            return Err(format!(
                "{when}: virtual inventory #{v} stores {:?}, the committed state is {:?} (written in this operation: {})",
                s.stored,
                model.vis[v].committed,
                ov.vis[v].is_some()
            ));
        }
        let written = commit && ov.vis[v].is_some();
        let holes: Vec<(usize, usize)> = if written { vec![(V_OFF_BUFFER, V_LEN_BUFFER), (V_OFF_POOL, LEN_POOL)] } else { vec![(V_OFF_BUFFER, V_LEN_BUFFER)] };
        if outside(&post, &holes) != outside(&pre_v[v], &holes) {
            return Err(format!("{when}: bytes of virtual inventory #{v} outside its buffer{} changed", if written { " and its pool" } else { "" }));
        }
        if s.stored_pure {
            return Err(format!("{when}: the stored pool of virtual inventory #{v} became a single-token pool"));
        }
        let expected_rev = vi_view(&pre_v[v]).buffer_rev + u64::from(given && passed.contains(&v));
        if s.buffer_rev != expected_rev {
            return Err(format!("{when}: the revision of virtual inventory #{v} is {}, expected {expected_rev}", s.buffer_rev));
        }
        if !(given && passed.contains(&v)) && post != pre_v[v] {
            return Err(format!("{when}: virtual inventory #{v} was not given to the operation but its bytes changed"));
        }
    }
    for m in 0..NM {
        let post = body_of(&market_infos[m])?;
        if !opened.contains(&m) {
            if post != pre_m[m] {
                return Err(format!("{when}: market #{m} was not opened but its bytes changed"));
            }
            continue;
        }
        let mk = loaders[m].load().map_err(|e| e.to_string())?;
        let want = [model.mkts[m].primary, model.mkts[m].oi[0], model.mkts[m].oi[1]];
        let touched = [ov.primary[m].is_some(), ov.oi[m][0].is_some(), ov.oi[m][1].is_some()];
        let mut holes = vec![(M_OFF_BUFFER, M_LEN_BUFFER)];
        for (i, kind) in MKINDS.iter().enumerate() {
            let p = mk.pool(*kind).ok_or("pool missing")?;
            let got = raw(&p)?;
            if (got.1, got.2) != want[i] {
                return Err(format!("{when}: market #{m} stores {kind:?} = ({},{}), the committed state is {:?}", got.1, got.2, want[i]));
            }
            if commit && touched[i] {
                holes.push((market_pool_offset(i), LEN_POOL));
            }
        }
        if outside(&post, &holes) != outside(&pre_m[m], &holes) {
            return Err(format!("{when}: bytes of market #{m} outside its buffer and the pools written by the operation changed"));
        }
    }
    Ok(())
}

// ---------------------------------------------------------------------------------------------
// Host side: world, administrative instructions, one driver invocation per operation
// ---------------------------------------------------------------------------------------------

#[derive(Clone)]
struct Setup {
    w: World1,
    markets: [Pubkey; NM],
    vis: [Pubkey; NV],
    max_open_interest: [u128; 2],
}

fn build_setup() -> Result<Setup, String> {
    let mut w = World1::fresh()?;
    let mk = w.k.role_key(RoleKey::MARKET_KEEPER);
    let (ia, ib, long) = (w.k.index_a, w.k.index_b, w.k.long_mint);
    let run = |w: &mut World1, what: &str, ix: Instruction| w.process(&ix).map_err(|e| format!("c21vi setup: {what}: {e:?}"));
    // market C: a single-token market on A's index token (shares A's inventory for positions)
    let ix = w.k.ix_initialize_market(mk, ia, long, long, "A/USD[LONG-LONG]", true);
    run(&mut w, "initialize_market(C)", ix)?;
    let c_token = w.k.market_token_pda(&ia, &long, &long);
    let markets = [w.k.markets[0].market, w.k.markets[1].market, w.k.market_pda(&c_token)];
    let ix = w.k.ix_create_virtual_inventory_for_swaps(mk, 0, crate::world1::LONG_DECIMALS, crate::world1::SHORT_DECIMALS);
    run(&mut w, "create_virtual_inventory_for_swaps", ix)?;
    let ix = w.k.ix_create_virtual_inventory_for_positions(mk, ia);
    run(&mut w, "create_virtual_inventory_for_positions(a)", ix)?;
    let ix = w.k.ix_create_virtual_inventory_for_positions(mk, ib);
    run(&mut w, "create_virtual_inventory_for_positions(b)", ix)?;
    let vis = [w.k.vi_for_swaps_pda(0), w.k.vi_for_positions_pda(&ia), w.k.vi_for_positions_pda(&ib)];
    let m0: Market = w.read(&markets[0]).ok_or("market A missing")?;
    let max_open_interest = [
        m0.get_config("max_open_interest_for_long").map_err(|e| e.to_string()).copied()?,
        m0.get_config("max_open_interest_for_short").map_err(|e| e.to_string()).copied()?,
    ];
    for (i, mkey) in markets.iter().enumerate() {
        let m: Market = w.read(mkey).ok_or("market missing")?;
        if m.is_pure() != (i == 2) {
            return Err(format!("c21vi setup: market #{i} pure = {}", m.is_pure()));
        }
        let d = w.vm.data(mkey);
        if d.len() != 8 + size_of::<SdkMarket>() {
            return Err("c21vi setup: program Market and SDK Market differ in size".into());
        }
    }
    for v in &vis {
        if w.vm.data(v).len() != 8 + size_of::<SdkVi>() {
            return Err("c21vi setup: program VirtualInventory and SDK VirtualInventory differ in size".into());
        }
    }
    Ok(Setup { w, markets, vis, max_open_interest })
}

fn setup() -> Result<Setup, String> {
    let cached = WORLD.with(|c| c.borrow().clone());
    let s = match cached {
        Some(s) => s,
        None => {
            let s = build_setup()?;
            WORLD.with(|c| *c.borrow_mut() = Some(s.clone()));
            s
        }
    };
    svm::init();
    svm::set_sysvars(Sysvars::default());
    svm::take_events();
    Ok(s)
}

/// Compare the accounts with the model after an administrative instruction.
fn check_accounts(s: &Setup, model: &Model, when: &str) -> Result<(), String> {
    for v in 0..NV {
        let body = &s.w.vm.data(&s.vis[v])[8..];
        let vv = vi_view(body);
        let mv = &model.vis[v];
        if vv.stored != mv.committed || vv.ref_count != mv.ref_count || (vv.flags != 0) != mv.disabled || vv.stored_pure {
            return Err(format!("{when}: virtual inventory #{v} stores {:?} (ref count {}, flags {}), expected {:?} (ref count {}, disabled {})", vv.stored, vv.ref_count, vv.flags, mv.committed, mv.ref_count, mv.disabled));
        }
    }
    for m in 0..NM {
        let mk: Market = s.w.read(&s.markets[m]).ok_or("market missing")?;
        let sw = mk.virtual_inventory_for_swaps().copied();
        let ps = mk.virtual_inventory_for_positions().copied();
        let want_sw = model.mkts[m].swaps.then_some(s.vis[VS]);
        let want_ps = model.mkts[m].positions.then_some(s.vis[positions_vi_of(m)]);
        if sw != want_sw || ps != want_ps {
            return Err(format!("{when}: market #{m} is attached to {sw:?}/{ps:?}, expected {want_sw:?}/{want_ps:?}"));
        }
    }
    Ok(())
}

fn toggle(s: &mut Setup, model: &mut Model, positions: bool, m: usize, rec: &mut Rec) -> Result<(), String> {
    let mk = s.w.k.role_key(RoleKey::MARKET_KEEPER);
    let v = if positions { positions_vi_of(m) } else { VS };
    let (vi_key, market_key) = (s.vis[v], s.markets[m]);
    let attached = if positions { model.mkts[m].positions } else { model.mkts[m].swaps };
    let pre_buffer = s.w.vm.data(&vi_key)[8 + V_OFF_BUFFER..8 + V_OFF_BUFFER + V_LEN_BUFFER].to_vec();
    let what = format!("{} virtual inventory for {} (market #{m})", if attached { "leave" } else { "join" }, if positions { "positions" } else { "swaps" });
    let cur = model.vis[v].committed;
    // expected stored pool after the instruction (None = the instruction must fail)
    let (ix, expect): (Instruction, Option<Amounts>) = if model.vis[v].disabled {
        if attached {
            (s.w.k.ix_leave_disabled_virtual_inventory(mk, vi_key, market_key), Some(cur))
        } else if positions {
            (s.w.k.ix_join_virtual_inventory_for_positions(mk, vi_key, market_key), None)
        } else {
            (s.w.k.ix_join_virtual_inventory_for_swaps(mk, vi_key, market_key), None)
        }
    } else if positions {
        let c = model.positions_contribution(m);
        if attached {
            // leaving adds the net open interest to the opposite sides, then cancels
            let e = c.and_then(|(l, sh)| Some(cancel((cur.0.checked_add(signed(sh)? as u128)?, cur.1.checked_add(signed(l)? as u128)?))));
            (s.w.k.ix_leave_virtual_inventory_for_positions(mk, vi_key, market_key), e)
        } else {
            let e = c.and_then(|(l, sh)| Some(cancel((cur.0.checked_add(signed(l)? as u128)?, cur.1.checked_add(signed(sh)? as u128)?))));
            (s.w.k.ix_join_virtual_inventory_for_positions(mk, vi_key, market_key), e)
        }
    } else {
        let (l, sh) = model.swaps_contribution(m);
        if attached {
            let e = (|| Some((cur.0.checked_sub(signed(l)? as u128)?, cur.1.checked_sub(signed(sh)? as u128)?)))();
            (s.w.k.ix_leave_virtual_inventory_for_swaps(mk, vi_key, market_key), e)
        } else {
            let e = (|| Some((cur.0.checked_add(signed(l)? as u128)?, cur.1.checked_add(signed(sh)? as u128)?)))();
            (s.w.k.ix_join_virtual_inventory_for_swaps(mk, vi_key, market_key), e)
        }
    };
    let res = s.w.process(&ix);
    match (res, expect) {
        (Ok(()), Some(n)) => {
            let nonzero = n != cur;
            model.vis[v].committed = n;
            model.vis[v].changed_by_join_or_leave_since_last_op |= nonzero;
            if attached {
                model.vis[v].ref_count -= 1;
                model.vis[v].left_since_last_op = true;
                rec.class(if model.vis[v].disabled { "left_disabled_inventory" } else if nonzero { "left_with_nonzero_amounts" } else { "left_with_zero_amounts" });
            } else {
                model.vis[v].ref_count += 1;
                model.vis[v].joined_since_last_op = true;
                rec.class(if nonzero { "joined_with_nonzero_amounts" } else { "joined_with_zero_amounts" });
            }
            if positions {
                model.mkts[m].positions = !attached;
            } else {
                model.mkts[m].swaps = !attached;
            }
        }
        (Err(_), None) => rec.class("join_or_leave_rejected"),
        (Ok(()), None) => return Err(format!("{what}: accepted although it must fail (inventory disabled: {}, stored {cur:?})", model.vis[v].disabled)),
        (Err(e), Some(_)) => return Err(format!("{what}: failed: {e:?}")),
    }
    if s.w.vm.data(&vi_key)[8 + V_OFF_BUFFER..8 + V_OFF_BUFFER + V_LEN_BUFFER] != pre_buffer[..] {
        return Err(format!("{what}: the revertible buffer of the inventory changed"));
    }
    check_accounts(s, model, &what)
}

fn run_admin(s: &mut Setup, model: &mut Model, a: &Admin, rec: &mut Rec) -> Result<(), String> {
    match a {
        Admin::ToggleSwaps { m } => toggle(s, model, false, *m as usize % 2, rec),
        Admin::TogglePositions { m } => toggle(s, model, true, *m as usize % NM, rec),
        Admin::Disable { vi } => {
            let v = *vi as usize % NV;
            let mk = s.w.k.role_key(RoleKey::MARKET_KEEPER);
            let ix = s.w.k.ix_disable_virtual_inventory(mk, s.vis[v]);
            let res = s.w.process(&ix);
            match (res, model.vis[v].disabled) {
                (Ok(()), false) => {
                    model.vis[v].disabled = true;
                    rec.class("inventory_disabled");
                }
                (Err(_), true) => {}
                (r, d) => return Err(format!("disable virtual inventory #{v}: {r:?} (already disabled: {d})")),
            }
            check_accounts(s, model, "disable")
        }
    }
}

fn run_tx(s: &mut Setup, model: &mut Model, tx: &Tx, rec: &mut Rec) -> Result<(), String> {
    let mut accounts: Vec<AccountMeta> = s.markets.iter().chain(s.vis.iter()).map(|k| AccountMeta::new(*k, false)).collect();
    // The event authority signs for the store program's self-CPI; here the caller is the driver, so
    // the signature is granted at the top level.
    accounts.push(AccountMeta::new_readonly(s.w.k.event_authority, true));
    let ix = Instruction { program_id: driver_id(), accounts, data: vec![] };
    JOB.with(|j| *j.borrow_mut() = Some(Job { tx: tx.clone(), model: model.clone() }));
    OUT.with(|o| *o.borrow_mut() = None);
    // The driver writes the accounts: in svm-lite's books they are the driver's for the duration of
    // the invocation; the driver presents them to the store code with the store program as owner.
    // The invocation runs on a world that holds only these six accounts and the programs (the rest
    // of the world is not an input of the operation), and the accounts are copied back on success.
    let mut slim = Svm::default();
    for (k, a) in &s.w.vm.accounts {
        if a.executable {
            slim.accounts.insert(*k, a.clone());
        }
    }
    for k in s.markets.iter().chain(s.vis.iter()) {
        let a = s.w.vm.get(k).ok_or("account missing")?;
        slim.set_account(*k, Acct { lamports: a.lamports, data: a.data.clone(), owner: driver_id(), executable: false });
    }
    svm::keep_logs(true);
    let res = slim.process(&ix);
    let logs = svm::take_logs();
    svm::keep_logs(false);
    if res.is_ok() {
        for k in s.markets.iter().chain(s.vis.iter()) {
            let a = slim.get(k).ok_or("account vanished")?;
            if a.owner != driver_id() {
                return Err("the owner of an account changed during the operation".into());
            }
            s.w.vm.set_account(*k, Acct { lamports: a.lamports, data: a.data.clone(), owner: gmsol_store::ID, executable: false });
        }
    }
    JOB.with(|j| *j.borrow_mut() = None);
    let Some((r, new_model, out)) = OUT.with(|o| o.borrow_mut().take()) else {
        let tail: Vec<String> = logs.iter().rev().take(4).rev().cloned().collect();
        return Err(format!("driver did not finish: {res:?}; last logs: {tail:?}"));
    };
    for cl in &out.classes {
        rec.class(cl);
    }
    rec.nontrivial_if(out.nontrivial);
    r?;
    if out.rolled_back {
        // the instruction failed: nothing persists, the model is unchanged
        if res.is_ok() {
            return Err("the driver instruction succeeded although it had to fail".into());
        }
        return check_accounts(s, model, "after the rolled-back operation");
    }
    res.map_err(|e| format!("driver instruction failed after the interpreter finished: {e:?}"))?;
    *model = new_model;
    check_accounts(s, model, "after the operation")
}

fn check(c: &Case, rec: &mut Rec) -> Result<(), String> {
    let mut s = setup()?;
    svm::register_processor(driver_id(), driver);
    let mut model = Model { max_open_interest: s.max_open_interest, ..Default::default() };
    model.mkts[2].pure_market = true;
    check_accounts(&s, &model, "fresh world")?;
    let initial = [(false, 0usize), (false, 1), (true, 0), (true, 1), (true, 2)];
    for (on, (positions, m)) in c.initial.iter().zip(initial) {
        if *on {
            toggle(&mut s, &mut model, positions, m, rec)?;
        }
    }
    for (ti, tx) in c.txs.iter().enumerate() {
        for a in &tx.admin {
            run_admin(&mut s, &mut model, a, rec).map_err(|e| format!("before operation #{ti}: {e}"))?;
        }
        run_tx(&mut s, &mut model, tx, rec).map_err(|e| format!("operation #{ti}: {e}"))?;
    }
    // Final sweep: fresh operations over every market with all inventories must see exactly the
    // committed state, and committing them without writes must change nothing.
    let dirty = model.vis.iter().any(|v| v.abandoned_by.is_some());
    for (first, second) in [(0u8, Some(1u8)), (2, None)] {
        let pre: Vec<Vec<u8>> = s.vis.iter().map(|k| s.w.vm.data(k).to_vec()).collect();
        let sweep = Tx { admin: vec![], mode: Mode::All, first, second, drop: 0, steps: vec![], commit: true };
        let mut sink = Rec::default();
        let r = run_tx(&mut s, &mut model, &sweep, &mut sink).map_err(|e| format!("final sweep over market #{first}: {e}"));
        r?;
        for (v, k) in s.vis.iter().enumerate() {
            let post = s.w.vm.data(k);
            if outside(&post[8..], &[(V_OFF_BUFFER, V_LEN_BUFFER)]) != outside(&pre[v][8..], &[(V_OFF_BUFFER, V_LEN_BUFFER)]) {
                return Err(format!("final sweep: a commit without writes changed virtual inventory #{v}"));
            }
        }
    }
    if dirty {
        rec.class("final_sweep_over_abandoned_inventory_write");
        rec.nontrivial();
    }
    rec.class_if(model.mkts[0].swaps && model.mkts[1].swaps, "ends_with_both_markets_sharing_swaps_inventory");
    Ok(())
}

pub fn run_c21_vi(ctx: &mut Ctx) {
    ctx.rule("cases = World1 (real instructions) + single-token market C on A's index token + one virtual inventory for swaps (A, B) and two for positions (index a: A and C; index b: B), created/joined/left/disabled with the real instructions; initial attachments (each 2/3), then 1..8 operations, each preceded by 0..2 administrative instructions (toggle join/leave of swaps or positions inventory, rarely disable) and consisting of: inventories given {exactly the needed, all three, none (RevertibleMarket::new(None)), one needed missing}, 1 or 2 distinct markets opened over the same RevertibleVirtualInventories, 0..6 steps {apply_delta on the liquidity pool (mirrored into the swaps inventory), apply_delta_to_open_interest (mirrored + cancelled into the positions inventory, cap enforced), write through virtual_inventory_for_*_pool_mut, reads}, then commit (markets, then inventories) or abandon (50/50; a failed step always abandons, a failed constructor fails the instruction); each operation = one invocation of a driver program in svm-lite over the real RevertibleMarket; oracle = reference {committed amounts + per-operation overlay} for the three inventory pools and the liquidity/open-interest pools of the three markets: after begin and after every step every opened market reads liquidity pool, both open-interest pools and both inventory pools == overlay-or-committed (inventory visible iff attached, enabled and given); while open and after abandon all bytes of all six accounts outside the revertible buffers are unchanged; after commit the stored inventory pool == overlay, bytes outside buffer+pool unchanged, inventories the operation did not write are byte-identical outside the buffer, inventories not given are byte-identical, buffer revision +1 per given inventory; join/leave write storage directly by the market's visible liquidity / cancelled net open interest (reference arithmetic, failure iff out of range) and never touch the buffer; final sweep: operations over all markets with all inventories read the committed state and commit nothing; non-trivial = an inventory written by an abandoned operation is read again by a later operation");
    ctx.assume("hooks gmsol_store::verif::{load_revertible_virtual_inventories (= RemainingAccountsForMarket::new + load_virtual_inventories), new_revertible_market_with_virtual_inventories, commit_revertible_virtual_inventories}; an operation runs on a world holding only the three markets, the three inventories and the programs, owned by the driver in svm-lite's books (presented to the store code as store-owned), and the six accounts are copied back into the full world (owner: store program) when the invocation succeeds; byte ranges come from the SDK's declared layout (size equality asserted); clocks/other state/other pool kinds and the deferred mint/burn are the subject of the 'operations'/'liquidity' searches; SwapMarkets, RevertiblePosition and full order/deposit execution over inventories are not driven here (C22/C23 world has no inventories)");
    let n = ctx.cases(6_000, 300_000);
    ctx.search("operations_vi", n, case, check);
    // floors: at most 55 % of the minimum count observed over seeds 0..7 (6 000 cases)
    ctx.floor("operations_vi:inventory_read_after_abandoned_write", n / 5);
    ctx.floor("operations_vi:inventory_read_by_other_market_after_abandoned_write", n / 10);
    ctx.floor("operations_vi:inventory_written_after_abandoned_write", n / 8);
    ctx.floor("operations_vi:final_sweep_over_abandoned_inventory_write", n / 4);
    ctx.floor("operations_vi:inventory_read_after_join_or_leave_changed_stored_amounts", n / 16);
    ctx.floor("operations_vi:inventory_read_after_join_or_leave_changed_amounts_over_abandoned_write", n / 100);
    ctx.floor("operations_vi:inventory_read_after_leave", n / 5);
    ctx.floor("operations_vi:joined_with_nonzero_amounts", n / 16);
    ctx.floor("operations_vi:left_with_nonzero_amounts", n / 15);
    ctx.floor("operations_vi:commit_with_inventory_write", n / 4);
    ctx.floor("operations_vi:commit_without_inventory_write", n / 5);
    ctx.floor("operations_vi:abandon_with_inventory_write", n / 4);
    ctx.floor("operations_vi:repeated_abandon_with_inventory_write", n / 12);
    ctx.floor("operations_vi:operation_abandoned_after_failed_step", n / 12);
    ctx.floor("operations_vi:two_markets_share_swaps_inventory_in_one_operation", n / 12);
    ctx.floor("operations_vi:two_markets_share_positions_inventory_in_one_operation", n / 14);
    ctx.floor("operations_vi:inventory_write_read_by_other_market_in_same_operation", n / 10);
    ctx.floor("operations_vi:read_own_inventory_write", n / 9);
    ctx.floor("operations_vi:liquidity_delta_mirrored_into_swaps_inventory", n / 4);
    ctx.floor("operations_vi:open_interest_delta_mirrored_into_positions_inventory", n / 4);
    ctx.floor("operations_vi:single_token_market_with_inventory_for_positions", n / 5);
    ctx.floor("operations_vi:attached_market_opened_without_inventories", n / 7);
    ctx.floor("operations_vi:unrelated_inventory_given", n / 4);
    ctx.floor("operations_vi:missing_inventory_rejected", n / 12);
    ctx.floor("operations_vi:disabled_inventory_ignored", n / 20);
}
