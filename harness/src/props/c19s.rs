//! C19 policy table, part 3: state-dependent variants of the two-step hand-over instructions.
//!
//! The base table starts every instruction from the idle state, where "current holder" and "proposed
//! holder" coincide (store: `receiver == next_receiver`, `authority == next_authority`). A check that
//! compares the signer with the wrong one of the two fields is invisible there. These entries put the
//! world into the *pending hand-over* state first (with the real instructions) and then require:
//! the proposed-but-not-accepted holder has no authority yet, the current holder keeps it, and the
//! current holder cannot "accept" on behalf of the proposed one.
//!
//! Entries reuse the instruction names of the base table (coverage is counted per name).

use super::c19::{Auth, Entry, Expect};
use crate::svm;
use crate::world1::{codes, create_token_account, World1};
use anchor_lang::solana_program::{instruction::Instruction, pubkey::Pubkey};
use anchor_lang::{InstructionData, ToAccountMetas};
use gmsol_store::CoreError;

fn other(label: &str) -> Pubkey {
    svm::key_of(&format!("c19s-{label}"))
}

fn fund(w: &mut World1, key: Pubkey) -> Pubkey {
    if w.vm.get(&key).is_none() {
        w.vm.fund(key, 1_000_000_000_000);
    }
    key
}

fn run_as(w: &mut World1, what: &str, ix: Instruction) -> Result<(), String> {
    w.process(&ix).map_err(|e| format!("c19s prep: {what} failed: {e:?}"))
}

fn core(e: CoreError) -> u32 {
    6000 + e as u32
}

/// Make `to` the current receiver of the store (real two-step hand-over from the world's receiver).
fn make_receiver(w: &mut World1, to: Pubkey) -> Result<(), String> {
    if to == w.k.receiver {
        return Ok(());
    }
    run_as(w, "transfer_receiver", w.k.ix_transfer_receiver(w.k.receiver, to))?;
    run_as(w, "accept_receiver", w.k.ix_accept_receiver(to))
}

/// Make `to` the current store authority (real two-step hand-over from the world's admin).
fn make_admin(w: &mut World1, to: Pubkey) -> Result<(), String> {
    if to == w.k.admin {
        return Ok(());
    }
    run_as(w, "transfer_store_authority", w.k.ix_transfer_store_authority(w.k.admin, to))?;
    run_as(w, "accept_store_authority", w.k.ix_accept_store_authority(to))
}

mod lp {
    use super::*;
    use anchor_lang::solana_program::system_program;
    use gmsol_liquidity_provider::accounts as la;
    use gmsol_liquidity_provider::instruction as li;
    pub const ID: Pubkey = gmsol_liquidity_provider::ID;

    pub fn global_state() -> Pubkey {
        Pubkey::find_program_address(&[b"global_state"], &ID).0
    }
    fn ix(accounts: impl ToAccountMetas, data: impl InstructionData) -> Instruction {
        Instruction { program_id: ID, accounts: accounts.to_account_metas(None), data: data.data() }
    }
    pub fn setup(w: &mut World1, authority: Pubkey) -> Result<(), String> {
        fund(w, authority);
        run_as(
            w,
            "lp initialize",
            ix(la::Initialize { global_state: global_state(), authority, system_program: system_program::ID }, li::Initialize { min_stake_value: 1000, initial_apy: 1_000_000_000_000_000_000 }),
        )
    }
    pub fn transfer(authority: Pubkey, new_authority: Pubkey) -> Instruction {
        ix(la::TransferAuthority { global_state: global_state(), authority }, li::TransferAuthority { new_authority })
    }
    pub fn accept(pending_authority: Pubkey) -> Instruction {
        ix(la::AcceptAuthority { global_state: global_state(), pending_authority }, li::AcceptAuthority {})
    }
}

pub fn table() -> Vec<Entry> {
    let st = |name, auth, build| Entry { program: "store", name, auth, expect: Expect::Ok, build };
    let lpe = |name, auth, build| Entry { program: "liquidity-provider", name, auth, expect: Expect::Ok, build };
    vec![
        // "must be a signer and the current receiver of the given store" — while a hand-over is pending
        st("transfer_receiver", Auth::Key(vec![core(CoreError::PermissionDenied)]), |w, s, a, _r| {
            if a {
                // s is the current receiver and has already proposed someone; it may redirect the hand-over
                make_receiver(w, s)?;
                run_as(w, "transfer_receiver (pending)", w.k.ix_transfer_receiver(s, other("proposed-receiver")))?;
            } else {
                // s is only the proposed receiver
                run_as(w, "transfer_receiver (pending)", w.k.ix_transfer_receiver(w.k.receiver, s))?;
            }
            Ok(w.k.ix_transfer_receiver(s, other("redirected-receiver")))
        }),
        // "must be a signer and be the designated fee receiver" — the proposed receiver is not it yet, the
        // current one still is
        st("claim_fees_from_market", Auth::Key(vec![core(CoreError::PermissionDenied)]), |w, s, a, r| {
            if a {
                make_receiver(w, s)?;
                run_as(w, "transfer_receiver (pending)", w.k.ix_transfer_receiver(s, other("proposed-receiver")))?;
            } else {
                run_as(w, "transfer_receiver (pending)", w.k.ix_transfer_receiver(w.k.receiver, s))?;
            }
            let target = other("fee-target");
            let mint = if r.bool() { w.k.long_mint } else { w.k.short_mint };
            create_token_account(&mut w.vm, w.k.admin, target, mint, s, w.k.admin, 0).map_err(|e| format!("c19s prep: token account {e:?}"))?;
            Ok(w.k.ix_claim_fees_from_market(s, w.k.markets[r.below(2)].market, mint, target))
        }),
        // the current receiver cannot accept for the proposed one
        st("accept_receiver", Auth::Key(vec![core(CoreError::PermissionDenied)]), |w, s, a, _r| {
            if a {
                run_as(w, "transfer_receiver (pending)", w.k.ix_transfer_receiver(w.k.receiver, s))?;
            } else {
                make_receiver(w, s)?;
                let p = fund(w, other("proposed-receiver"));
                run_as(w, "transfer_receiver (pending)", w.k.ix_transfer_receiver(s, p))?;
            }
            Ok(w.k.ix_accept_receiver(s))
        }),
        // "must be a signer and the current admin" — the proposed next authority is not an admin yet
        st("transfer_store_authority", Auth::Key(vec![core(CoreError::NotAnAdmin)]), |w, s, a, _r| {
            if a {
                make_admin(w, s)?;
                run_as(w, "transfer_store_authority (pending)", w.k.ix_transfer_store_authority(s, other("proposed-authority")))?;
            } else if s == w.k.admin {
                // the old admin after it handed the store over, proposed again but not accepted
                let new_admin = fund(w, other("new-admin"));
                make_admin(w, new_admin)?;
                run_as(w, "transfer_store_authority (pending)", w.k.ix_transfer_store_authority(new_admin, s))?;
            } else {
                run_as(w, "transfer_store_authority (pending)", w.k.ix_transfer_store_authority(w.k.admin, s))?;
            }
            Ok(w.k.ix_transfer_store_authority(s, other("redirected-authority")))
        }),
        // the current admin cannot accept for the proposed one
        st("accept_store_authority", Auth::Key(vec![codes::CONSTRAINT_HAS_ONE]), |w, s, a, _r| {
            if a {
                run_as(w, "transfer_store_authority (pending)", w.k.ix_transfer_store_authority(w.k.admin, s))?;
            } else {
                make_admin(w, s)?;
                let p = fund(w, other("proposed-authority"));
                run_as(w, "transfer_store_authority (pending)", w.k.ix_transfer_store_authority(s, p))?;
            }
            Ok(w.k.ix_accept_store_authority(s))
        }),
        // liquidity-provider: `has_one = authority` / `has_one = pending_authority`
        lpe("transfer_authority", Auth::Key(vec![codes::CONSTRAINT_HAS_ONE]), |w, s, a, _r| {
            if a {
                lp::setup(w, s)?;
                run_as(w, "lp transfer_authority (pending)", lp::transfer(s, other("lp-proposed")))?;
            } else {
                let o = fund(w, other("lp-authority"));
                lp::setup(w, o)?;
                run_as(w, "lp transfer_authority (pending)", lp::transfer(o, s))?;
            }
            Ok(lp::transfer(s, other("lp-redirected")))
        }),
        lpe("accept_authority", Auth::Key(vec![codes::CONSTRAINT_HAS_ONE]), |w, s, a, _r| {
            if a {
                let o = fund(w, other("lp-authority"));
                lp::setup(w, o)?;
                run_as(w, "lp transfer_authority (pending)", lp::transfer(o, s))?;
            } else {
                lp::setup(w, s)?;
                let p = fund(w, other("lp-proposed"));
                run_as(w, "lp transfer_authority (pending)", lp::transfer(s, p))?;
            }
            Ok(lp::accept(s))
        }),
    ]
}
