//! Instruction-path clauses of C18 (role membership) and C35 (stored names), driven through the real
//! gmsol_store instructions in the W1 world.
//!
//! * `run_c18_instr`: sequences of enable_role / disable_role / grant_role / revoke_role / check_role /
//!   has_role / check_admin / has_admin instructions, differentially against the same calls made directly
//!   on a copy of the `Store` struct (result codes, returned booleans and the resulting bytes must agree).
//! * `run_c35_instr`: names accepted by enable_role / initialize_market / push_to_token_map_synthetic are
//!   read back exactly (role usable for grant / has_role / revoke / disable; `Market::name`; `token_name`).

use crate::engine::{pick, Ctx, Rec};
use crate::svm;
use crate::world1::{World1, ROLES};
use anchor_lang::solana_program::{program::get_return_data, program_error::ProgramError, pubkey::Pubkey};
use gmsol_store::states::{PriceProviderKind, Store, UpdateTokenConfigParams};
use proptest::prelude::*;
use serde::{Deserialize, Serialize};

#[derive(Debug, Clone, Serialize, Deserialize)]
pub enum Op {
    Enable(u8),
    Disable(u8),
    Grant(u8, u8),
    Revoke(u8, u8),
    CheckRole(u8, u8),
    HasRole(u8, u8),
    CheckAdmin(u8),
    HasAdmin(u8),
}

#[derive(Debug, Clone, Serialize, Deserialize)]
pub struct Case {
    pub ops: Vec<Op>,
}

const ADDRS: usize = 6;
/// 10 world roles + 25 new names: crosses the 32-role capacity.
const NEW_ROLES: usize = 25;

fn role_name(i: u8) -> String {
    let i = i as usize % (ROLES.len() + NEW_ROLES);
    if i < ROLES.len() {
        ROLES[i].to_string()
    } else {
        format!("C18I_ROLE_{:02}", i - ROLES.len())
    }
}

fn case() -> impl Strategy<Value = Case> {
    let role = || prop_oneof![2 => 0u8..10, 3 => 10u8..35];
    let addr = || 0u8..ADDRS as u8;
    let op = prop_oneof![
        4 => role().prop_map(Op::Enable),
        2 => role().prop_map(Op::Disable),
        4 => (addr(), role()).prop_map(|(a, r)| Op::Grant(a, r)),
        3 => (addr(), role()).prop_map(|(a, r)| Op::Revoke(a, r)),
        2 => (addr(), role()).prop_map(|(a, r)| Op::CheckRole(a, r)),
        2 => (addr(), role()).prop_map(|(a, r)| Op::HasRole(a, r)),
        1 => addr().prop_map(Op::CheckAdmin),
        1 => addr().prop_map(Op::HasAdmin),
    ];
    prop_oneof![4 => proptest::collection::vec(op.clone(), 1..40), 1 => (0u8..25, 22usize..=27, proptest::collection::vec(op, 0..12)).prop_map(|(start, len, tail)| {
            // fill the role table up to (and beyond) its capacity, then continue with random operations
            let mut ops: Vec<Op> = (0..len).map(|i| Op::Enable(10 + ((start as usize + i) % NEW_ROLES) as u8)).collect();
            ops.extend(tail);
            ops
        })]
    .prop_map(|ops| Case { ops })
}

fn code_of(e: anchor_lang::error::Error) -> ProgramError {
    e.into()
}

fn returned_bool() -> Option<bool> {
    get_return_data().and_then(|(pid, d)| if pid == gmsol_store::ID && d.len() == 1 { Some(d[0] != 0) } else { None })
}

fn check_c18(c: &Case, rec: &mut Rec) -> Result<(), String> {
    let mut w = World1::fresh()?;
    let admin = w.k.admin;
    let addrs: [Pubkey; ADDRS] = [w.k.role_keys[0], w.k.role_keys[1], w.k.stranger, admin, svm::key_of("c18i-a"), svm::key_of("c18i-b")];
    w.vm.fund(addrs[4], 1_000_000_000);
    w.vm.fund(addrs[5], 1_000_000_000);
    let mut shadow: Store = w.store();
    let mut full = false;
    for (n, op) in c.ops.iter().enumerate() {
        let before = w.vm.accounts.clone();
        // (instruction, direct result as Result<Option<bool>, ProgramError>)
        let (ix, direct): (_, Result<Option<bool>, ProgramError>) = match op {
            Op::Enable(r) => (w.k.ix_enable_role(admin, &role_name(*r)), shadow.enable_role(&role_name(*r)).map(|_| None).map_err(code_of)),
            Op::Disable(r) => (w.k.ix_disable_role(admin, &role_name(*r)), shadow.disable_role(&role_name(*r)).map(|_| None).map_err(code_of)),
            Op::Grant(a, r) => (w.k.ix_grant_role(admin, addrs[*a as usize], &role_name(*r)), shadow.grant(&addrs[*a as usize], &role_name(*r)).map(|_| None).map_err(code_of)),
            Op::Revoke(a, r) => (w.k.ix_revoke_role(admin, addrs[*a as usize], &role_name(*r)), shadow.revoke(&addrs[*a as usize], &role_name(*r)).map(|_| None).map_err(code_of)),
            Op::CheckRole(a, r) => (w.k.ix_check_role(addrs[*a as usize], &role_name(*r)), shadow.has_role(&addrs[*a as usize], &role_name(*r)).map(Some).map_err(code_of)),
            Op::HasRole(a, r) => (w.k.ix_has_role(addrs[*a as usize], &role_name(*r)), shadow.has_role(&addrs[*a as usize], &role_name(*r)).map(Some).map_err(code_of)),
            Op::CheckAdmin(a) => (w.k.ix_check_admin(addrs[*a as usize]), shadow.has_admin_role(&addrs[*a as usize]).map(Some).map_err(code_of)),
            Op::HasAdmin(a) => (w.k.ix_has_admin(addrs[*a as usize]), shadow.has_admin_role(&addrs[*a as usize]).map(Some).map_err(code_of)),
        };
        let real = w.process(&ix);
        match (&real, &direct) {
            (Ok(()), Ok(want)) => {
                if let Some(b) = want {
                    let got = returned_bool();
                    if got != Some(*b) {
                        return Err(format!("step {n} {op:?}: instruction returned {got:?}, direct call {b}"));
                    }
                    rec.class_if(*b, "query_true");
                    rec.class_if(!*b, "query_false");
                }
            }
            (Err(a), Err(b)) if a == b => {
                if w.vm.accounts != before {
                    return Err(format!("step {n} {op:?}: failed instruction changed accounts"));
                }
                rec.class("agreeing_error");
                if matches!(op, Op::Enable(_)) && shadow.role().num_roles() >= 32 {
                    full = true;
                }
            }
            _ => return Err(format!("step {n} {op:?}: instruction result {real:?}, direct call on Store {direct:?}")),
        }
        let data = w.vm.data(&w.k.store);
        if data.len() != 8 + std::mem::size_of::<Store>() || &data[8..] != bytemuck::bytes_of(&shadow) {
            return Err(format!("step {n} {op:?}: store account bytes differ from the directly updated Store"));
        }
        let mut rest = w.vm.accounts.clone();
        rest.insert(w.k.store, before[&w.k.store].clone());
        if rest != before {
            return Err(format!("step {n} {op:?}: an account other than the store changed"));
        }
    }
    rec.class_if(full, "role_capacity_reached");
    rec.nontrivial_if(full || c.ops.len() > 10);
    Ok(())
}

pub fn run_c18_instr(ctx: &mut Ctx) {
    ctx.rule("instruction path of C18: sequences of 1..39 random (or 22..27 consecutive enable_role of new names followed by 0..11 random) real enable_role / disable_role / grant_role / revoke_role / check_role / has_role / check_admin / has_admin instructions over 6 addresses and 35 role names (the 10 of the W1 world + 25 new: crosses the 32-role capacity), signed by the store authority; oracle = the same operations applied directly to a copy of the Store struct: same Ok/Err and error code, same returned boolean (Anchor return data), store account bytes == bytes of the directly updated struct, no other account changes, failed instructions change nothing; non-trivial = capacity reached or more than 10 steps");
    ctx.assume("differential only: the semantic model of role membership is C18's direct-call check; svm-lite is not the Solana runtime");
    let n = ctx.cases(1_500, 75_000);
    ctx.search("instr", n, case, check_c18);
    ctx.floor("instr:role_capacity_reached", 50);
    ctx.floor("instr:query_true", 100);
    ctx.floor("instr:agreeing_error", 500);
}

// ------------------------------------------------------------------------------------------ C35

fn check_c35(c: &crate::props::c35::Case, rec: &mut Rec) -> Result<(), String> {
    let name = c.name.as_str();
    let mut w = World1::fresh()?;
    let admin = w.k.admin;
    let mk = w.k.role_key(gmsol_utils::role::RoleKey::MARKET_KEEPER);
    let user = svm::key_of("c35i-user");

    // (a) role names
    let before = w.vm.accounts.clone();
    match w.process(&w.k.ix_enable_role(admin, name)) {
        Ok(()) => {
            rec.class("role_accepted");
            rec.class_if(name.len() == 32, "role_exact_fill");
            let st = w.store();
            let names: Vec<String> = st.role().roles().map(|r| r.map(|s| s.to_string()).map_err(|e| e.to_string())).collect::<Result<_, _>>().map_err(|e| format!("role table unreadable after enable_role({name:?}): {e}"))?;
            if names.iter().filter(|n| n.as_str() == name).count() != 1 {
                return Err(format!("enable_role({name:?}) accepted but the role table reads {names:?}"));
            }
            w.process(&w.k.ix_grant_role(admin, user, name)).map_err(|e| format!("role {name:?} accepted by enable_role but grant_role fails: {e:?}"))?;
            w.process(&w.k.ix_has_role(user, name)).map_err(|e| format!("role {name:?}: has_role fails: {e:?}"))?;
            if returned_bool() != Some(true) {
                return Err(format!("role {name:?}: has_role returned {:?} after grant", returned_bool()));
            }
            w.process(&w.k.ix_revoke_role(admin, user, name)).map_err(|e| format!("role {name:?}: revoke_role fails: {e:?}"))?;
            w.process(&w.k.ix_disable_role(admin, name)).map_err(|e| format!("role {name:?}: disable_role fails: {e:?}"))?;
        }
        Err(_) => {
            rec.class("role_rejected");
            if w.vm.accounts != before {
                return Err(format!("rejected enable_role({name:?}) changed accounts"));
            }
        }
    }

    // (b) market names
    let before = w.vm.accounts.clone();
    let (i, l, s) = (w.k.index_a, w.k.short_mint, w.k.short_mint);
    match w.process(&w.k.ix_initialize_market(mk, i, l, s, name, true)) {
        Ok(()) => {
            rec.class("market_accepted");
            rec.class_if(name.len() == 64, "market_exact_fill");
            let token = w.k.market_token_pda(&i, &l, &s);
            let m: gmsol_store::states::Market = w.read(&w.k.market_pda(&token)).ok_or("new market unreadable")?;
            match m.name() {
                Ok(got) if got == name => {}
                other => return Err(format!("initialize_market accepted the name {name:?} but it reads back {other:?}")),
            }
        }
        Err(_) => {
            rec.class("market_rejected");
            if w.vm.accounts != before {
                return Err(format!("rejected initialize_market({name:?}) changed accounts"));
            }
        }
    }

    // (c) token config names
    let before = w.vm.accounts.clone();
    let token = svm::key_of("c35i-token");
    let params = UpdateTokenConfigParams::default().update_price_feed(&PriceProviderKind::ChainlinkDataStreams, svm::key_of("c35i-feed"), None).map_err(|e| e.to_string())?;
    match w.process(&w.k.ix_push_to_token_map_synthetic(mk, w.k.token_map, token, 8, name, params, true, true)) {
        Ok(()) => {
            rec.class("token_accepted");
            w.process(&w.k.ix_token_name(w.k.token_map, token)).map_err(|e| format!("token config name {name:?} accepted but token_name fails: {e:?}"))?;
            let got = get_return_data().map(|(_, d)| d).ok_or("token_name returned nothing")?;
            // borsh string: u32 length + bytes
            let want: Vec<u8> = (name.len() as u32).to_le_bytes().into_iter().chain(name.bytes()).collect();
            if got != want {
                return Err(format!("token config name {name:?} reads back as {:?}", String::from_utf8_lossy(got.get(4..).unwrap_or(&[]))));
            }
        }
        Err(_) => {
            rec.class("token_rejected");
            if w.vm.accounts != before {
                return Err(format!("rejected push_to_token_map_synthetic({name:?}) changed accounts"));
            }
        }
    }
    rec.nontrivial_if(matches!(name.len(), 31..=33 | 63..=65) || name.contains('\0'));
    Ok(())
}

pub fn run_c35_instr(ctx: &mut Ctx) {
    ctx.rule("instruction path of C35: names from C35's generator (byte length 0..=70, exact 31/32/33 and 63/64/65, multi-byte UTF-8 straddling the limit, interior / trailing NUL) passed to the real enable_role, initialize_market and push_to_token_map_synthetic instructions in the W1 world; oracle: accepted role => listed exactly once in the role table under the same string and grant_role / has_role (returns true) / revoke_role / disable_role work with it; accepted market name => Market::name() == name; accepted token config name => the token_name instruction returns the same string; a rejected name leaves every account byte-identical; non-trivial = boundary length or NUL");
    ctx.assume("svm-lite is not the Solana runtime; store key and timelock executor role names are covered by C35's direct-call check only");
    let n = ctx.cases(2_000, 100_000);
    ctx.search("instr_names", n, crate::props::c35::name_strategy, check_c35);
    for c in ["role_accepted", "role_rejected", "role_exact_fill", "market_accepted", "market_rejected", "market_exact_fill", "token_accepted", "token_rejected"] {
        ctx.floor(&format!("instr_names:{c}"), 30);
    }
}
